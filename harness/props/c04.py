"""C04 — invalid command lines are rejected with a non-zero exit; results are well-typed."""
from __future__ import annotations

import argparse
import copy
import dataclasses
import enum as _enum
import pathlib
from typing import Union

from harness.core import gen_types as G
from harness.core import sp
from harness.core.trees import Universe

PID = "C04"
RULE = ("(a) fields.parse, end to end through the public API and the Lean pipeline model: the MUTATION CLASS of the "
        "property's quantifier is drawn first {ill-typed token (scalar, container item, heterogeneous-tuple position, "
        "position swap, Union member, Enum member VALUE), tuple arity +1/-1/=form, out-of-set Enum/Literal value (scalar and "
        "item), removed required option, unknown option that abbreviates nothing (fresh name, near-miss name+x, wrong dash "
        "variant, with/without =value, any position), value on a negative flag (both spellings)}, then a flat dataclass "
        "over the CLI type grammar that has a field the class applies to, a valid canonical argv for it, and exactly one "
        "mutation; naming settings (dash variant x generation mode x nested mode) vary; plus unmutated controls and a "
        "random token stream. Every mutation must exit with status 2 and a message on stderr; every accepted result must "
        "conform leaf by leaf to its annotation. (b) nested.parse (oracle only): a dataclass with a nested dataclass and a "
        "subgroup field, mutations {subgroup key outside the key set, option of the unselected subgroup, ill-typed token / "
        "missing required option inside the nested or chosen class, missing required subgroup, unknown option}. (c) engine.run: "
        "the argparse-engine model against stdlib argparse itself on independently generated action tables (store actions "
        "with int/float/str/str2bool/Path/parse_enum/try_functions/parse_tuple callables, BooleanOptionalAction) and argv "
        "(abbreviations, `--`, `opt=value`, negative numbers, repeated options; help requests ~3%). Non-trivial = a mutated "
        "case, or an engine case with >= 2 actions and >= 3 tokens; distinct by canonical JSON. Declared defaults are "
        "always well-typed: a dataclass such as `color: Color = \"PURPLE\"` (a string default that names no member) is ill-typed "
        "itself and outside the property's quantifier (\"dataclasses over the supported type grammar\"); the model reproduces "
        "its KeyError (Lean witness c04_default_keyerror_witness) but it is not recorded as a finding.")
ASSUMPTIONS = ["argparse's error path = SystemExit(2) after printing usage + message to stderr (observed in-process)"]
TRUSTED = ["stdlib argparse (modelled fragment compared directly against it on every run)"]
EXHAUSTIVE = {"quick": False, "thorough": False}
THOROUGH_ROUNDS = 4   # thorough tier: this many generator passes with derived PRNG states (vcheck)
MANIFEST = {
    "text": ("Proof over the Lean model of the argparse engine (Model/Engine) and of get_arg_options/postprocess "
             "(Model/Fields). For EVERY table and EVERY argv: the only exit statuses are 2 and, for a lexed help token, 0 "
             "(c04_status, c04_exit0_needs_help_token); the `fuel` and `bad action index` escape hatches of the model are "
             "dead code (c04_unmodelled_reasons: an unmodelled outcome is always a type conversion outside the fragment or a "
             "single-dash cluster). Rejection, wherever the offending token stands and whatever surrounds it (statements over "
             "arbitrary argv = pre ++ … ++ post, no canonical-shape assumption): unknown long option with the lexer's verdict "
             "DERIVED (c04_unknown_long_rejected), required option absent (c04_missing_required_any), value on a negative flag "
             "in both spellings (c04_negflag_eq_rejected, c04_negflag_space_rejected), wrong arity of a fixed-length tuple "
             "(c04_arity_short_rejected, c04_arity_long_rejected, c04_arity_eq_rejected), a token failing type=/choices= "
             "(c04_bad_value_rejected; position-aware for heterogeneous tuples: c04_hetero_bad_rejected uses the proved "
             "alignment of the parse_tuple counter); each with a `_status2` corollary: without a help token and on a "
             "well-formed table the outcome IS exit status 2 (or a conversion outside the fragment), not merely `not ok`. "
             "Well-typedness against the ANNOTATION (not the action's own type=): c04_conforms_flat — for every flat "
             "dataclass with distinct field names and every argv, each field of an accepted result is the field's declared "
             "default (possibly run through type= by argparse) or Conforms to its annotation, position by position for "
             "heterogeneous tuples, with the exact length for fixed tuples, None only under Optional/nargs='?'; through "
             "postprocess; c04_conforms_flat_strict: with well-typed declared defaults (DefaultsConform) EVERY field conforms "
             "or is the None of a field declared `= None`. c04_no_traceback_pipeline: under DefaultsConform the whole pipeline "
             "incl. postprocess never raises; c04_default_keyerror_witness shows the hypothesis is needed (an Enum field "
             "whose string default is no member raises KeyError on the empty command line — an ill-typed dataclass, outside the property's quantifier, kept as a witness only). Engine-stage theorems of round 1 are kept "
             "(c04_sound with a strengthened ValOk: lengths, None only for nargs='?'). The model is tied to the code by "
             "fields.parse (public API vs parseFlat, all naming settings) and, independently of simple-parsing's set-up code, by "
             "engine.run against stdlib argparse with simple-parsing's real type= callables and BooleanOptionalAction; nested "
             "dataclasses and subgroups are covered by the oracle only (nested.parse), not by the Lean model."),
    "note": ("Trusted: Lean kernel + standard axioms; harness. Modelled not verified: argparse 3.12.1 optional-argument "
             "fragment, field_wrapper.py:231-533,797-821, field_parsing.py:70-298, custom_actions.py:144-172. Outside the "
             "model (counted as unmodelled, never compared): single-dash clusters (-x5), non-ASCII digits, positionals, "
             "path normalisation; nested dataclasses / subgroups (oracle only)."),
    "technique": "Lean 4: one-step characterisation of the consume loop + invariants by induction; differential check vs argparse",
    "design_ref": "DESIGN.md section 5, C04",
}

GARBAGE = {
    "int": ["abc", "1.5", "1e3", "0x10", "", "1 2", "12x", "١٢x", "True"],
    "float": ["abc", "1,5", "", "1.2.3", "0x1p3q", "1e", "True"],
    "bool": ["maybe", "2", "tru", "yess", "", "10"],
}
CFG0 = {"dash": "UNDERSCORE", "gen": "FLAT", "nest": "DEFAULT"}
BOOL_WORDS = ["yes", "true", "t", "y", "1", "no", "false", "f", "n", "0"]
CLASSES = ["illtyped", "arity", "choice", "required", "unknown", "negflag"]


# ----------------------------------------------------------------------------------------------
# independent transcription of "token tok is a well-formed value of base type t" (oracle side)

def valid_for(t, tok: str) -> bool:
    k = t["k"]
    if k == "int":
        try:
            int(tok)
            return True
        except ValueError:
            return False
    if k == "float":
        try:
            float(tok)
            return True
        except ValueError:
            return False
    if k == "bool":
        return tok.strip().lower() in BOOL_WORDS
    if k == "enum":
        return tok in t["members"]
    if k == "union":
        return any(valid_for(a, tok) for a in t["alts"])
    return True   # str, path, any


def inner_of(t):
    return t["inner"] if t["k"] == "opt" else t


# ----------------------------------------------------------------------------------------------
# option spelling under the naming settings (only used to WRITE command lines; the model derives its own)

def cand_names(cfg, nm):
    nested = ("config." + nm) if cfg["nest"] == "DEFAULT" else nm
    c = {"FLAT": [nm], "NESTED": [nested], "BOTH": [nm, nested]}[cfg["gen"]]
    if cfg["dash"] == "DASH":
        c = [x.replace("_", "-") for x in c]
    return c


def opt_of(cfg, nm):
    x = cand_names(cfg, nm)[0]
    if len(nm) == 1 and x == nm:
        return "-" + x
    return "--" + x


def neg_of(opt):
    body = opt.lstrip("-")
    if "." in body:
        first, *mid, last = body.split(".")
        return "--" + ".".join([first] + mid + ["no" + last])
    return "--no" + body


def all_spellings(cfg_unused, fields):
    """an OVER-approximation of every option string the parser may have (any settings), for choosing unknown options"""
    out = {"-h", "--help"}
    for f in fields:
        nm = f["name"]
        for base in {nm, "config." + nm, nm.replace("_", "-"), "config." + nm.replace("_", "-")}:
            out |= {"-" + base, "--" + base, neg_of("--" + base)}
    return out


def render(cfg, fields, asg, order, eq_flags):
    argv = []
    for nm, eq in zip(order, eq_flags):
        toks = G.tokens(asg[nm])
        opt = opt_of(cfg, nm)
        if toks is None:
            argv.append(opt)  # bare option: only generated for Optional scalars (stores None)
        elif eq and len(toks) == 1:
            argv.append(f"{opt}={toks[0]}")
        else:
            argv += [opt] + toks
    return argv


# ----------------------------------------------------------------------------------------------
# dataclass generation (copied from the C02 generator so that the two checks evolve independently)

def gen_default(rng, t, required_p=0.25):
    r = rng.random()
    if r < required_p:
        return {"kind": "missing"}
    if t["k"] == "opt" and r < 0.6:
        return {"kind": "value", "v": {"t": "none"}}
    return {"kind": "value", "v": G.literal_expressible(t, G.gen_value(rng, t))}


def gen_fields(rng, n=None):
    n = n or rng.choice([1, 2, 2, 3, 3, 4, 5, 6])
    names = rng.sample(G.NAMES, n)
    fields = []
    for nm in names:
        t = G.gen_ty(rng)
        fld = {"name": nm, "ty": t, "default": gen_default(rng, t)}
        if rng.random() < 0.15:
            fld["metavar"] = rng.choice(["N", "VALUE", "X"])
        if rng.random() < 0.1:
            fld["help"] = "some help text"
        if t["k"] == "bool" and rng.random() < 0.35:
            fld["decl"] = "flag"    # declared with the `flag()` helper instead of a plain annotation: same contract
        fields.append(fld)
    return fields


def sort_fields(fields):
    fields.sort(key=lambda f: f["default"]["kind"] != "missing")   # dataclasses demand fields without a default first
    return fields


def fit_type(rng, cls):
    """a field type the mutation class applies to"""
    def maybe_opt(t, p=0.25):
        return {"k": "opt", "inner": t} if rng.random() < p else t

    if cls == "illtyped":
        r = rng.random()
        b = {"k": rng.choice(["int", "float", "bool"])}
        if r < 0.25:
            return maybe_opt(b)
        if r < 0.40:
            return maybe_opt({"k": rng.choice(["list", "vtuple"]), "item": b})
        if r < 0.70:
            n = rng.choice([2, 2, 3, 4])
            items = [G.base_ty(rng) for _ in range(n)]
            items[rng.randrange(n)] = b
            return maybe_opt({"k": "tuple", "items": items})
        if r < 0.85:
            alts = rng.choice([["int", "float"], ["float", "int"], ["int", "bool"], ["bool", "float"]])
            return maybe_opt({"k": "union", "alts": [{"k": a} for a in alts]})
        e = dict(rng.choice(G.ENUMS))
        return rng.choice([{"k": "opt", "inner": e}, {"k": "list", "item": e}, {"k": "tuple", "items": [e, {"k": "int"}]}, e])
    if cls == "arity":
        n = rng.choice([1, 2, 2, 3, 4])
        if rng.random() < 0.4:
            b = G.base_ty(rng)
            items = [dict(b) for _ in range(n)]
        else:
            items = [G.base_ty(rng) for _ in range(n)]
        return maybe_opt({"k": "tuple", "items": items})
    if cls == "choice":
        r = rng.random()
        e = dict(rng.choice(G.ENUMS))
        if r < 0.35:
            return e
        if r < 0.6:
            for _ in range(20):
                t = G.gen_ty(rng, p_opt=0.0)
                if t["k"] == "literal":
                    return t
            return e
        if r < 0.75:
            return {"k": rng.choice(["list", "vtuple"]), "item": e}
        if r < 0.9:
            return {"k": "tuple", "items": [{"k": "str"}, e]}
        return {"k": "opt", "inner": e}
    if cls == "negflag":
        return {"k": "bool"}
    return G.gen_ty(rng, p_opt=0.0)


def class_applies(cls, f):
    t = f["ty"]
    inner = inner_of(t)
    k = inner["k"]
    if cls == "illtyped":
        if k in ("int", "float", "bool"):
            return True
        if k == "union":
            return not any(a["k"] in ("str", "path") for a in inner["alts"])
        if k in ("list", "vtuple"):
            return inner["item"]["k"] in ("int", "float", "bool") or (inner["item"]["k"] == "enum" and bool(value_tokens(inner["item"])))
        if k == "tuple":
            return any(it["k"] in ("int", "float", "bool") or (it["k"] == "enum" and value_tokens(it)) for it in inner["items"])
        if k == "enum":
            return bool(value_tokens(inner))
        return False
    if cls == "arity":
        return k == "tuple"
    if cls == "choice":
        return k in ("enum", "literal") or (k in ("list", "vtuple") and inner["item"]["k"] == "enum") or \
            (k == "tuple" and any(it["k"] == "enum" for it in inner["items"]))
    if cls == "required":
        return f["default"]["kind"] == "missing" and t["k"] != "opt"
    if cls == "negflag":
        return t["k"] == "bool" and not (f["default"]["kind"] == "value" and f["default"]["v"]["t"] == "none")
    return True


def value_tokens(e):
    """str() of the member VALUES of an enum type that are not member NAMES (a by-value lookup would accept them)"""
    vals = e.get("values")
    if vals is None:
        vals = list(range(len(e["members"])))
    return [str(v) for v in vals if str(v) not in e["members"]]


def make_case(rng, fields, cfg, api, force=None):
    asg = {}
    for f in fields:
        must = f["default"]["kind"] == "missing" and f["ty"]["k"] != "opt"
        if must or f["name"] == force or rng.random() < 0.6:
            asg[f["name"]] = G.literal_expressible(f["ty"], G.gen_value(rng, f["ty"], allow_none=f["name"] != force))
    ok = False
    for _ in range(30):
        if expressible(fields, asg):
            ok = True
            break
        for f in fields:
            if f["name"] in asg:
                asg[f["name"]] = G.literal_expressible(f["ty"], G.gen_value(rng, f["ty"], allow_none=f["name"] != force))
    if not ok:
        return None
    order = list(asg)
    rng.shuffle(order)
    eq = [rng.random() < 0.5 for _ in order]
    return {"fields": fields, "asg": asg, "order": order, "eq": eq, "api": api, "cfg": cfg,
            "argv": render(cfg, fields, asg, order, eq)}


def expressible(fields, asg):
    for f in fields:
        if f["name"] in asg:
            toks = G.tokens(asg[f["name"]])
            if toks is None:
                t = f["ty"]
                if not (t["k"] == "opt" and t["inner"]["k"] not in ("list", "tuple", "vtuple")):
                    return False
                continue
            if not all(G.expressible_token(t) for t in toks):
                return False
            if inner_of(f["ty"])["k"] == "tuple" and len(toks) == 0:
                return False
    return True


def gen_cfg(rng):
    if rng.random() < 0.5:
        return dict(CFG0), rng.choice(["parse", "parser"])
    return {"dash": rng.choice(sp.ALL_DASH), "gen": rng.choice(sp.ALL_GEN), "nest": rng.choice(sp.ALL_NEST)}, "parser"


def gen_base(rng, cls):
    """(case dict, field the class applies to | None)"""
    for _ in range(50):
        fields = gen_fields(rng)
        if cls == "required" and rng.random() < 0.12:
            # a bool declared through flag() with no default is required like any other field without a default
            f = rng.choice(fields)
            f.update(ty={"k": "bool"}, default={"kind": "missing"}, decl="flag")
            fields = [f] + [g for g in fields if g is not f]
        cands = [f for f in fields if class_applies(cls, f)]
        if cls == "required" and cands and cands[0].get("decl") == "flag" and rng.random() < 0.8:
            cands = cands[:1]
        if not cands and cls != "unknown":
            f = rng.choice(fields)
            f["ty"] = fit_type(rng, cls)
            f.pop("decl", None)
            if f["ty"]["k"] == "bool" and rng.random() < 0.35:
                f["decl"] = "flag"
            f["default"] = {"kind": "missing"} if cls == "required" else gen_default(rng, f["ty"], 0.25)
            if cls == "negflag" and f["default"]["kind"] == "value" and f["default"]["v"]["t"] == "none":
                f["default"] = {"kind": "value", "v": {"t": "bool", "v": rng.random() < 0.5}}
            cands = [f] if class_applies(cls, f) else []
        if not cands and cls != "unknown":
            continue
        sort_fields(fields)
        target = rng.choice(cands) if cands else None
        cfg, api = gen_cfg(rng)
        force = target["name"] if target is not None and cls not in ("negflag",) else None
        c = make_case(rng, fields, cfg, api, force=force)
        if c is not None:
            return c, target
    raise RuntimeError("generator could not build a case for " + cls)


# ----------------------------------------------------------------------------------------------
# the mutations

def bad_token_for(rng, it):
    if it["k"] == "enum":
        return rng.choice(value_tokens(it))
    if it["k"] == "union":
        return rng.choice(["abc", "", "1,5", "0x10", "1.2.3"])
    return rng.choice(GARBAGE[it["k"]])


def mutate(rng, c, cls, f):
    """returns (subkind, argv, form)"""
    fields, asg, cfg = c["fields"], c["asg"], c["cfg"]
    order, eq = list(c["order"]), list(c["eq"])
    if cls == "unknown":
        known = all_spellings(cfg, fields)
        names = [x["name"] for x in fields]
        cand = ["--zzz", "--unknown_opt", "--qq.x", "-Z", "--nx", "--config.zzz"]
        cand += ["--" + n + "x" for n in names] + ["--config." + n + "x" for n in names]
        for n in names:
            if "_" in n and cfg["dash"] == "UNDERSCORE":
                cand.append(opt_of(cfg, n).replace("_", "-"))
            if "_" in n and cfg["dash"] == "DASH":
                cand.append(opt_of(cfg, n).replace("-", "_").replace("__", "--", 1))
        cand = [u for u in cand if not any(o.startswith(u) for o in known) and u not in known]
        u = rng.choice(cand)
        form = "space"
        if rng.random() < 0.3 and u.startswith("--"):
            extra, form = [u + "=" + rng.choice(["1", "x", ""])], "eq"
        else:
            extra = [u] + rng.choice([[], ["1"], ["x"]])
        argv = list(c["argv"])
        pos = rng.randrange(len(argv) + 1) if rng.random() < 0.5 else len(argv)
        sub = "near-miss" if u not in ("--zzz", "--unknown_opt", "--qq.x", "-Z", "--nx", "--config.zzz") else "fresh"
        return "unknown:" + sub, argv[:pos] + extra + argv[pos:], form
    nm = f["name"]
    inner = inner_of(f["ty"])
    k = inner["k"]
    opt = opt_of(cfg, nm)
    if cls == "required":
        asg2 = {a: b for a, b in asg.items() if a != nm}
        order2 = [o for o in order if o != nm]
        return "required", render(cfg, fields, asg2, order2, eq[: len(order2)]), "none"
    segs = {o: render(cfg, fields, {o: asg[o]}, [o], [e]) for o, e in zip(order, eq)}
    form = "space"
    sub = cls
    if cls == "illtyped":
        if k in ("int", "float", "bool", "union", "enum"):
            bad = bad_token_for(rng, inner)
            sub = "illtyped:" + ("scalar" if k in ("int", "float", "bool") else k)
            if rng.random() < 0.5:
                seg = [opt, bad]
            else:
                seg, form = [f"{opt}={bad}"], "eq"
        elif k in ("list", "vtuple"):
            toks = G.tokens(asg[nm])
            if not toks:
                toks = [G.token(G.gen_scalar(rng, inner["item"]))]
            toks[rng.randrange(len(toks))] = bad_token_for(rng, inner["item"])
            seg, sub = [opt] + toks, "illtyped:item"
        else:  # tuple
            toks = G.tokens(asg[nm])
            items = inner["items"]
            swaps = [(i, j) for i in range(len(items)) for j in range(len(items))
                     if i != j and not valid_for(items[i], toks[j])]
            idxs = [i for i, it in enumerate(items) if it["k"] in ("int", "float", "bool") or (it["k"] == "enum" and value_tokens(it))]
            if swaps and (not idxs or rng.random() < 0.4):
                i, j = rng.choice(swaps)
                toks[i], toks[j] = toks[j], toks[i]
                sub = "illtyped:tuple-swap"
            else:
                i = rng.choice(idxs)
                toks[i] = bad_token_for(rng, items[i])
                sub = "illtyped:tuple-pos"
            if len(toks) == 1 and rng.random() < 0.5 and G.expressible_token(toks[0]):
                seg, form = [f"{opt}={toks[0]}"], "eq"
            else:
                seg = [opt] + toks
    elif cls == "arity":
        toks = G.tokens(asg[nm])
        n = len(inner["items"])
        r = rng.random()
        if r < 0.4:
            seg, sub = [opt] + toks + [toks[-1]], "arity+"
        elif r < 0.8 or n == 1:
            seg, sub = [opt] + toks[:-1], "arity-"
            if n == 1 and r >= 0.8:
                seg, sub, form = [f"{opt}={toks[0]}", toks[0]], "arity+", "eq"
        else:
            seg, sub, form = [f"{opt}={toks[0]}"] + (toks[1:] if rng.random() < 0.5 else []), "arity-eq", "eq"
    elif cls == "choice":
        if k == "enum":
            m = inner["members"]
            pool = ["NOPE", m[0].swapcase(), m[0] + "x", "0x", m[-1][:-1], ""] + value_tokens(inner)
            bad = rng.choice([b for b in pool if b not in m])
            sub = "choice:enum"
        elif k == "literal":
            names = [G.token(v) for v in inner["vals"]]
            pool = ["nope", "99", "TRUE", "a b", names[0] + "0", names[0].swapcase(), " " + names[0], ""]
            bad = rng.choice([b for b in pool if b not in names])
            sub = "choice:literal"
        else:
            bad = None
        if bad is not None:
            if rng.random() < 0.5 or bad.startswith("-"):
                seg = [opt, bad]
            else:
                seg, form = [f"{opt}={bad}"], "eq"
        else:
            toks = G.tokens(asg[nm])
            if k == "tuple":
                idxs = [i for i, it in enumerate(inner["items"]) if it["k"] == "enum"]
                i = rng.choice(idxs)
                e = inner["items"][i]
            else:
                if not toks:
                    toks = [inner["item"]["members"][0]]
                i = rng.randrange(len(toks))
                e = inner["item"]
            pool = ["NOPE", e["members"][0] + "x", e["members"][0].swapcase()] + value_tokens(e)
            toks[i] = rng.choice([b for b in pool if b not in e["members"]])
            seg, sub = [opt] + toks, "choice:item"
    elif cls == "negflag":
        neg = neg_of(opt)
        w = rng.choice(BOOL_WORDS + ["True", "False"]) if rng.random() < 0.85 else rng.choice(GARBAGE["bool"])
        if rng.random() < 0.5:
            seg, form = [f"{neg}={w}"], "eq"
        else:
            seg = [neg, w]
    else:
        raise ValueError(cls)
    argv = []
    for o in order:
        argv += seg if o == nm else segs[o]
    if nm not in order:
        pos = rng.randrange(len(order) + 1)
        argv = []
        for i, o in enumerate(order):
            if i == pos:
                argv += seg
            argv += segs[o]
        if pos == len(order):
            argv += seg
    return sub, argv, form


def ty_tag(t):
    inner = inner_of(t)
    k = inner["k"]
    if k == "tuple":
        hetero = len({str(sorted(i.items())) for i in inner["items"]}) > 1
        k = "tuple-hetero" if hetero else "tuple-homog"
    return ("opt-" if t["k"] == "opt" else "") + k


def gen_fields_case(rng):
    r = rng.random()
    if r < 0.12:
        c, _ = gen_base(rng, "unknown")
        return dict(c, mutation="control", sub="control", form="none")
    if r < 0.22:
        c, _ = gen_base(rng, "unknown")
        opts = [opt_of(c["cfg"], f["name"]) for f in c["fields"]]
        toks = []
        for _ in range(rng.choice([1, 2, 3, 4, 6])):
            q = rng.random()
            if q < 0.45:
                toks.append(rng.choice(opts))
            elif q < 0.55:
                toks.append(rng.choice(opts) + "=" + rng.choice(["1", "x", "", "RED", "true"]))
            else:
                toks.append(rng.choice(["1", "2", "x", "RED", "fast", "true", "0.5", "a/b", "-3", "abc", "", "UP", "zero", "0"]))
        return dict(c, mutation="random", sub="random", form="none", argv=toks)
    cls = rng.choice(CLASSES)
    c, f = gen_base(rng, cls)
    sub, argv, form = mutate(rng, c, cls, f)
    out = dict(c, mutation=cls, sub=sub, form=form, argv=argv, valid_argv=list(c["argv"]))
    if f is not None:
        out["target"] = f["name"]
    return out


# ---- (b) nested dataclass + subgroup (oracle only) ---------------------------------------------

SIMPLE = [{"k": "int"}, {"k": "float"}, {"k": "str"}, {"k": "bool"}, {"k": "tuple", "items": [{"k": "int"}, {"k": "int"}]},
          {"k": "list", "item": {"k": "int"}}, dict(G.ENUMS[0]), {"k": "opt", "inner": {"k": "int"}}]


def gen_small_class(rng, names, p_required=0.25):
    fs = []
    for nm in names:
        t = copy.deepcopy(rng.choice(SIMPLE))
        d = gen_default(rng, t, p_required)
        fs.append({"name": nm, "ty": t, "default": d})
    return sort_fields(fs)


def gen_nested_case(rng):
    pool = [n for n in G.NAMES if n != "mode"]   # `--mode` would abbreviate `--model` in the subgroup pre-parse
    rng.shuffle(pool)
    take = lambda n: [pool.pop() for _ in range(n)]   # noqa: E731
    outer = gen_small_class(rng, take(rng.choice([0, 1, 2])))
    inner = gen_small_class(rng, take(rng.choice([1, 2, 3])))
    alt_a = gen_small_class(rng, take(rng.choice([1, 2])), 0.15)
    alt_b = gen_small_class(rng, take(rng.choice([1, 2])), 0.15)
    sub_default = rng.choice(["ka", "kb", None])
    chosen = rng.choice(["ka", "kb"]) if sub_default is None or rng.random() < 0.6 else None
    spec = {"outer": outer, "inner": inner, "alts": {"ka": alt_a, "kb": alt_b}, "sub_default": sub_default}
    active_key = chosen or sub_default
    active = {"ka": alt_a, "kb": alt_b}[active_key]
    inactive = {"ka": alt_b, "kb": alt_a}[active_key]
    # a valid argv
    segs = []
    where = {}
    for grp, fs in (("outer", outer), ("inner", inner), ("active", active)):
        for f in fs:
            must = f["default"]["kind"] == "missing" and f["ty"]["k"] != "opt"
            if must or rng.random() < 0.5:
                for _ in range(30):
                    v = G.gen_value(rng, f["ty"], allow_none=False)
                    toks = G.tokens(v)
                    if toks is not None and all(G.expressible_token(t) for t in toks):
                        break
                else:
                    return None
                segs.append((f["name"], ["--" + f["name"]] + toks if len(f["name"]) > 1 else ["-" + f["name"]] + toks))
                where[f["name"]] = (grp, f)
    if chosen is not None:
        segs.append(("model", ["--model", chosen]))
    rng.shuffle(segs)
    valid = [t for _, s in segs for t in s]
    kinds = ["control", "subgroup-key", "unknown", "unselected"]
    typed = [nm for nm, (g, f) in where.items() if inner_of(f["ty"])["k"] in ("int", "float", "bool")]
    req = [nm for nm, (g, f) in where.items() if f["default"]["kind"] == "missing" and f["ty"]["k"] != "opt"]
    if typed:
        kinds += ["illtyped", "illtyped"]
    if req:
        kinds += ["required", "required"]
    if sub_default is None:
        kinds.append("required-subgroup")
    kind = rng.choice(kinds)
    argv = valid
    if kind == "subgroup-key":
        bad = rng.choice(["zz", "KA", "k", "ka ", "kc", ""])
        argv = [t for nm, s in segs if nm != "model" for t in s]
        pos = rng.randrange(len(argv) + 1)
        argv = argv[:pos] + (["--model", bad] if rng.random() < 0.5 else [f"--model={bad}"]) + argv[pos:]
    elif kind == "unknown":
        argv = valid + [rng.choice(["--zzz", "--modelx", "--inner.zzz"])] + rng.choice([[], ["1"]])
    elif kind == "unselected":
        f = rng.choice(inactive)
        v = None
        for _ in range(30):
            v = G.gen_value(rng, f["ty"], allow_none=False)
            toks = G.tokens(v)
            if toks is not None and all(G.expressible_token(t) for t in toks):
                break
        argv = valid + [("--" if len(f["name"]) > 1 else "-") + f["name"]] + (G.tokens(v) or [])
    elif kind == "illtyped":
        nm = rng.choice(typed)
        f = where[nm][1]
        argv = []
        for n2, s in segs:
            argv += [s[0], rng.choice(GARBAGE[inner_of(f["ty"])["k"]])] if n2 == nm else s
    elif kind == "required":
        nm = rng.choice(req)
        argv = [t for n2, s in segs if n2 != nm for t in s]
    elif kind == "required-subgroup":
        argv = [t for n2, s in segs if n2 != "model" for t in s]
        # options of the (then unselected) alternative would be unknown as well: still a rejection
    return {"op": "nested.parse", "model": False,
            "case": dict(spec, argv=argv, mutation=kind, active=active_key if kind != "required-subgroup" else None)}


# ---- (c) the engine against stdlib argparse ----------------------------------------------------

ENGINE_ENUMS = [("Color", ["RED", "GREEN", "BLUE"]), ("Heading", ["NORTH", "SOUTH", "true", "0"])]


def gen_engine_case(rng):
    n = rng.choice([1, 2, 2, 3, 4, 5])
    names = rng.sample(["a", "ab", "abc", "a_b", "a-b", "x", "xy", "x.y", "lr", "lrate", "n", "5"], n)
    table = [{"opts": ["-h", "--help"], "dest": "help", "kind": "help", "nargs": 0, "conv": {"k": "str"}, "choices": None,
              "required": False, "default": None}]
    used_short = set()
    for nm in names:
        opts = [("-" if len(nm) == 1 else "--") + nm]
        short = "-" + nm[0].upper()
        if rng.random() < 0.2 and len(nm) > 1 and short not in used_short:
            used_short.add(short)
            opts.append(short)
        dest = "d_" + nm.replace("-", "D").replace(".", "P")
        if rng.random() < 0.15 and "." not in nm:
            # simple-parsing's BooleanOptionalAction (nargs='?', type=str2bool, --no<name> negative options)
            negs = []
            for o in opts:
                ng = "--no" + o.lstrip("-")
                if ng not in negs:
                    negs.append(ng)
            r = rng.random()
            default = {"t": "none"} if r < 0.3 else {"t": "bool", "v": r < 0.65}
            table.append({"opts": opts + negs, "pos": opts, "negs": negs, "dest": dest, "kind": "bool", "nargs": "?",
                          "conv": {"k": "bool"}, "choices": None, "required": rng.random() < 0.15, "default": default})
            continue
        ck = rng.choice(["int", "float", "str", "str", "bool", "path", "enum", "union", "tuple"])
        nargs = rng.choice([None, None, "?", "*", "+", 1, 2, 3])
        if ck == "enum":
            cls, members = rng.choice(ENGINE_ENUMS)
            conv = {"k": "enum", "cls": cls, "members": members}
        elif ck == "union":
            alts = rng.choice([["int", "str"], ["int", "float"], ["float", "int"], ["bool", "int"], ["int", "bool", "str"]])
            conv = {"k": "union", "alts": [{"k": a} for a in alts]}
        elif ck == "tuple":
            alts = rng.choice([["int", "str"], ["str", "int"], ["int", "float", "bool"], ["bool", "str"], ["float", "str", "int"]])
            conv = {"k": "tuple", "alts": [{"k": a} for a in alts]}
            nargs = len(alts) if rng.random() < 0.75 else rng.choice(["*", "+", 1])
        else:
            conv = {"k": ck}
        choices = None
        if ck == "str" and rng.random() < 0.3:
            choices = rng.sample(["a", "b", "c", "1", ""], 3)
        r = rng.random()
        if r < 0.15:
            default, required = {"t": "none"}, True
        elif r < 0.45:
            default, required = {"t": "none"}, False
        elif r < 0.7 or ck not in ("int", "float", "str", "bool"):
            default, required = {"t": "str", "v": rng.choice(["1", "x", "2.5", "true", "", "RED", "a/b"])}, False
        else:
            default = {"int": {"t": "int", "v": "3"}, "float": {"t": "float", "v": "0.5"}, "str": {"t": "str", "v": "dflt"},
                       "bool": {"t": "bool", "v": True}}[ck]
            required = False
        table.append({"opts": opts, "dest": dest, "kind": "store", "nargs": nargs, "conv": conv, "choices": choices,
                      "required": required, "default": default})
    real_opts = [o for a in table[1:] for o in a["opts"]]
    all_opts = real_opts or ["--help"]
    VALS = {"int": ["1", "2", "-3", "+4", "1_000", " 7 "], "float": ["0.5", "1e3", "nan", "2"], "str": ["x", "a", "b", "c", ""],
            "bool": ["true", "no", "0", "Y"], "path": ["a/b", "f.txt", "x"], "enum": ["RED", "NORTH", "0", "true"]}

    def plausible(conv, j):
        k = conv["k"]
        if k in ("union", "tuple"):
            alts = conv["alts"]
            k = alts[j % len(alts)]["k"] if k == "tuple" else rng.choice(alts)["k"]
        return rng.choice(VALS[k])

    toks = []
    for _ in range(rng.choice([0, 1, 2, 3, 4, 5, 6, 8])):
        r = rng.random()
        if r < 0.012:
            toks.append(rng.choice(["-h", "--help", "--he", "--help=1"]))   # help requests: ~3% of the cases
        elif r < 0.35:
            a = rng.choice(table[1:])
            toks.append(rng.choice(a["opts"]))
            if rng.random() < 0.6:
                # mostly followed by as many plausible value tokens as the action takes (off by one now and then)
                n = a["nargs"]
                cnt = {None: 1, "?": rng.choice([0, 1]), "*": rng.choice([0, 1, 2, 3]), "+": rng.choice([1, 2, 3])}.get(n, n)
                if rng.random() < 0.15:
                    cnt = max(0, cnt + rng.choice([-1, 1]))
                toks += [plausible(a["conv"], j) for j in range(cnt)]
        elif r < 0.45:
            o = rng.choice(all_opts)
            toks.append(o[: rng.randrange(2, len(o) + 1)] if len(o) > 2 else o)
        elif r < 0.55:
            toks.append(rng.choice(all_opts) + "=" + rng.choice(["1", "", "x", "-2", "a=b", "true", "RED"]))
        elif r < 0.6:
            toks.append(rng.choice(["--", "-", "", "--zz", "-q", "--a b", "-5", "-.5", "-1.5", "-x5", "--=", "=x"]))
        else:
            toks.append(rng.choice(["1", "2", "-3", "0.5", "x", "a", "b", "c", "true", "no", "1e3", "abc", " 7 ", "1_000", "+4",
                                    "nan", "inf", "RED", "NORTH", "0", "a/b", "f.txt"]))
    return {"op": "engine.run", "case": {"table": table, "argv": toks, "strict": rng.random() < 0.5}}


def gen(rng, tier):
    n = 520 if tier == "quick" else 14000
    for _ in range(n):
        yield {"op": "fields.parse", "case": gen_fields_case(rng)}
    k = 120 if tier == "quick" else 3000
    for _ in range(k):
        c = gen_nested_case(rng)
        if c is not None:
            yield c
    m = 600 if tier == "quick" else 16000
    for _ in range(m):
        yield gen_engine_case(rng)


# -----------------------------------------------------------------------------------------------
# running the real code

def enums_of(fields):
    out = {}

    def walk(t):
        if t["k"] == "enum":
            out[t["cls"]] = (t["members"], t.get("values"))
        for key in ("inner", "item"):
            if key in t:
                walk(t[key])
        for key in ("items", "alts"):
            for x in t.get(key, []):
                walk(x)

    for f in fields:
        walk(f["ty"])
    return out


def build(fields, name="C", universe=None, postponed=False):
    u = universe or Universe(postponed=postponed)
    for cls, (members, values) in enums_of(fields).items():
        u.enum(cls, members, values)
    return u, u.add_class(name, {"name": name, "fields": [dict(f) for f in fields]})


def inst_fields(inst):
    return [[f.name, sp.cv(getattr(inst, f.name))] for f in dataclasses.fields(inst)]


def _outcome(r, attr="config"):
    if r["o"] == "ok":
        return {"o": "ok", "fields": inst_fields(getattr(r["value"], attr))}
    return {k: v for k, v in r.items() if k != "value"}


def run_parse(c, argv, postponed=False, then=None):
    import simple_parsing

    u, cls = build(c["fields"], postponed=postponed)
    sp.reset_globals()
    if c["api"] == "parse":
        r = sp.run_outcome(lambda: simple_parsing.parse(cls, args=argv, dest="config"))
        inst = r.get("value")
    else:
        parser = sp.make_parser(c["cfg"])
        parser.add_arguments(cls, dest="config")
        sp.decoy(c["cfg"])   # a parser constructed later with other settings must not change this one's options
        r = sp.run_outcome(lambda: parser.parse_args(argv))
        inst = getattr(r["value"], "config") if r["o"] == "ok" else None
        # a program that catches SystemExit and asks again: the SAME parser must take the same decision on the same
        # command line (a rejection must not leave conversion state behind that lets the next ill-typed argv through)
        r2 = sp.run_outcome(lambda: parser.parse_args(argv))
        first = {"o": "ok", "fields": inst_fields(inst)} if r["o"] == "ok" else {k: v for k, v in r.items() if k != "value"}
        second = {"o": "ok", "fields": inst_fields(getattr(r2["value"], "config"))} if r2["o"] == "ok" else \
            {k: v for k, v in r2.items() if k != "value"}
        if not postponed and (first["o"], first.get("code"), first.get("fields")) != (second["o"], second.get("code"), second.get("fields")):
            first["again"] = second
        if then is not None:
            # ... and the valid command line this one was derived from, asked next on the same parser
            first["then"] = _outcome(sp.run_outcome(lambda: parser.parse_args(then)))
        return first
    if r["o"] == "ok":
        return {"o": "ok", "fields": inst_fields(inst)}
    return {k: v for k, v in r.items() if k != "value"}


def run_nested(c):
    import simple_parsing
    from simple_parsing import subgroups

    u = Universe()
    _, inner = build(c["inner"], "Inner", u)
    _, ka = build(c["alts"]["ka"], "AltA", u)
    _, kb = build(c["alts"]["kb"], "AltB", u)
    flds = []
    for cls, (members, values) in enums_of(c["outer"]).items():
        u.enum(cls, members, values)
    for f in c["outer"]:
        d = f["default"]
        fld = dataclasses.field() if d["kind"] == "missing" else (
            dataclasses.field(default_factory=(lambda v: (lambda: list(v)))(u.val(d["v"]))) if isinstance(u.val(d["v"]), list)
            else dataclasses.field(default=u.val(d["v"])))
        flds.append((f["name"], u.ty(f["ty"]), fld))
    inner_required = any(f["default"]["kind"] == "missing" for f in c["inner"])
    sub = subgroups({"ka": ka, "kb": kb}) if c["sub_default"] is None else subgroups({"ka": ka, "kb": kb}, default=c["sub_default"])
    tail = [("inner", inner, dataclasses.field() if inner_required else dataclasses.field(default_factory=inner)),
            ("model", Union[ka, kb], sub)]
    # fields without a default first
    allf = flds + tail
    allf.sort(key=lambda x: not (x[2].default is dataclasses.MISSING and x[2].default_factory is dataclasses.MISSING))
    outer = dataclasses.make_dataclass("Outer", allf)
    sp.reset_globals()
    parser = sp.make_parser({"dash": "UNDERSCORE"})
    parser.add_arguments(outer, dest="config")
    r = sp.run_outcome(lambda: parser.parse_args(c["argv"]))
    if r["o"] == "ok":
        inst = r["value"].config
        return {"o": "ok", "outer": [[f["name"], sp.cv(getattr(inst, f["name"]))] for f in c["outer"]],
                "inner_cls": type(inst.inner).__name__, "inner": inst_fields(inst.inner) if dataclasses.is_dataclass(inst.inner) else None,
                "model_cls": type(inst.model).__name__, "model": inst_fields(inst.model) if dataclasses.is_dataclass(inst.model) else None}
    return {k: v for k, v in r.items() if k != "value"}


CONV = {"int": int, "float": float, "str": str, "path": pathlib.Path}


def engine_type(conv, made):
    """the REAL type= callable simple-parsing would hand to argparse for this converter"""
    from simple_parsing.utils import str2bool
    from simple_parsing.wrappers import field_parsing as FP

    k = conv["k"]
    if k in CONV:
        return CONV[k]
    if k == "bool":
        return str2bool
    py = {"int": int, "float": float, "str": str, "bool": bool}
    if k == "enum":
        e = _enum.Enum(conv["cls"], {m: i for i, m in enumerate(conv["members"])})
        made.append(e)
        return FP.parse_enum(e)
    if k == "union":
        return FP.get_parsing_fn(Union[tuple(py[a["k"]] for a in conv["alts"])])
    if k == "tuple":
        return FP.parse_tuple(tuple(py[a["k"]] for a in conv["alts"]))
    raise ValueError(k)


def run_engine(c):
    from simple_parsing.helpers.custom_actions import BooleanOptionalAction
    from simple_parsing.wrappers import field_parsing as FP

    p = argparse.ArgumentParser(prog="p", add_help=True)
    made = []
    negs_ok = True
    for a in c["table"]:
        if a["kind"] == "help":
            continue
        d = a["default"]
        dv = None if d["t"] == "none" else ({"int": int, "float": float}.get(d["t"], lambda x: x)(d["v"]))
        if a["kind"] == "bool":
            act = p.add_argument(*a["pos"], dest=a["dest"], action=BooleanOptionalAction, required=a["required"], default=dv)
            negs_ok = negs_ok and list(act.negative_option_strings) == a["negs"] and list(act.option_strings) == a["opts"]
            continue
        kw = {"dest": a["dest"], "nargs": a["nargs"], "type": engine_type(a["conv"], made), "required": a["required"], "default": dv}
        if a["choices"] is not None:
            kw["choices"] = a["choices"]
        p.add_argument(*a["opts"], **kw)
    fn = (lambda: p.parse_args(c["argv"])) if c["strict"] else (lambda: p.parse_known_args(c["argv"]))
    try:
        r = sp.run_outcome(fn)
    finally:
        for e in made:
            FP._parsing_fns.pop(e, None)
    if r["o"] == "ok":
        v = r["value"]
        ns, extras = (v, []) if c["strict"] else v
        return {"o": "ok", "ns": sorted([[k, sp.cv(x)] for k, x in vars(ns).items()]), "extras": list(extras), "negs_ok": negs_ok}
    return dict({k: v for k, v in r.items() if k != "value"}, negs_ok=negs_ok)


def impl(case):
    c = case["case"]
    if case["op"] == "engine.run":
        return run_engine(c)
    if case["op"] == "nested.parse":
        return run_nested(c)
    r = run_parse(c, c["argv"], then=c.get("valid_argv") if c.get("api") == "parser" else None)
    if "then" in r:
        fresh = run_parse(c, c["valid_argv"])
        key = lambda o: (o["o"], o.get("code"), o.get("fields"))
        if key(fresh) == key(r["then"]):
            del r["then"]
        else:
            r["then"] = {"same_parser": r["then"], "fresh_parser": {k: v for k, v in fresh.items() if k != "again"}}
    # the same dataclass declared as in a module with `from __future__ import annotations` (string annotations, builtin
    # generics, `X | None`): the same types, so the same acceptance decision and the same values
    t = run_parse(c, c["argv"], postponed=True)
    same = (t == {k: v for k, v in r.items() if k not in ("again", "then")}) if r["o"] == "ok" else (t["o"] == r["o"] and t.get("code") == r.get("code") and t.get("exc") == r.get("exc"))
    r["postponed"] = "same" if same else t
    return r


def model_case(case, obs):
    c = case["case"]
    toks = list(c["argv"])
    for a in c["argv"]:
        if "=" in a:
            toks.append(a.split("=", 1)[1])
    if case["op"] == "engine.run":
        for a in c["argv"]:
            toks.append(a[2:])
        for a in c["table"]:
            if a["default"] and a["default"]["t"] == "str":
                toks.append(a["default"]["v"])
        return dict(c, floats=G.floats_table(toks))
    for f in c["fields"]:
        d = f["default"]
        if d["kind"] != "missing" and d["v"]["t"] == "str":
            toks.append(d["v"]["v"])
    return {"cfg": c["cfg"], "dest": "config", "fields": c["fields"], "argv": c["argv"], "floats": G.floats_table(toks)}


def project(case, obs):
    if obs["o"] == "ok":
        if case["op"] == "engine.run":
            return {"o": "ok", "ns": obs["ns"], "extras": obs["extras"]}
        return {"o": "ok", "fields": obs["fields"]}
    if obs["o"] == "exit":
        return {"o": "exit", "code": obs["code"]}
    return {"o": "raise", "exc": obs["exc"]}


def project_model(case, mo):
    if mo.get("o") == "exit":
        return {"o": "exit", "code": mo["code"]}
    if case["op"] == "engine.run" and mo.get("o") == "ok":
        return {"o": "ok", "ns": sorted(mo["ns"]), "extras": mo["extras"]}
    return mo


def model_unmodelled(mo):
    return mo.get("o") == "unmodelled"


# -----------------------------------------------------------------------------------------------
# the property itself

def status_clauses(argv, obs, help_strings=("-h", "--help")):
    """clauses on a rejection: status 2 (0 only for an explicit help request), message on stderr, never a traceback"""
    fails = []
    help_requested = any(a in help_strings or (a.startswith("--h") and "--help".startswith(a.split("=", 1)[0])) for a in argv)
    if obs["o"] == "raise":
        fails.append({"clause": "no-traceback", "exc": obs.get("exc"),
                      "detail": f"argv {argv} escaped as {obs.get('exc')}: {obs.get('msg')}"})
    elif obs["o"] == "exit":
        if obs["code"] == 0 and not help_requested:
            fails.append({"clause": "status", "detail": f"argv {argv} exited with status 0 without --help"})
        elif obs["code"] not in (0, 2):
            fails.append({"clause": "status", "detail": f"argv {argv} exited with status {obs['code']}"})
        elif obs["code"] == 2 and not obs.get("stderr_nonempty"):
            fails.append({"clause": "stderr", "detail": "rejected without a message on stderr"})
    return fails


def conformance(fields, got, argv):
    fails = []
    for f in fields:
        v = got[f["name"]]
        if f["default"]["kind"] != "missing" and v == f["default"]["v"]:
            continue  # the field's own (possibly deliberately odd) default
        if not G.value_type_ok(v, f["ty"]):
            fails.append({"clause": "well-typed", "field": f["name"],
                          "detail": f"{f['name']}: {v} does not conform to {f['ty']} (argv {argv})"})
    return fails


def oracle(case, obs):
    c = case["case"]
    if case["op"] == "engine.run":
        fails = []
        if not obs.get("negs_ok", True):
            fails.append({"clause": "engine-negs", "detail": "BooleanOptionalAction built other negative option strings than --no<name>"})
        # the status clause of the property holds for argparse with simple-parsing's callables on ANY table
        if obs["o"] == "raise":
            fails.append({"clause": "no-traceback", "exc": obs.get("exc"), "detail": f"engine argv {c['argv']} escaped as {obs.get('exc')}: {obs.get('msg')}"})
        if obs["o"] == "exit" and obs["code"] not in (0, 2):
            fails.append({"clause": "status", "detail": f"engine argv {c['argv']} exited with status {obs['code']}"})
        return fails
    mut = c["mutation"]
    fails = status_clauses(c["argv"], obs)
    if "then" in obs:
        fails.append({"clause": "valid-after-this-one",
                      "detail": f"after argv {c['argv']} the same parser answers the valid argv {c.get('valid_argv')} with "
                                f"{obs['then']['same_parser']}, a fresh parser with {obs['then']['fresh_parser']}"})
    if "again" in obs:
        fails.append({"clause": "same-decision-again",
                      "detail": f"argv {c['argv']}: the second parse_args on the same parser gives {obs['again']}, the first gave "
                                f"{({k: v for k, v in obs.items() if k not in ('again', 'postponed', 'then')})}"})
    if obs.get("postponed", "same") != "same":
        fails.append({"clause": "postponed-annotations",
                      "detail": f"argv {c['argv']}: declared with string annotations the dataclass gives {obs['postponed']}, "
                                f"declared with evaluated annotations {({k: v for k, v in obs.items() if k not in ('postponed', 'again', 'then')})}"})
    if obs["o"] != "ok":
        # (a rejected CONTROL is not a C04 failure — accepting valid command lines is C02's claim; it is reported as the
        #  distribution tag `ctl:rejected`, which must stay at 0 for the mutation stream to mean anything)
        return fails
    # accepted
    if mut not in ("control", "random"):
        fails.append({"clause": "rejects:" + mut, "mutation": mut,
                      "detail": f"mutation {c.get('sub', mut)}: argv {c['argv']} was accepted: {obs}"})
    if case["op"] == "nested.parse":
        fails += conformance(c["outer"], dict(obs["outer"]), c["argv"])
        if obs["inner_cls"] != "Inner":
            fails.append({"clause": "well-typed", "field": "inner", "detail": f"inner is a {obs['inner_cls']}"})
        else:
            fails += conformance(c["inner"], dict(obs["inner"]), c["argv"])
        want = {"ka": "AltA", "kb": "AltB"}
        if obs["model_cls"] not in want.values():
            fails.append({"clause": "well-typed", "field": "model", "detail": f"model is a {obs['model_cls']} (argv {c['argv']})"})
        else:
            key = "ka" if obs["model_cls"] == "AltA" else "kb"
            fails += conformance(c["alts"][key], dict(obs["model"]), c["argv"])
        return fails
    fails += conformance(c["fields"], dict((k, v) for k, v in obs["fields"]), c["argv"])
    return fails


def nontrivial(case, obs):
    c = case["case"]
    if case["op"] == "engine.run":
        return len(c["table"]) >= 3 and len(c["argv"]) >= 3
    return c["mutation"] not in ("control",)


def tags(case, obs):
    c = case["case"]
    out = "out:" + (obs["o"] if obs["o"] != "exit" else f"exit{obs['code']}")
    if case["op"] == "engine.run":
        t = ["op:engine", out, f"toks:{len(c['argv'])}"]
        if obs["o"] == "exit":
            t.append("ekind:" + obs.get("kind", "?"))
        for a in c["table"][1:]:
            t.append("act:" + (a["kind"] if a["kind"] == "bool" else a["conv"]["k"]))
        return sorted(set(t))
    if case["op"] == "nested.parse":
        t = ["op:nested", "mut:" + c["mutation"], out]
        if c["mutation"] == "control":
            t.append("ctl:accepted" if obs["o"] == "ok" else "ctl:rejected")
        if obs["o"] == "exit":
            t.append(f"nkind:{c['mutation']}->{obs.get('kind', '?')}")
        return t
    t = ["op:e2e", "mut:" + c["mutation"], "sub:" + c.get("sub", "?"), out, "form:" + c.get("form", "none"), "api:" + c["api"],
         "cfg:" + ("default" if c["cfg"] == CFG0 else f"{c['cfg']['dash']}/{c['cfg']['gen']}/{c['cfg']['nest']}")]
    if obs["o"] == "exit" and c["mutation"] not in ("control", "random"):
        t.append(f"kind:{c['mutation']}->{obs.get('kind', '?')}")
    if c["mutation"] == "control":
        t.append("ctl:accepted" if obs["o"] == "ok" else "ctl:rejected")
    tgt = c.get("target")
    for f in c["fields"]:
        if f["name"] == tgt:
            t.append("ty:" + ty_tag(f["ty"]))
            if ty_tag(f["ty"]).endswith("tuple-hetero"):
                t.append("hetero")
            if f.get("decl") == "flag":
                t.append(f"flag():{c['mutation']}")
    if any(f.get("decl") == "flag" for f in c["fields"]):
        t.append("decl:flag()")
    return t


def shrink(case):
    if case["op"] != "fields.parse":
        return
    c = case["case"]
    for i in range(len(c["argv"])):
        yield {"op": case["op"], "case": dict(c, argv=c["argv"][:i] + c["argv"][i + 1:], mutation="random", sub="random", form="none")}


def _ill_typed_str_default(case):
    """a flat dataclass with an Enum / Literal field whose declared default is a string that names no member / value"""
    if case.get("op") != "fields.parse":
        return False
    for f in case["case"]["fields"]:
        d, t = f["default"], f["ty"]
        if d["kind"] == "value" and d["v"].get("t") == "str":
            if t["k"] == "enum" and d["v"]["v"] not in t["members"]:
                return True
            if t["k"] == "literal" and d["v"]["v"] not in [G.token(v) for v in t["vals"]]:
                return True
    return False


# NOT a finding: `color: Color = "PURPLE"` (string default naming no member) raises KeyError on the empty command line; the
# dataclass itself is ill-typed, i.e. outside the property's quantifier. `_ill_typed_str_default` is kept for the generator
# (it never produces such defaults).
FINDINGS = {}
