"""C04 — invalid command lines are rejected with a non-zero exit; results are well-typed."""
from __future__ import annotations

import argparse
import copy

from harness.core import gen_types as G
from harness.core import sp
from harness.props import c02

PID = "C04"
RULE = ("(a) end-to-end: a flat dataclass over the CLI type grammar with a valid canonical argv, then exactly one mutation "
        "from {ill-typed token, tuple arity +1/-1, out-of-set Enum/Literal value, removed required option, unknown option "
        "that abbreviates nothing, value on a negative boolean flag}, plus the unmutated control and a random token stream; "
        "the real parse must exit with status 2 and a message on stderr for every mutation, and every accepted result must "
        "conform leaf by leaf to its annotation. (b) the argparse-engine model against stdlib argparse itself on "
        "independently generated action tables and argv (abbreviations, `--`, `opt=value`, negative numbers, repeated "
        "options). Non-trivial = a mutated case, or an engine case with >= 2 actions and >= 3 tokens; distinct by canonical JSON.")
ASSUMPTIONS = ["argparse's error path = SystemExit(2) after printing usage + message to stderr (observed in-process)"]
TRUSTED = ["stdlib argparse (modelled fragment compared directly against it on every run)"]
EXHAUSTIVE = {"quick": False, "thorough": False}
THOROUGH_ROUNDS = 3   # thorough tier: this many generator passes with derived PRNG states (vcheck)
MANIFEST = {
    "text": ("Proof: over the Lean model of the argparse engine and of get_arg_options/postprocess — every exit "
             "status the engine produces other than for an explicit help request is 2 (no status 0, no other code) for "
             "EVERY argv; a missing required option, an unknown long option, a token that fails its type= conversion, a "
             "value outside choices and a wrong arity for a fixed-length tuple are each rejected with status 2 wherever "
             "they occur; the namespace only ever holds converted values (type soundness of stored items for every argv). "
             "No converter of the model can raise (never a traceback) for every well-formed table and every argv — full since the repair "
             "b1a5942 of the parse_tuple call counter (a heterogeneous-tuple option given twice raised IndexError; kept as a "
             "regression example, and the counter is proved to wrap: item k mod n); the only raising table is the ill-formed "
             "closure over no item type (witness theorem), which simple-parsing never builds: every table built for a flat "
             "dataclass is proved well-formed (tableOf_noRaiseTbl), so c04_no_traceback_flat is unconditional; and the closure "
             "counters stay multiples of the arity across any accepted command line (c04_counters_aligned: induction over the "
             "consume loop), which is what makes the next parse on the same parser start every tuple at its first item type. "
             "The model is tied to the code by the end-to-end op fields.parse and, independently of simple-parsing, by "
             "engine.run against stdlib argparse; the property's clauses are evaluated on every real parse."),
    "note": ("Trusted: Lean kernel + standard axioms; harness. Modelled not verified: argparse 3.12.1 optional-argument "
             "fragment, field_wrapper.py:231-533,797-821, field_parsing.py:70-298, custom_actions.py:144-172. Outside the "
             "model (counted as unmodelled, never compared): single-dash clusters (-x5), non-ASCII digits, positionals."),
    "technique": "Lean 4 case analysis over the engine's exits + type-soundness invariant; differential check vs argparse",
    "design_ref": "DESIGN.md section 5, C04",
}

GARBAGE = {
    "int": ["abc", "1.5", "1e3", "0x10", "", "1 2", "12x", "١٢x"],
    "float": ["abc", "1,5", "", "1.2.3", "0x1p3q"],
    "bool": ["maybe", "2", "tru", "yess"],
}


def first_base(t):
    k = t["k"]
    if k == "opt":
        return first_base(t["inner"])
    return t


def mutate(rng, c):
    """returns (kind, new argv) or None; c is a C02-style case dict"""
    fields = c["fields"]
    asg = c["asg"]
    kinds = []
    for f in fields:
        nm, t = f["name"], f["ty"]
        inner = t["inner"] if t["k"] == "opt" else t
        k = inner["k"]
        if nm in asg and asg[nm]["t"] != "none":
            if k in ("int", "float", "bool"):
                kinds.append(("illtyped", f))
            if k in ("list", "vtuple") and inner["item"]["k"] in ("int", "float", "bool") and asg[nm]["v"]:
                kinds.append(("illtyped-item", f))
            if k == "tuple" and any(it["k"] in ("int", "float", "bool") for it in inner["items"]):
                kinds.append(("illtyped-item", f))
            if k == "tuple":
                kinds.append(("arity+", f))
                kinds.append(("arity-", f))
            if k in ("enum", "literal"):
                kinds.append(("choice", f))
            if k in ("list", "vtuple") and inner["item"]["k"] == "enum" and asg[nm]["v"]:
                kinds.append(("choice-item", f))
        if f["default"]["kind"] == "missing" and t["k"] != "opt" and nm in asg:
            kinds.append(("required", f))
        if k == "bool" and t["k"] != "opt" and not (f["default"]["kind"] == "value" and f["default"]["v"]["t"] == "none"):
            kinds.append(("negflag", f))
    kinds.append(("unknown", None))
    kind, f = rng.choice(kinds)
    asg2 = copy.deepcopy(asg)
    order = list(c["order"])
    eq = list(c["eq"])
    extra = []
    if kind == "unknown":
        names = {x["name"] for x in fields}
        cand = [u for u in ["--zzz", "--unknown_opt", "--qq.x", "-Z", "--nx"] if not any(("--" + n).startswith(u) or ("-" + n) == u for n in names)]
        u = rng.choice(cand)
        extra = [u] + rng.choice([[], ["1"], ["x"]])
        argv = c02.render(fields, asg2, order, eq)
        pos = rng.randrange(len(argv) + 1) if rng.random() < 0.3 else len(argv)
        return kind, argv[:pos] + extra + argv[pos:]
    nm = f["name"]
    inner = f["ty"]["inner"] if f["ty"]["k"] == "opt" else f["ty"]
    if kind == "required":
        del asg2[nm]
        order = [o for o in order if o != nm]
        eq = eq[: len(order)]
        return kind, c02.render(fields, asg2, order, eq)
    argv_segments = {}
    for o, e in zip(order, eq):
        argv_segments[o] = c02.render(fields, {o: asg2[o]}, [o], [e])
    seg = argv_segments.get(nm, [])
    opt = ("-" if len(nm) == 1 else "--") + nm
    if kind == "illtyped":
        bad = rng.choice(GARBAGE[inner["k"]])
        seg = [opt, bad] if rng.random() < 0.5 else [f"{opt}={bad}"]
    elif kind == "illtyped-item":
        toks = G.tokens(asg2[nm])
        if inner["k"] == "tuple":
            idxs = [i for i, it in enumerate(inner["items"]) if it["k"] in ("int", "float", "bool")]
            i = rng.choice(idxs)
            toks[i] = rng.choice(GARBAGE[inner["items"][i]["k"]])
        else:
            i = rng.randrange(len(toks))
            toks[i] = rng.choice(GARBAGE[inner["item"]["k"]])
        if any(t == "" for t in toks) and False:
            pass
        seg = [opt] + toks
    elif kind == "arity+":
        toks = G.tokens(asg2[nm])
        seg = [opt] + toks + [toks[-1] if toks else "1"]
    elif kind == "arity-":
        toks = G.tokens(asg2[nm])
        seg = [opt] + toks[:-1]
    elif kind == "choice":
        if inner["k"] == "enum":
            bad = rng.choice(["NOPE", inner["members"][0].swapcase(), inner["members"][0] + "x", "0x"])
        else:
            bad = rng.choice(["nope", "99", "TRUE", "a b"])
        if bad in [G.token(v) for v in inner.get("vals", [])] or bad in inner.get("members", []):
            bad = "definitely-not"[9:]
        seg = [opt, bad]
    elif kind == "choice-item":
        toks = G.tokens(asg2[nm])
        toks[rng.randrange(len(toks))] = "NOPE"
        seg = [opt] + toks
    elif kind == "negflag":
        seg = [rng.choice([f"--no{nm}=true", f"--no{nm}=0"])] if rng.random() < 0.5 else [f"--no{nm}", rng.choice(["true", "False", "1"])]
    argv = []
    for o in order:
        argv += seg if o == nm else argv_segments[o]
    if nm not in order:
        argv += seg
    return kind, argv


def gen_engine_case(rng):
    n = rng.choice([1, 2, 2, 3, 4, 5])
    names = rng.sample(["a", "ab", "abc", "a_b", "a-b", "x", "xy", "x.y", "lr", "lrate", "n", "5"], n)
    table = [{"opts": ["-h", "--help"], "dest": "help", "kind": "help", "nargs": 0, "conv": {"k": "str"}, "choices": None,
              "required": False, "default": None}]
    used_short = set()
    for nm in names:
        opts = [("-" if len(nm) == 1 else "--") + nm]
        short = "-" + nm[0].upper()
        if rng.random() < 0.2 and len(nm) > 1 and short not in used_short:
            used_short.add(short)
            opts.append(short)
        conv = rng.choice(["int", "float", "str", "str", "bool"])
        nargs = rng.choice([None, None, "?", "*", "+", 1, 2, 3])
        choices = None
        if conv == "str" and rng.random() < 0.3:
            choices = rng.sample(["a", "b", "c", "1", ""], 3)
        r = rng.random()
        if r < 0.15:
            default, required = {"t": "none"}, True
        elif r < 0.45:
            default, required = {"t": "none"}, False
        elif r < 0.7:
            default, required = {"t": "str", "v": rng.choice(["1", "x", "2.5", "true", ""])}, False
        else:
            default = {"int": {"t": "int", "v": "3"}, "float": {"t": "float", "v": "0.5"}, "str": {"t": "str", "v": "dflt"},
                       "bool": {"t": "bool", "v": True}}[conv]
            required = False
        table.append({"opts": opts, "dest": "d_" + nm.replace("-", "D").replace(".", "P"), "kind": "store", "nargs": nargs,
                      "conv": {"k": conv}, "choices": choices, "required": required, "default": default})
    all_opts = [o for a in table for o in a["opts"]]
    toks = []
    for _ in range(rng.choice([0, 1, 2, 3, 4, 5, 6, 8])):
        r = rng.random()
        if r < 0.35:
            toks.append(rng.choice(all_opts))
        elif r < 0.45:
            o = rng.choice(all_opts)
            toks.append(o[: rng.randrange(2, len(o) + 1)] if len(o) > 2 else o)
        elif r < 0.55:
            toks.append(rng.choice(all_opts) + "=" + rng.choice(["1", "", "x", "-2", "a=b", "true"]))
        elif r < 0.6:
            toks.append(rng.choice(["--", "-", "", "--zz", "-q", "--a b", "-5", "-.5", "-1.5", "-x5", "--=", "=x"]))
        else:
            toks.append(rng.choice(["1", "2", "-3", "0.5", "x", "a", "b", "c", "true", "no", "1e3", "abc", " 7 ", "1_000", "+4", "nan", "inf"]))
    return {"op": "engine.run", "case": {"table": table, "argv": toks, "strict": rng.random() < 0.5}}


def gen(rng, tier):
    n = 450 if tier == "quick" else 25000
    for i in range(n):
        fields = c02.gen_fields(rng)
        base = c02.make_case(rng, fields, api=rng.choice(["parse", "parser"]))["case"]
        r = rng.random()
        if r < 0.15:
            c = dict(base, mutation="control")
        elif r < 0.27:
            # random token stream
            opts = [("-" if len(f["name"]) == 1 else "--") + f["name"] for f in fields]
            toks = []
            for _ in range(rng.choice([1, 2, 3, 4, 6])):
                q = rng.random()
                if q < 0.45:
                    toks.append(rng.choice(opts))
                elif q < 0.55:
                    toks.append(rng.choice(opts) + "=" + rng.choice(["1", "x", "", "RED", "true"]))
                else:
                    toks.append(rng.choice(["1", "2", "x", "RED", "fast", "true", "0.5", "a/b", "-3", "abc", "", "UP", "zero", "0"]))
            c = dict(base, mutation="random", argv=toks)
        else:
            m = mutate(rng, base)
            c = dict(base, mutation=m[0], argv=m[1])
        yield {"op": "fields.parse", "case": c}
    m = 600 if tier == "quick" else 30000
    for _ in range(m):
        yield gen_engine_case(rng)


# -----------------------------------------------------------------------------------------------

CONV = {"int": int, "float": float, "str": str}


def run_engine(c):
    from simple_parsing.utils import str2bool

    p = argparse.ArgumentParser(prog="p", add_help=True)
    for a in c["table"]:
        if a["kind"] == "help":
            continue
        kw = {"dest": a["dest"], "nargs": a["nargs"], "type": CONV.get(a["conv"]["k"], str2bool), "required": a["required"]}
        if a["choices"] is not None:
            kw["choices"] = a["choices"]
        d = a["default"]
        kw["default"] = None if d["t"] == "none" else ({"int": int, "float": float}.get(d["t"], lambda x: x)(d["v"]))
        p.add_argument(*a["opts"], **kw)
    fn = (lambda: p.parse_args(c["argv"])) if c["strict"] else (lambda: p.parse_known_args(c["argv"]))
    r = sp.run_outcome(fn)
    if r["o"] == "ok":
        v = r["value"]
        ns, extras = (v, []) if c["strict"] else v
        return {"o": "ok", "ns": sorted([[k, sp.cv(x)] for k, x in vars(ns).items()]), "extras": list(extras)}
    return {k: v for k, v in r.items() if k != "value"}


def impl(case):
    c = case["case"]
    if case["op"] == "engine.run":
        return run_engine(c)
    return c02.run_parse(c, c["argv"])


def model_case(case, obs):
    c = case["case"]
    if case["op"] == "engine.run":
        toks = list(c["argv"])
        for a in c["argv"]:
            if "=" in a:
                toks.append(a.split("=", 1)[1])
            toks.append(a[2:])
        for a in c["table"]:
            if a["default"] and a["default"]["t"] == "str":
                toks.append(a["default"]["v"])
        return dict(c, floats=G.floats_table(toks))
    return c02.model_case(case, obs)


def project(case, obs):
    if case["op"] == "engine.run":
        if obs["o"] == "ok":
            return {"o": "ok", "ns": obs["ns"], "extras": obs["extras"]}
        if obs["o"] == "exit":
            return {"o": "exit", "code": obs["code"]}
        return {"o": "raise", "exc": obs["exc"]}
    return c02.project(case, obs)


def project_model(case, mo):
    if case["op"] == "engine.run":
        if mo.get("o") == "ok":
            return {"o": "ok", "ns": sorted(mo["ns"]), "extras": mo["extras"]}
        if mo.get("o") == "exit":
            return {"o": "exit", "code": mo["code"]}
        return mo
    return c02.project_model(case, mo)


def model_unmodelled(mo):
    return mo.get("o") == "unmodelled"


def oracle(case, obs):
    c = case["case"]
    fails = []
    if case["op"] == "engine.run":
        return fails
    mut = c["mutation"]
    help_requested = any(a in ("-h", "--help") for a in c["argv"])
    if obs["o"] == "raise":
        fails.append({"clause": "no-traceback", "exc": obs.get("exc"),
                      "detail": f"argv {c['argv']} escaped as {obs.get('exc')}: {obs.get('msg')}"})
        return fails
    if obs["o"] == "exit":
        if obs["code"] == 0 and not help_requested:
            fails.append({"clause": "status", "detail": f"argv {c['argv']} exited with status 0 without --help"})
        elif obs["code"] not in (0, 2):
            fails.append({"clause": "status", "detail": f"argv {c['argv']} exited with status {obs['code']}"})
        elif obs["code"] == 2 and not obs.get("stderr_nonempty"):
            fails.append({"clause": "stderr", "detail": "rejected without a message on stderr"})
        if mut == "control":
            fails.append({"clause": "control", "detail": f"valid argv {c['argv']} was rejected: {obs}"})
        return fails
    # accepted
    if mut not in ("control", "random"):
        fails.append({"clause": "rejects:" + mut, "mutation": mut,
                      "detail": f"mutation {mut}: argv {c['argv']} was accepted: {obs['fields']}"})
    got = dict((k, v) for k, v in obs["fields"])
    for f in c["fields"]:
        v = got[f["name"]]
        if f["default"]["kind"] != "missing" and v == f["default"]["v"]:
            continue  # the field's own (possibly deliberately odd) default
        if v["t"] == "none" and f["default"]["kind"] == "missing":
            continue
        if not G.value_type_ok(v, f["ty"]):
            fails.append({"clause": "well-typed", "field": f["name"],
                          "detail": f"{f['name']}: {v} does not conform to {f['ty']} (argv {c['argv']})"})
    return fails


def nontrivial(case, obs):
    c = case["case"]
    if case["op"] == "engine.run":
        return len(c["table"]) >= 3 and len(c["argv"]) >= 3
    return c["mutation"] not in ("control",)


def tags(case, obs):
    c = case["case"]
    if case["op"] == "engine.run":
        return ["op:engine", "out:" + (obs["o"] if obs["o"] != "exit" else f"exit{obs['code']}"), f"toks:{len(c['argv'])}"]
    return ["op:e2e", "mut:" + c["mutation"], "out:" + (obs["o"] if obs["o"] != "exit" else f"exit{obs['code']}")]


def shrink(case):
    if case["op"] != "fields.parse":
        return
    c = case["case"]
    for i in range(len(c["argv"])):
        yield {"op": case["op"], "case": dict(c, argv=c["argv"][:i] + c["argv"][i + 1:], mutation=c["mutation"] if c["mutation"] in ("random",) else "random")}


FINDINGS = {}
