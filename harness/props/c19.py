"""C19 — a field's help text comes from its own documentation, by fixed precedence.

Source-level cases: every case is a *real Python module* rendered from a layout description, written into a
fresh directory under ${TMPDIR:-/tmp}/spverif.<pid>/ (unique file name per case: `inspect.getsource` caches through
`linecache` by file name), imported with importlib, observed, and removed again before `impl` returns.
"""
from __future__ import annotations

import dataclasses
import hashlib
import importlib.util
import inspect
import io
import itertools
import json
import os
import re
import sys

from harness.core import sp

PID = "C19"
RULE = ("cases are dataclass modules rendered from the layout grammar: per class a decorator (with/without arguments), "
        "optional class docstring ('Args:' section, either triple-quote style), then per field a block [comment lines]"
        "[blank lines] definition [inline comment][blank lines][docstring below, one-line or multi-line, either quote "
        "style][blank lines], with an optional explicit help= (simple_parsing.field(help=) or metadata=dict(help=)); every "
        "text carries a distinct marker 'mkNNNq …'. Streams: exhaustive subsets of the five documentation positions for one "
        "field and for two prefix-related fields (a, ab), random multi-field classes with permuted prefix-related names "
        "(int/str/float/bool/Optional, leading required fields), texts with everyday punctuation (':', quotes, '=', '#', "
        "`name: type` words) in inline comments / comments above / one-line docstrings, trailing comments on the class / "
        "decorator line, a trailing method, inheritance chains of length 2-3 that override / re-declare fields or document "
        "an inherited field only in the subclass docstring, field-less classes (docstring-only / `pass` body) as leaf and middle link that document inherited fields, a make_dataclass base without source, default values that are "
        "string literals containing '#', synthetic definition lines for the inline-comment extraction. Histories: the "
        "classes of a chain (plus an unrelated class declaring the same field names) are looked up in ONE process in "
        "several orders through get_attribute_docstring and through the parser's help; every answer must be the documented "
        "one. Five small streams reproduce the open findings. Non-trivial = at least two fields, or an inheritance chain, "
        "with at least one documentation position filled; distinct by canonical JSON.")
ASSUMPTIONS = [
    "CPython 3.12: `cls.__doc__` is the raw docstring (3.13+ dedents it, so there an indented class docstring is never "
    "found in the source — the situation of finding C19-classdoc-escape for every class)",
    "inspect.getsource returns the class's source lines (decorator line to last statement) — observed, passed to the model",
    "docstring_parser's parameter list for the class docstring — observed, passed to the model",
    "str.strip/isidentifier/splitlines are modelled on ASCII; generated sources are printable ASCII with \\n line ends, "
    "4-space indentation, top-level classes",
]
TRUSTED = ["CPython inspect.getsource / linecache / importlib", "docstring_parser"]
EXHAUSTIVE = {"quick": False, "thorough": False}
THOROUGH_ROUNDS = 3   # thorough tier: this many generator passes with derived PRNG states (vcheck)

KINDS = ["below", "above", "inline", "cls"]           # precedence order after the explicit help=
POSITIONS = ["help", "below", "above", "inline", "cls"]
NAMES = ["a", "ab", "abc", "a_b", "a1", "b", "ba", "val", "value", "value_2", "x", "xy", "lr", "lr_decay", "_p", "_pq"]
DECORATORS = ["@dataclass", "@dataclass()", "@dataclass(eq=True)", "@dataclass(eq=True, repr=True)",
              "@dataclass(order=False, unsafe_hash=False)"]
TYPES = [("int", ["0", "1", "7", "-3"]), ("str", ['"s"', "'t'", '"u v"']), ("float", ["1.5", "0.0"]),
         ("bool", ["True", "False"]), ("Optional[int]", ["None", "3"])]
TEMP = "<__TEMP__>"
MARK = re.compile(r"mk\d{3}q")


# ------------------------------------------------------------------------------------------------
# layout descriptions


class Mk:
    def __init__(self):
        self.n = 0

    def __call__(self, kind, field):
        self.n += 1
        return f"mk{self.n:03d}q {kind} {field}"


def mk_block(rng, mk, name, positions, *, rich=True, first=False):
    """positions ⊆ {"help","below","above","inline"} (the "cls" position lives in the class docstring)"""
    ty, defaults = rng.choice(TYPES)
    b = {"name": name, "ann": ty, "default": rng.choice(defaults), "help": None, "above": [], "gap1": 0,
         "inline": None, "gap2": 0, "below": None, "gap3": 0}
    if "help" in positions:
        b["help"] = {"how": rng.choice(["custom", "meta"]), "text": mk("help", name)}
    if "above" in positions:
        n = rng.choice([1, 1, 2, 3]) if rich else 1
        b["above"] = [mk("above", name) for _ in range(n)]
        b["gap1"] = rng.choice([0, 0, 0, 1, 2]) if rich else 0
    if "inline" in positions:
        b["inline"] = mk("inline", name)
    if "below" in positions:
        multi = rich and rng.random() < 0.4
        lines = [mk("below", name) for _ in range(rng.choice([1, 2, 3]) if multi else 1)]
        if multi and rng.random() < 0.3:
            lines = [""] + lines                      # opening quotes alone on their line
        b["below"] = {"q": rng.choice(['"""', "'''"]), "lines": lines, "multi": multi}
        b["gap2"] = rng.choice([0, 0, 0, 1, 2]) if rich else 0
    b["gap3"] = rng.choice([0, 0, 1, 1, 2]) if rich else rng.choice([0, 1])
    return b


def mk_class(rng, mk, name, base, blocks, cls_fields, *, summary=None, decorator=None, hdr_gap=None):
    """cls_fields: names that get an entry in the class docstring"""
    clsdoc = None
    if cls_fields or summary:
        clsdoc = {"q": rng.choice(['"""', "'''"]), "summary": mk("summary", name),
                  "entries": [[f, mk("cls", f)] for f in cls_fields]}
    if blocks:
        blocks[-1]["gap3"] = 0                       # inspect.getsource drops trailing blank lines
    # trailing comments on the class line / the decorator line: nobody's documentation
    hdr_comment = mk("header", name) if rng.random() < 0.2 else None
    dec_comment = mk("decorator", name) if rng.random() < 0.1 else None
    return {"name": name, "base": base, "decorator": decorator or rng.choice(DECORATORS), "clsdoc": clsdoc,
            "hdr_gap": rng.choice([0, 0, 1]) if hdr_gap is None else hdr_gap, "hdr_comment": hdr_comment,
            "dec_comment": dec_comment, "blocks": blocks}


def subsets_case(rng, names, subsets, rich=False):
    mk = Mk()
    blocks = [mk_block(rng, mk, n, s - {"cls"}, rich=rich) for n, s in zip(names, subsets)]
    cls_fields = [n for n, s in zip(names, subsets) if "cls" in s]
    return {"stream": "layout", "classes": [mk_class(rng, mk, "C0", None, blocks, cls_fields,
                                                      summary=rng.random() < 0.3)], "target": "C0"}


def rand_positions(rng):
    p = rng.random()
    if p < 0.12:
        return set()
    if p < 0.2:
        return set(POSITIONS)
    return {k for k in POSITIONS if rng.random() < (0.25 if k == "help" else 0.45)}


def make_required(rng, blocks):
    """the first fields of a root class may be required (no default: no "=" on the line, no temporary help token)"""
    k = rng.choice([0, 0, 1, 2])
    for b in blocks[:k]:
        b["default"] = None
    return blocks


def dynamic_base_case(rng):
    """the root of the chain is built with make_dataclass: inspect.getsource fails for it (docstring.py:115-124)"""
    mk = Mk()
    base = {"name": "C0", "base": None, "dynamic": True, "clsdoc": None, "decorator": "", "hdr_gap": 0, "hdr_comment": None,
            "dec_comment": None, "blocks": [dict(mk_block(rng, mk, n, set()), gap3=0) for n in rng.sample(NAMES, 2)]}
    names = [base["blocks"][0]["name"]] + [n for n in rng.sample(NAMES, 2) if n not in [b["name"] for b in base["blocks"]]]
    subs = [rand_positions(rng) for _ in names]
    blocks = [mk_block(rng, mk, n, s - {"cls"}) for n, s in zip(names, subs)]
    c1 = mk_class(rng, mk, "C1", "C0", blocks, [n for n, s in zip(names, subs) if "cls" in s] + [base["blocks"][1]["name"]])
    return {"stream": "dynamic-base", "classes": [base, c1], "target": "C1"}


def random_class_case(rng):
    mk = Mk()
    names = rng.sample(NAMES, rng.choice([2, 3, 3, 4, 5, 6]))
    subs = [rand_positions(rng) for _ in names]
    blocks = make_required(rng, [mk_block(rng, mk, n, s - {"cls"}) for n, s in zip(names, subs)])
    cls_fields = [n for n, s in zip(names, subs) if "cls" in s]
    rng.shuffle(cls_fields)
    return {"stream": "layout", "classes": [mk_class(rng, mk, "C0", None, blocks, cls_fields,
                                                      summary=rng.random() < 0.4)], "target": "C0"}


def chain_case(rng):
    mk = Mk()
    depth = rng.choice([2, 2, 3])
    classes, have = [], []
    for d in range(depth):
        new = [n for n in rng.sample(NAMES, rng.choice([1, 2, 3])) if n not in have]
        redecl = [n for n in have if rng.random() < 0.5]
        names = new + redecl
        rng.shuffle(names)
        if not names:
            names = [next(n for n in NAMES if n not in have)]
        subs = [rand_positions(rng) for _ in names]
        blocks = [mk_block(rng, mk, n, s - {"cls"}) for n, s in zip(names, subs)]
        cls_fields = [n for n, s in zip(names, subs) if "cls" in s]
        # a subclass may document an inherited field it does not re-declare in its class docstring
        cls_fields += [n for n in have if n not in names and rng.random() < 0.25]
        classes.append(mk_class(rng, mk, f"C{d}", f"C{d-1}" if d else None, blocks, cls_fields,
                                summary=rng.random() < 0.3))
        have += [n for n in names if n not in have]
    return {"stream": "chain", "classes": classes, "target": f"C{rng.randrange(0, depth)}"
            if rng.random() < 0.5 else f"C{depth-1}"}


def hash_default_case(rng):
    """(repaired finding) a '#' inside a string literal of the default value is not a comment"""
    mk = Mk()
    b0 = mk_block(rng, mk, "color", rng.choice([set(), set(), {"above"}, {"below"}, {"inline"}, {"inline", "help"}]))
    b0["ann"], b0["default"] = "str", rng.choice(['"#ff0000"', "'#abc'", '"a # b"', '"x" + "#y"', "'#' * 3"])
    b1 = mk_block(rng, mk, "ab", rand_positions(rng) - {"cls"})
    blocks = [b0, b1] if rng.random() < 0.5 else [b1, b0]
    return {"stream": "layout", "classes": [mk_class(rng, mk, "C0", None, blocks, [])], "target": "C0"}


def clsdoc_inherited_case(rng):
    """(repaired finding) the subclass documents an inherited, not re-declared field in its class docstring"""
    mk = Mk()
    b0 = mk_block(rng, mk, "a", rng.choice([set(), {"inline"}, {"above"}, {"below"}]))
    b1 = mk_block(rng, mk, "ab", rand_positions(rng) - {"cls"})
    c0 = mk_class(rng, mk, "C0", None, [b0, b1], rng.choice([[], ["a"]]))
    b2 = mk_block(rng, mk, "x", rand_positions(rng) - {"cls"})
    c1 = mk_class(rng, mk, "C1", "C0", [b2], ["a"])
    return {"stream": "clsdoc_inherited", "classes": [c0, c1], "target": "C1"}


def fieldless_case(rng):
    """chains with FIELD-LESS classes (body = class docstring only, or `pass`) as middle link and / or leaf, whose class
    docstring documents inherited fields; expected: nearest provider per kind"""
    mk = Mk()
    names = rng.sample(["a", "ab", "val", "value", "x", "lr"], rng.choice([2, 3]))
    subs = [rand_positions(rng) for _ in names]
    c0 = mk_class(rng, mk, "C0", None, [mk_block(rng, mk, n, s - {"cls"}) for n, s in zip(names, subs)],
                  [n for n, s in zip(names, subs) if "cls" in s])
    classes = [c0]
    shape = rng.choice(["leaf", "middle", "middle+leaf", "two-middle"])
    depth = {"leaf": 1, "middle": 2, "middle+leaf": 2, "two-middle": 3}[shape]
    for d in range(1, depth + 1):
        fieldless = not (shape in ("middle", "two-middle") and d == depth)
        if fieldless:
            ents = [n for n in names if rng.random() < 0.6] or [names[0]]
            if rng.random() < 0.15:
                ents = []                                 # body is just `pass` (or a summary-only docstring)
            c = mk_class(rng, mk, f"C{d}", f"C{d-1}", [], ents, summary=rng.random() < 0.5)
        else:
            own = [n for n in ["y", "z_own"] if rng.random() < 0.7] or ["y"]
            redecl = [n for n in names if rng.random() < 0.3]
            bl = [mk_block(rng, mk, n, rand_positions(rng) - {"cls"}) for n in own + redecl]
            c = mk_class(rng, mk, f"C{d}", f"C{d-1}", bl, [n for n in names if rng.random() < 0.3])
        classes.append(c)
    return {"stream": "fieldless", "shape": shape, "classes": classes,
            "target": f"C{depth}" if rng.random() < 0.7 else f"C{rng.randrange(1, depth + 1)}"}


def header_comment_case(rng):
    """(repaired finding) a trailing comment on the class line, no class docstring"""
    mk = Mk()
    b0 = mk_block(rng, mk, "a", rng.choice([set(), {"above"}, {"inline"}]))
    b1 = mk_block(rng, mk, "ab", rand_positions(rng) - {"cls"})
    c0 = mk_class(rng, mk, "C0", None, [b0, b1], [], summary=False)
    c0["hdr_comment"] = c0["hdr_comment"] or mk("header", "C0")
    return {"stream": "layout", "classes": [c0], "target": "C0"}


PUNCT = [": it's = \"x\"", " (see: lr)", " = 3", ": b: int = 1", " don't", ' "quoted" word', " # hash", " a: b"]


def enrich(rng, spec):
    """everyday punctuation in the texts: ':', quotes, '=', '#', words that look like `name: type` — in the positions
    where the line-oriented extractor must not care (inline comment, comment above, one-line docstring)"""
    for c in spec["classes"]:
        for b in c["blocks"]:
            if b["inline"] is not None and rng.random() < 0.7:
                b["inline"] += rng.choice(PUNCT)
            if b["above"] and rng.random() < 0.7:
                i = rng.randrange(len(b["above"]))
                b["above"][i] += rng.choice([p for p in PUNCT if "#" not in p])
            bl = b["below"]
            if bl and not bl["multi"] and rng.random() < 0.7:
                ok = [p for p in PUNCT if bl["q"][0] not in p and "#" not in p]
                bl["lines"][0] += rng.choice(ok)
    spec["rich_text"] = True
    return spec


def trailer_case(rng):
    """a method after the fields (docstring, plain body): not a field's documentation"""
    spec = random_class_case(rng) if rng.random() < 0.5 else chain_case(rng)
    mk = Mk()
    mk.n = 700
    for c in spec["classes"]:
        if rng.random() < 0.7:
            c["trailer"] = {"doc": mk("method", c["name"]), "local": None, "marker": None}
    spec["stream"] = "trailer"
    return spec


def multiline_case(rng):
    """field definitions spread over several lines, with comments above / inline on the opening line / docstring below;
    string defaults containing '#' with and without an inline comment (without one the inline text is empty: 9e297b8)"""
    spec = random_class_case(rng) if rng.random() < 0.6 else chain_case(rng)
    for c in spec["classes"]:
        for b in c["blocks"]:
            if b["default"] is not None and rng.random() < 0.6:
                b["multiline"] = True
                if rng.random() < 0.8:
                    b["below"] = None           # (a docstring below such a definition: finding C19-docstring-below-multiline)
                if rng.random() < 0.5:
                    b["ann"], b["default"] = "str", rng.choice(['"#fff"', "'a # b'"])
    spec["stream"] = "multiline"
    return spec


def multiline_hash_case(rng):
    """(repaired finding, 9e297b8) a multi-line definition whose opening line has a '#' inside a string and NO comment"""
    mk = Mk()
    b0 = mk_block(rng, mk, "color", rng.choice([set(), {"above"}, {"help"}]))
    b0.update(ann="str", default=rng.choice(['"#fff"', "'x #y'"]), inline=None, below=None, multiline=True)
    b1 = mk_block(rng, mk, "ab", rand_positions(rng) - {"cls"})
    blocks = [b0, b1] if rng.random() < 0.5 else [b1, b0]
    return {"stream": "multiline", "classes": [mk_class(rng, mk, "C0", None, blocks, [])], "target": "C0"}


def finding_below_multiline(rng):
    """a docstring below a definition that is spread over several lines"""
    mk = Mk()
    b0 = mk_block(rng, mk, "a", rng.choice([{"below"}, {"below", "above"}, {"below", "inline"}]))
    b0["multiline"] = True
    b1 = mk_block(rng, mk, "ab", rand_positions(rng) - {"cls"})
    blocks = [b0, b1] if rng.random() < 0.5 else [b1, b0]
    return {"stream": "finding:docstring-below-multiline", "classes": [mk_class(rng, mk, "C0", None, blocks, [])], "target": "C0"}


# ---- streams of the recorded (open) findings: each is known to fail, kept small


def finding_classdoc_escape(rng):
    """the class docstring contains an escape sequence: `cls.__doc__ not in source`, so it is not removed"""
    mk = Mk()
    names = rng.choice([["a", "ab"], ["val", "value", "x"], ["lr", "b"]])
    subs = [rand_positions(rng) | {"cls"} for _ in names]
    blocks = [mk_block(rng, mk, n, s - {"cls"}) for n, s in zip(names, subs)]
    c0 = mk_class(rng, mk, "C0", None, blocks, names, summary=True)
    c0["clsdoc"]["escape"] = True
    return {"stream": "finding:classdoc-escape", "classes": [c0], "target": "C0"}


def finding_docstring_colon(rng):
    """a line `<field>: text` inside the multi-line docstring of an EARLIER field of the same class"""
    mk = Mk()
    first, later = rng.choice([("a", "b"), ("lr", "lr_decay"), ("x", "val")])
    b0 = mk_block(rng, mk, first, rng.choice([{"below"}, {"below", "inline"}, {"below", "above"}]))
    b0["below"] = {"q": rng.choice(['"""', "\'\'\'"]), "multi": True,
                   "lines": [rng.choice(["", mk("below", first)]), mk("below", first), f"{later}: {mk('below', first)}"]}
    b1 = mk_block(rng, mk, later, rng.choice([{"inline"}, {"above"}, {"inline", "above"}, set()]))
    b1["below"] = None
    return {"stream": "finding:docstring-colon", "classes": [mk_class(rng, mk, "C0", None, [b0, b1], [])], "target": "C0"}


def finding_multiline_header(rng):
    """a comment inside a class header that spans several lines"""
    mk = Mk()
    b0 = mk_block(rng, mk, "a", rng.choice([set(), {"inline"}]))
    c0 = mk_class(rng, mk, "C0", None, [b0], [], summary=False)
    b1 = mk_block(rng, mk, "x", rng.choice([set(), {"above"}, {"inline"}]))
    b2 = mk_block(rng, mk, "xy", rand_positions(rng) - {"cls"})
    c1 = mk_class(rng, mk, "C1", "C0", [b1, b2], [], summary=False)
    c1["hdr_multiline"] = mk("header", "C1")
    c1["hdr_comment"] = c1["dec_comment"] = None
    return {"stream": "finding:multiline-header", "classes": [c0, c1], "target": "C1"}


def finding_method_local(rng):
    """an annotated local variable of a method, named like an INHERITED field"""
    mk = Mk()
    b0 = mk_block(rng, mk, "total", rng.choice([set(), {"above"}, {"below"}]))
    b0["inline"] = None
    b1 = mk_block(rng, mk, "other", rand_positions(rng) - {"cls"})
    c0 = mk_class(rng, mk, "C0", None, [b0, b1], [])
    b2 = mk_block(rng, mk, "y", rand_positions(rng) - {"cls"})
    c1 = mk_class(rng, mk, "C1", "C0", [b2], [])
    c1["trailer"] = {"doc": mk("method", "C1"), "local": "total", "marker": mk("local", "total")}
    return {"stream": "finding:method-local", "classes": [c0, c1], "target": "C1"}


def finding_diamond_history(rng):
    """diamond A <- B, A <- C, D(B, C): looking up B first changes what D answers afterwards"""
    mk = Mk()
    a = mk_class(rng, mk, "A0", None, [mk_block(rng, mk, "f", {"inline"})], [])
    b = mk_class(rng, mk, "B1", "A0", [mk_block(rng, mk, "f", rng.choice([{"below"}, {"above"}, set()]))], [])
    c = mk_class(rng, mk, "C1", "A0", [mk_block(rng, mk, "f", {"inline"})], [])
    d = mk_class(rng, mk, "D2", "B1, C1", [mk_block(rng, mk, "g", set())], [])
    a["mro"], b["mro"], c["mro"], d["mro"] = ["A0"], ["B1", "A0"], ["C1", "A0"], ["D2", "B1", "C1", "A0"]
    for k in (a, b, c, d):
        k["hdr_comment"] = k["dec_comment"] = None
    kind = rng.choice(["scan", "help"])
    return {"stream": "finding:diamond-history", "order": "first-base-then-diamond", "classes": [a, b, c, d], "target": "D2",
            "queries": [["B1", kind], ["D2", kind]]}


def history_cases(rng):
    """one module, several look-ups in ONE process: the classes of an inheritance chain (and an unrelated class
    with the same field names) are queried in different orders, repeatedly; every answer must be the one a fresh
    process gives for that class (the extractor's caches must be invisible)."""
    spec = chain_case(rng)
    mk = Mk()
    mk.n = 500                                           # markers of the unrelated class: mk5xxq
    chain = [c["name"] for c in spec["classes"]]
    root = spec["classes"][0]
    classes = list(spec["classes"])
    names = list(chain)
    if rng.random() < 0.6:
        # an unrelated dataclass declaring the same field names with its own documentation
        fnames = [b["name"] for b in root["blocks"]]
        subs = [rand_positions(rng) for _ in fnames]
        blocks = [mk_block(rng, mk, n, s - {"cls"}) for n, s in zip(fnames, subs)]
        sib = mk_class(rng, mk, "S0", None, blocks, [n for n, s in zip(fnames, subs) if "cls" in s])
        classes.insert(rng.randrange(len(classes) + 1), sib)
        names.append("S0")
    base = dict(spec, stream="history", classes=classes)
    orders = {
        "derived-first": list(reversed(chain)) + [n for n in names if n not in chain],
        "base-first-twice": [n for n in chain for _ in (0, 1)],
        "derived-then-base-twice": list(reversed(chain)) + chain + list(reversed(chain)),
        "interleaved": [x for pair in zip(list(reversed(chain)), names[::-1]) for x in pair] + names,
        "shuffled": rng.sample(names * 2, len(names) * 2),
    }
    picks = ["derived-first", rng.choice([k for k in orders if k != "derived-first"])]
    for pick in picks:
        kinds = rng.choice(["help", "scan", "mixed"])
        qs = [[n, (rng.choice(["scan", "help"]) if kinds == "mixed" else kinds)] for n in orders[pick]]
        yield dict(base, order=pick, queries=qs, target=chain[-1])


LINE_TEMPLATES = ["{n}: int = 0", "    {n}: int", "    {n} : str = 'x'  # c", "{n} = 4", "    # {n}: int", "{{{n}: int}}",
                  "    {n}: Dict[str, int] = field(default_factory=dict)", "    {n}: int = field(default_factory=lambda: 3)",
                  "    {n} = d[1:2]", "    def {n}(self) -> int:", "class {n}(Base):", "    {n}: int  #: doc", "    {n} #:= 3",
                  "", "   ", "\t{n}:int=1", "    '''{n}: int'''", "  # only", "    {n}.x: int = 1", "    1{n}: int = 1",
                  "    {n}: 'a:b' = 1", "    return {{k: v}}", " {n} :int", "@dataclass(eq=True)", '    {n}: str = "#ff"']


INLINE_TEMPLATES = [
    "x: int = 0",
    '    x: str = "#ff0000"',
    "    x: str = '#abc'",
    "    x: str = \"a # b\" + 'c#d'",
    "    x: List[int] = field(default_factory=list)",
    "    x: str = field(default='#', help=\"h # i\")",
    '    x: str = ""',
    "    x: str = ''",
    "    x: Dict[str, int] = field(default_factory=dict)",
    "    x: str = 'unterminated # string",
    "    x: int = foo(1, [2, 3]",
    "    x: int = (1 + 2) * 3 - 4 / 5",
    "    x: float = 1.5",
    "    x: str = \"it's\"",
    "    x: str = 'say \"hi\" # there'",
    "    x: int",
    "    x: Optional[int] = None",
    '    x: str = """triple # quoted"""',
    '    x: str = f"{1}#"',
    "    x: str = 'back\\\\slash#'",
    "    x: int = 1e5",
    "    x: int = a @ b",
    "\tx: int = 3",
    "    x: Tuple[int, ...] = (1, 2)",
    "    x: int = {1, 2}",
    "    x: int = 3)",
    "    x: str = '#' '#'",
    '    x: str = field(default="#fff", alias=["-c"],',
    "    x: str = field(default='a # b',",
    "    x: int = field(",
]
# templates that open a multi-line expression: a comment appended to them is still the line's own comment
INLINE_OPEN = {t for t in INLINE_TEMPLATES if t.endswith(",") or t.endswith("(")}
# templates that are complete, valid statements (the "own comment" clause of the oracle applies to them)
INLINE_WELLFORMED = {t for t in INLINE_TEMPLATES if not any(k in t for k in ("unterminated", "[2, 3]", "3)"))}


def gen(rng, tier):
    quick = tier == "quick"
    specs = []
    # (a) exhaustive: one field, every subset of the five positions, both plain and rich renderings
    for r in range(6):
        for sub in itertools.combinations(POSITIONS, r):
            specs.append(subsets_case(rng, ["a"], [set(sub)], rich=False))
            specs.append(subsets_case(rng, ["ab"], [set(sub)], rich=True))
    # (b) two prefix-related fields: subsets x subsets (exhaustive in thorough, sampled in quick)
    all_sub = [set(s) for r in range(6) for s in itertools.combinations(POSITIONS, r)]
    pairs = list(itertools.product(all_sub, all_sub))
    if quick:
        pairs = rng.sample(pairs, 100)
    for s1, s2 in pairs:
        names = rng.choice([["a", "ab"], ["ab", "a"], ["value", "val"], ["a_b", "a"], ["lr", "lr_decay"]])
        specs.append(subsets_case(rng, names, [s1, s2], rich=rng.random() < 0.5))
    # (c) random multi-field classes, (d) inheritance chains
    for _ in range(150 if quick else 3000):
        specs.append(random_class_case(rng))
    for _ in range(150 if quick else 3000):
        specs.append(chain_case(rng))
    for _ in range(60 if quick else 800):
        specs.append(enrich(rng, random_class_case(rng) if rng.random() < 0.6 else chain_case(rng)))
    for _ in range(30 if quick else 300):
        specs.append(trailer_case(rng))
    for _ in range(15 if quick else 150):
        specs.append(dynamic_base_case(rng))
    for _ in range(40 if quick else 400):
        specs.append(multiline_case(rng))
    for _ in range(10 if quick else 100):
        specs.append(multiline_hash_case(rng))
    fieldless = [fieldless_case(rng) for _ in range(40 if quick else 400)]
    specs += fieldless
    for _ in range(20 if quick else 300):
        specs.append(clsdoc_inherited_case(rng))
        specs.append(header_comment_case(rng))
        specs.append(hash_default_case(rng))
    for spec in specs:
        yield {"op": "doc.scan", "case": spec}
        yield {"op": "doc.help", "case": spec}
        if spec["stream"] == "layout":
            yield {"op": "doc.layout", "case": spec}
    # (d') histories: several classes of one module looked up in one process, in different orders
    for _ in range(60 if quick else 400):
        for spec in history_cases(rng):
            yield {"op": "doc.history", "case": spec}
    for spec in fieldless[: (15 if quick else 100)]:
        chain = [c["name"] for c in spec["classes"]]
        kind = rng.choice(["scan", "help"])
        order = rng.choice([list(reversed(chain)), chain, list(reversed(chain)) + chain])
        yield {"op": "doc.history", "case": dict(spec, stream="history", order="fieldless-chain", target=chain[-1],
                                                  queries=[[n, kind] for n in order])}
    # (d'') streams of the open findings
    for _ in range(3 if quick else 20):
        for f in (finding_classdoc_escape, finding_docstring_colon, finding_multiline_header, finding_method_local,
                  finding_below_multiline):
            spec = f(rng)
            yield {"op": "doc.scan", "case": spec}
            yield {"op": "doc.help", "case": spec}
        yield {"op": "doc.history", "case": finding_diamond_history(rng)}
    # (e) the inline-comment extraction on synthetic definition lines (strings with '#', brackets, fallbacks)
    for t in INLINE_TEMPLATES:
        for cm in ("", "  # mk900q inline x", "#mk901q tight", "  #  mk902q # twice  "):
            yield {"op": "doc.inline", "case": {"line": t + cm}}
    # (f) the line classifiers on synthetic lines
    for t in LINE_TEMPLATES:
        for n in (["a", "ab"] if quick else NAMES):
            for target in ("a", "ab"):
                yield {"op": "doc.line", "case": {"line": t.format(n=n), "name": target}}


# ------------------------------------------------------------------------------------------------
# rendering a layout description to Python source (the harness's own renderer)

IND = "    "


def default_expr(b):
    h = b.get("help")
    if not h:
        return b["default"]
    if b["default"] is None:
        return f'field(help="{h["text"]}")' if h["how"] == "custom" else f'dfield(metadata=dict(help="{h["text"]}"))'
    if h["how"] == "custom":
        return f'field(default={b["default"]}, help="{h["text"]}")'
    return f'dfield(default={b["default"]}, metadata=dict(help="{h["text"]}"))'


def block_tail(b):
    if b["default"] is None and not b.get("help"):
        return f' {b["ann"]}'                            # a required field: no "=" on the definition line
    return f' {b["ann"]} = {default_expr(b)}'


def render_block(b):
    out = [f"{IND}# {m}" for m in b["above"]]
    out += [""] * b["gap1"]
    ml = b.get("multiline")
    if ml:
        # the definition is spread over several lines: `field(` opened on the declaration line, `)` on a later line
        h = b.get("help")
        fn = "dfield" if (h and h["how"] == "meta") else "field"
        line = f'{IND}{b["name"]}: {b["ann"]} = {fn}(default={b["default"]},'
        if b["inline"] is not None:
            line += f'  # {b["inline"]}'
        out.append(line)
        if h:
            out.append(f'{IND}{IND}help="{h["text"]}",' if h["how"] == "custom" else f'{IND}{IND}metadata=dict(help="{h["text"]}"),')
        else:
            out.append(f'{IND}{IND}metadata=dict(note="n"),')
        out.append(f"{IND})")
    else:
        line = f'{IND}{b["name"]}:{block_tail(b)}'
        if b["inline"] is not None:
            line += f'  # {b["inline"]}'
        out.append(line)
    out += [""] * b["gap2"]
    bl = b["below"]
    if bl:
        q = bl["q"]
        if bl["multi"]:
            out.append(f'{IND}{q}{bl["lines"][0]}')
            out += [f"{IND}{m}" for m in bl["lines"][1:]]
            out.append(f"{IND}{q}")
        else:
            out.append(f'{IND}{q}{bl["lines"][0]}{q}')
    out += [""] * b["gap3"]
    return out


def render_class(c):
    if c.get("dynamic"):
        flds = ", ".join(f'("{b["name"]}", {b["ann"]}, dfield(default={b["default"]}))' for b in c["blocks"])
        return [f'{c["name"]} = make_dataclass("{c["name"]}", [{flds}])'], 1
    out = [c["decorator"] + (f'  # {c["dec_comment"]}' if c.get("dec_comment") else "")]
    if c.get("hdr_multiline"):
        # class C1(
        #     C0,  # <comment inside the header>
        # ):
        out.append(f'class {c["name"]}(')
        out.append(f'{IND}{c["base"] or "object"},  # {c["hdr_multiline"]}')
        out.append("):" + (f'  # {c["hdr_comment"]}' if c.get("hdr_comment") else ""))
    else:
        head = f'class {c["name"]}({c["base"]}):' if c["base"] else f'class {c["name"]}:'
        if c.get("hdr_comment"):
            head += f'  # {c["hdr_comment"]}'
        out.append(head)
    cd = c["clsdoc"]
    if cd:
        q = cd["q"]
        esc = "\\twith an escape" if cd.get("escape") else ""      # backslash-t in the SOURCE: __doc__ has a real tab
        if cd["entries"]:
            out.append(f'{IND}{q}{cd["summary"]}{esc}')
            out.append("")
            out.append(f"{IND}Args:")
            for f, m in cd["entries"]:
                out.append(f"{IND}{IND}{f}: {m}")
            out.append(f"{IND}{q}")
        else:
            out.append(f'{IND}{q}{cd["summary"]}{esc}{q}')
    if not cd and not c["blocks"] and not c.get("trailer"):
        out.append(f"{IND}pass")
    out += [""] * c["hdr_gap"]
    n_header = len(out)
    for b in c["blocks"]:
        out += render_block(b)
    tr = c.get("trailer")
    if tr:
        # a method after the fields, with a docstring and (optionally) an annotated local variable
        out += ["", f"{IND}def run(self):", f'{IND}{IND}"""{tr["doc"]}"""']
        if tr.get("local"):
            out.append(f'{IND}{IND}{tr["local"]}: int = 0  # {tr["marker"]}')
            out.append(f'{IND}{IND}return {tr["local"]}')
        else:
            out.append(f"{IND}{IND}return 0")
    return out, n_header


def render_module(spec):
    out = ["from dataclasses import dataclass, field as dfield, make_dataclass", "from typing import Optional",
           "from simple_parsing import field", "", ""]
    for c in spec["classes"]:
        lines, _ = render_class(c)
        out += lines + ["", ""]
    return "\n".join(out)


# ------------------------------------------------------------------------------------------------
# real code

_counter = itertools.count()


def _proc_dir():
    d = os.path.join(os.environ.get("TMPDIR") or "/tmp", f"spverif.{os.getpid()}")
    os.makedirs(d, exist_ok=True)
    return d


class LoadedModule:
    """write + import a generated module; everything is removed again on exit"""

    def __init__(self, text: str):
        self.text = text

    def __enter__(self):
        import linecache

        self._linecache = linecache
        self.parent = _proc_dir()                     # ${TMPDIR:-/tmp}/spverif.<pid>/ (one file per case in flight)
        tag = hashlib.sha256(self.text.encode()).hexdigest()[:10]
        self.name = f"spverif_c19_{os.getpid()}_{next(_counter)}_{tag}"
        self.path = os.path.join(self.parent, self.name + ".py")
        with open(self.path, "w") as f:
            f.write(self.text)
        old = sys.dont_write_bytecode
        sys.dont_write_bytecode = True
        try:
            spec = importlib.util.spec_from_file_location(self.name, self.path)
            mod = importlib.util.module_from_spec(spec)
            sys.modules[self.name] = mod
            spec.loader.exec_module(mod)
        finally:
            sys.dont_write_bytecode = old
        return mod

    def __exit__(self, *a):
        sys.modules.pop(self.name, None)
        self._linecache.cache.pop(self.path, None)
        try:
            os.unlink(self.path)
        except OSError:
            pass
        try:
            os.rmdir(self.parent)          # succeeds when no other case of this process is in flight
        except OSError:
            pass
        return False


def _mro_info(cls):
    from simple_parsing.docstring import dp_parse

    info = []
    for k in inspect.getmro(cls)[:-1]:
        d = inspect.getdoc(k)
        params = []
        if d:
            for p in dp_parse(d).params:
                params.append({"name": p.arg_name, "desc": p.description or ""})
        try:
            source = inspect.getsource(k)
        except (TypeError, OSError):                     # no source file (make_dataclass, exec): what the code catches
            source = None
        info.append({"name": k.__name__, "source": source, "doc": k.__doc__, "params": params})
    return info


def impl(case):
    op, c = case["op"], case["case"]
    if op == "doc.inline":
        from simple_parsing import docstring as D

        if not D._contains_field_definition(c["line"]):
            return {"notdef": True}
        try:
            return {"inline": D._get_inline_comment_at_line([c["line"]], 0)}
        except Exception as e:  # noqa: BLE001
            return {"raise": type(e).__name__}
    if op == "doc.line":
        from simple_parsing import docstring as D

        return {"def": D._contains_field_definition(c["line"]), "defines": D._line_contains_definition_for(c["line"], c["name"]),
                "empty": D._is_empty(c["line"]), "comment": D._is_comment(c["line"])}
    text = render_module(c)
    with LoadedModule(text) as mod:
        if op == "doc.history":
            answers = []
            for cname, kind in c["queries"]:
                answers.append(_observe(getattr(mod, cname), "doc.scan" if kind == "scan" else "doc.help", with_mro=False))
            info = {}
            for (cname, _), a in zip(c["queries"], answers):           # after all look-ups: what the model needs
                if cname not in info:
                    info[cname] = _mro_info(getattr(mod, cname))
                a["mro"] = info[cname]
            return {"answers": answers}
        return _observe(getattr(mod, c["target"]), op)


def _observe(cls, op, with_mro=True):
    from simple_parsing.docstring import get_attribute_docstring

    if True:
        names = [f.name for f in dataclasses.fields(cls)]
        obs = {"names": names}
        # the explicit help= in effect, read off the real dataclass Field objects (fed to the model; the oracle works
        # from the layout description instead)
        obs["explicit"] = {f.name: {"meta": f.metadata.get("help"),
                                    "custom": (f.metadata.get("custom_args") or {}).get("help")} for f in dataclasses.fields(cls)}
        if with_mro:
            obs["mro"] = _mro_info(cls)
        if op in ("doc.scan", "doc.layout"):
            docs = {}
            for n in names:
                try:
                    d = get_attribute_docstring(cls, n)
                except Exception as e:  # noqa: BLE001 — an exception of the code under test is an outcome
                    docs[n] = {"raise": type(e).__name__}
                    continue
                docs[n] = {"above": d.comment_above, "inline": d.comment_inline, "below": d.docstring_below,
                           "cls": d.desc_from_cls_docstring}
            obs["docs"] = docs
        if op == "doc.layout":
            src = inspect.getsource(cls)
            if cls.__doc__ and cls.__doc__ in src:
                src = src.replace(cls.__doc__, "\n", 1)
            obs["lines"] = src.splitlines()
        if op == "doc.help":
            sp.reset_globals()

            def run():
                parser = sp.make_parser({})
                parser.add_arguments(cls, dest="cfg")
                buf = io.StringIO()
                parser.print_help(file=buf)               # public entry point; sets the parser up
                return parser, buf.getvalue()

            r = sp.run_outcome(run)
            if r["o"] != "ok":
                obs["setup"] = {k: v for k, v in r.items() if k != "value"}
                return obs
            parser, help_text = r["value"]
            helps, wrapper_helps, others = {}, {}, []
            for a in parser._actions:
                if a.dest.startswith("cfg."):
                    h = a.help
                    suffix = " (default: %(default)s)"              # appended by BooleanOptionalAction (C12/C16's business)
                    if isinstance(h, str) and h.endswith(suffix) and type(a).__name__ == "BooleanOptionalAction":
                        h = h[: -len(suffix)]
                    helps[a.dest[4:]] = None if (h is None or h == TEMP) else h
                elif isinstance(a.help, str):
                    others.append(a.help)
            for w in parser._wrappers:
                for fw in w.fields:
                    wrapper_helps[fw.name] = fw.help
            obs["help"] = helps
            obs["wrapper_help"] = wrapper_helps
            obs["other_help"] = others
            obs["help_text_markers"] = sorted(set(MARK.findall(help_text)))
    return obs


def _subcases(case, obs):
    """doc.history: the per-query one-shot cases (op, spec with that class as target) and their answers"""
    c = case["case"]
    for (cname, kind), a in zip(c["queries"], obs["answers"]):
        yield {"op": "doc.scan" if kind == "scan" else "doc.help", "case": dict(c, target=cname)}, a, kind


def model_case(case, obs):
    op, c = case["op"], case["case"]
    if op == "doc.history":
        classes, queries = {}, []
        for sub, a, kind in _subcases(case, obs):
            for k in a["mro"]:
                classes.setdefault(k["name"], k)
            m = model_case(sub, a)
            queries.append(dict({k: v for k, v in m.items() if k != "mro"}, kind=kind, mro=[k["name"] for k in a["mro"]]))
        return {"classes": list(classes.values()), "queries": queries}
    if op in ("doc.line", "doc.inline"):
        return c
    if op == "doc.scan":
        return {"mro": obs["mro"], "names": obs["names"]}
    if op == "doc.help":
        fields = [{"name": n, "custom": obs["explicit"][n]["custom"], "meta": obs["explicit"][n]["meta"]} for n in obs["names"]]
        return {"mro": obs["mro"], "fields": fields}
    if op == "doc.layout":
        cl = c["classes"][0]
        n_header = max(0, len(obs["lines"]) - sum(len(render_block(b)) for b in cl["blocks"]))
        blocks = [{"above": b["above"], "gap1": b["gap1"], "name": b["name"], "tail": block_tail(b), "inline": b["inline"],
                   "gap2": b["gap2"], "below": b["below"], "gap3": b["gap3"]} for b in cl["blocks"]]
        return {"header": obs["lines"][:n_header], "blocks": blocks}
    raise ValueError(op)


def project(case, obs):
    op = case["op"]
    if op == "doc.history":
        return {"answers": [project(sub, a) for sub, a, _ in _subcases(case, obs)]}
    if op == "doc.scan":
        return {"docs": obs["docs"]}
    if op == "doc.help":
        if "setup" in obs:
            return {"setup": obs["setup"]["o"]}
        return {"help": obs["help"]}
    if op == "doc.layout":
        # in_grammar: every generated layout must satisfy the hypotheses of theorem c19_extract
        return {"lines": obs["lines"], "docs": {n: (d if "raise" in d else dict(d, cls="")) for n, d in obs["docs"].items()},
                "in_grammar": True}
    return obs


# ------------------------------------------------------------------------------------------------
# the property itself, on real observations (independent of the model: works from the layout description)


def chain_of(spec):
    """classes from the target up to the root (nearest first)"""
    by = {c["name"]: c for c in spec["classes"]}
    if by[spec["target"]].get("mro"):
        return [by[n] for n in by[spec["target"]]["mro"]]
    out, cur = [], by[spec["target"]]
    while cur:
        out.append(cur)
        cur = by.get(cur["base"]) if cur["base"] else None
    return out


def effective_blocks(spec):
    """field name -> the block of the nearest class that declares it (that is the dataclass Field in effect)"""
    eff = {}
    for c in reversed(chain_of(spec)):
        for b in c["blocks"]:
            eff[b["name"]] = b
    return eff


def all_field_names(spec):
    names = []
    for c in reversed(chain_of(spec)):
        for b in c["blocks"]:
            if b["name"] not in names:
                names.append(b["name"])
    return names


def provided(c, name, kind):
    """marker lines class `c` provides for `name` at position `kind` ([] = does not provide it)"""
    if c.get("dynamic"):
        return []
    if kind == "cls":
        cd = c["clsdoc"]
        hits = [m for f, m in (cd["entries"] if cd else []) if f == name]
        return hits[-1:] if hits else []
    for b in c["blocks"]:
        if b["name"] == name:
            if kind == "above":
                return list(b["above"])
            if kind == "inline":
                return [b["inline"]] if b["inline"] is not None else []
            if kind == "below":
                return [m for m in b["below"]["lines"] if m.strip()] if b["below"] else []
    return []


def expected_kind(spec, name, kind):
    """each kind of documentation is taken from the nearest class in the chain that provides it"""
    for c in chain_of(spec):
        p = provided(c, name, kind)
        if p:
            return p
    return []


def expected_help(spec, name):
    b = effective_blocks(spec)[name]
    if b.get("help"):
        return [b["help"]["text"]]
    for k in KINDS:
        e = expected_kind(spec, name, k)
        if e:
            return e
    return []


def norm(text):
    if text is None:
        return []
    return [l.strip() for l in str(text).splitlines() if l.strip()]


def mid(text):
    m = MARK.search(text or "")
    return m.group(0) if m else None


def owner_of(spec):
    """marker id -> field name it documents (header / summary / method markers -> None)"""
    own = {}
    for c in spec["classes"]:
        for b in c["blocks"]:
            for m in b["above"] + ([b["inline"]] if b["inline"] is not None else []) + (b["below"]["lines"] if b["below"] else []):
                if mid(m):
                    own[mid(m)] = b["name"]
            if b.get("help"):
                own[mid(b["help"]["text"])] = b["name"]
        if c["clsdoc"]:
            own[mid(c["clsdoc"]["summary"])] = None
            for f, m in c["clsdoc"]["entries"]:
                own[mid(m)] = f
        for key in ("hdr_comment", "dec_comment", "hdr_multiline"):
            if c.get(key):
                own[mid(c[key])] = None
        if c.get("trailer"):
            own[mid(c["trailer"]["doc"])] = None
            if c["trailer"].get("marker"):
                own[mid(c["trailer"]["marker"])] = None
    return own


def model_unmodelled(mo):
    return isinstance(mo, dict) and mo.get("unmodelled") is True


def _without_multiline_below(spec):
    """the same layout with the docstrings below MULTI-LINE definitions dropped (None if there is none)"""
    hit = False
    classes = []
    for c in spec["classes"]:
        blocks = []
        for b in c["blocks"]:
            if b.get("multiline") and b["below"]:
                b, hit = dict(b, below=None), True
            blocks.append(b)
        classes.append(dict(c, blocks=blocks))
    return dict(spec, classes=classes) if hit else None


def oracle(case, obs):
    op, spec = case["op"], case["case"]
    if op == "doc.line":
        return []
    if op == "doc.inline":
        # the templates carry at most one real comment (always last on the line): its text is the inline comment
        line = spec["line"]
        if "raise" in obs:
            return [{"clause": "extractor-raised", "detail": f"_get_inline_comment_at_line raised {obs['raise']} on {line!r}"}]
        if "notdef" in obs:
            return []
        for t in INLINE_WELLFORMED:
            if t in INLINE_OPEN and line == t and "#" not in t:
                continue
            if line.startswith(t) and (line == t or line[len(t):].lstrip().startswith("#")):
                exp = line[len(t):].strip()[1:].strip() if line != t else ""
                if obs["inline"] != exp:
                    return [{"clause": "inline-own-comment",
                             "detail": f"inline comment of {line!r}: got {obs['inline']!r}, it is {exp!r}"}]
        return []
    if op == "doc.history":
        # the property, per look-up, AFTER the other classes were looked up in the same process
        fails = []
        for i, (sub, a, kind) in enumerate(_subcases(case, obs)):
            before = [q[0] for q in spec["queries"][:i]]
            for f in oracle(sub, a):
                fails.append(dict(f, query=i, cls=sub["case"]["target"],
                                  detail=f"look-up #{i} ({kind} of class {sub['case']['target']}, after {before}): {f.get('detail')}"))
        return fails
    fails = []
    own = owner_of(spec)
    names = all_field_names(spec)
    if sorted(obs["names"]) != sorted(names):
        fails.append({"clause": "fields", "detail": f"dataclass fields {obs['names']} != described {names}"})
        return fails

    def check(field, kind, got_text, exp):
        got = norm(got_text)
        foreign = sorted({m for m in MARK.findall(str(got_text or "")) if own.get(m, "?") != field})
        if foreign:
            fails.append({"clause": "no-leak", "field": field, "kind": kind, "got": got, "exp": exp, "foreign": foreign,
                          "detail": f"{kind} text of field {field!r} contains text that documents "
                                    f"{[own.get(m) for m in foreign]}: {got_text!r}"})
        elif not exp and got:
            fails.append({"clause": "no-invented-text", "field": field, "kind": kind, "got": got, "exp": exp,
                          "detail": f"field {field!r} has no {kind} documentation but got {got_text!r}"})
        elif got != exp:
            fails.append({"clause": "nearest-provider" if kind != "help" else "precedence", "field": field, "kind": kind,
                          "got": got, "exp": exp, "detail": f"{kind} of field {field!r}: got {got}, documented {exp}"})

    if op in ("doc.scan", "doc.layout"):
        for n in names:
            if "raise" in obs["docs"][n]:
                fails.append({"clause": "extractor-raised", "field": n, "kind": None,
                              "detail": f"get_attribute_docstring raised {obs['docs'][n]['raise']} for field {n!r}"})
                continue
            for k in KINDS:
                check(n, k, obs["docs"][n][k], expected_kind(spec, n, k))
    if op == "doc.help":
        if "setup" in obs:
            return [{"clause": "setup", "detail": f"building the parser failed: {obs['setup']}"}]
        shown = set()
        for n in names:
            exp = expected_help(spec, n)
            check(n, "help", obs["help"].get(n), exp)
            shown |= {mid(m) for m in exp if mid(m)}
            # FieldWrapper.help agrees with the action unless the help= went through add_argument's own kwargs
            b = effective_blocks(spec)[n]
            if not (b.get("help") and b["help"]["how"] == "custom"):
                if norm(obs["wrapper_help"].get(n)) != norm(obs["help"].get(n)):
                    fails.append({"clause": "wrapper-vs-action", "field": n, "kind": "help",
                                  "detail": f"FieldWrapper.help {obs['wrapper_help'].get(n)!r} != action.help {obs['help'].get(n)!r}"})
        for h in obs["other_help"]:
            if MARK.search(h):
                fails.append({"clause": "no-leak", "field": None, "kind": "help", "detail": f"marker in a non-field action: {h!r}"})
        # the --help text shows a field marker iff it is the winning documentation of its field
        in_text = {m for m in obs["help_text_markers"] if own.get(m, "?") is not None}
        if in_text != shown and not fails:
            fails.append({"clause": "help-text", "field": None, "kind": "help",
                          "detail": f"--help text shows field markers {sorted(in_text)}, the winning ones are {sorted(shown)}"})
    return fails


def n_filled(spec):
    n = 0
    for c in spec["classes"]:
        for b in c["blocks"]:
            n += bool(b["above"]) + (b["inline"] is not None) + bool(b["below"]) + bool(b.get("help"))
        n += len(c["clsdoc"]["entries"]) if c["clsdoc"] else 0
    return n


def nontrivial(case, obs):
    if case["op"] == "doc.line":
        return bool(obs["def"])
    if case["op"] == "doc.inline":
        return "#" in case["case"]["line"] and "inline" in obs
    if case["op"] == "doc.history":
        return len({q[0] for q in case["case"]["queries"]}) >= 2 and n_filled(case["case"]) >= 1
    spec = case["case"]
    nf = sum(len(c["blocks"]) for c in spec["classes"])
    return (nf >= 2 or len(spec["classes"]) >= 2) and n_filled(spec) >= 1


def tags(case, obs):
    op = case["op"]
    t = [f"op:{op}"]
    if op == "doc.line":
        return t + [f"def:{obs['def']}", f"defines:{obs['defines']}"]
    if op == "doc.inline":
        return t + ["inline:" + ("notdef" if "notdef" in obs else "raise" if "raise" in obs else "text" if obs["inline"] else "empty")]
    spec = case["case"]
    if op == "doc.history":
        t.append(f"order:{spec['order']}")
        t.append(f"queries:{min(8, len(spec['queries']))}")
        t.append("unrelated-class:" + ("yes" if any(c["name"] == "S0" for c in spec["classes"]) else "no"))
        t += ["query:" + k for k in {q[1] for q in spec["queries"]}]
        return sorted(set(t))
    t.append(f"stream:{spec['stream']}")
    t.append(f"classes:{len(spec['classes'])}")
    t.append(f"fields:{min(6, sum(len(c['blocks']) for c in spec['classes']))}")
    declared = [b["name"] for c in spec["classes"] for b in c["blocks"]]
    if len(declared) != len(set(declared)):
        t.append("field-redeclared")
    if spec.get("rich_text"):
        t.append("rich-text")
    for c in spec["classes"]:
        ns = [b["name"] for b in c["blocks"]]
        if any(x != y and (x.startswith(y) or y.startswith(x)) for x, y in zip(ns, ns[1:])):
            t.append("prefix-pair-adjacent")
        if c.get("dynamic"):
            t.append("no-source-class")
        if not c["blocks"]:
            t.append("fieldless-class:" + ("leaf" if c["name"] == spec["classes"][-1]["name"] else "middle")
                     + (":entries" if c["clsdoc"] and c["clsdoc"]["entries"] else ":no-entries"))
        if c.get("trailer"):
            t.append("trailing-method")
        for b in c["blocks"]:
            if b.get("multiline"):
                t.append("multiline-definition")
                t.append("multiline:" + "+".join(k for k, v in (("above", b["above"]), ("inline", b["inline"] is not None),
                                                                   ("below", b["below"]), ("hash", "#" in (b["default"] or ""))) if v))
        t.append(f"hdr_gap:{c['hdr_gap']}")
        for b in c["blocks"]:
            if b["default"] is None:
                t.append("required-field")
            if b["below"] and b["below"]["multi"] and b["below"]["lines"][0] == "":
                t.append("opening-quotes-alone")
            t.append("ann:" + b["ann"].split("[")[0])
            if len(spec["classes"]) == 1 and len(c["blocks"]) <= 2:
                pos = "".join(k[0] for k, v in (("help", b.get("help")), ("below", b["below"]), ("above", b["above"]),
                                                 ("inline", b["inline"] is not None)) if v)
                t.append("subset:" + (pos or "-"))
        if c.get("hdr_comment") or c.get("dec_comment"):
            t.append("header-comment")
        if c["clsdoc"] and any(f not in [b["name"] for b in c["blocks"]] for f, _ in c["clsdoc"]["entries"]):
            t.append("clsdoc-entry-for-inherited-field")
        t.append("decorator:" + ("args" if "(" in c["decorator"] and not c["decorator"].endswith("()") else "plain"))
        if c["clsdoc"]:
            t.append("clsdoc:" + c["clsdoc"]["q"])
        for b in c["blocks"]:
            if b["below"]:
                t.append(f"below:{b['below']['q']}:{'multi' if b['below']['multi'] else 'one'}")
            if len(b["above"]) > 1:
                t.append("above:multiline")
            if b["gap1"] or b["gap2"]:
                t.append("blank-inside-block")
            if b.get("help"):
                t.append("help:" + b["help"]["how"])
    if op == "doc.help" and "help" in obs:
        for n in obs["names"]:
            e = expected_help(spec, n)
            b = effective_blocks(spec)[n]
            win = "help" if b.get("help") else next((k for k in KINDS if expected_kind(spec, n, k)), "none")
            t.append(f"winner:{win}")
    return sorted(set(t))


def shrink(case):
    spec = case["case"]
    if case["op"] in ("doc.line", "doc.inline"):
        return
    op = case["op"]

    def emit(s):
        return {"op": op, "case": s}

    cls = spec["classes"]
    if op == "doc.history":
        qs = spec["queries"]
        for i in range(len(qs)):
            if len(qs) > 1:
                yield emit(dict(spec, queries=qs[:i] + qs[i + 1:]))
        used = {q[0] for q in qs}
        bases = {c["base"] for c in cls}
        for ci, c in enumerate(cls):
            if c["name"] not in used and c["name"] not in bases:
                yield emit(dict(spec, classes=cls[:ci] + cls[ci + 1:]))
    # drop the most-derived class (if it is the target)
    elif len(cls) > 1 and spec["target"] == cls[-1]["name"]:
        yield emit(dict(spec, classes=cls[:-1], target=cls[-2]["name"]))
    for ci, c in enumerate(cls):
        for bi in range(len(c["blocks"])):
            if len(c["blocks"]) > 1:
                nb = c["blocks"][:bi] + c["blocks"][bi + 1:]
                nb[-1] = dict(nb[-1], gap3=0)
                dropped = c["blocks"][bi]["name"]
                ncd = c["clsdoc"] and dict(c["clsdoc"], entries=[e for e in c["clsdoc"]["entries"] if e[0] != dropped])
                yield emit(dict(spec, classes=cls[:ci] + [dict(c, blocks=nb, clsdoc=ncd)] + cls[ci + 1:]))
        for bi, b in enumerate(c["blocks"]):
            for key, empty in (("above", []), ("inline", None), ("below", None), ("help", None), ("gap1", 0), ("gap2", 0)):
                if b[key]:
                    nb = c["blocks"][:bi] + [dict(b, **{key: empty})] + c["blocks"][bi + 1:]
                    yield emit(dict(spec, classes=cls[:ci] + [dict(c, blocks=nb)] + cls[ci + 1:]))
            if b["gap3"] and bi < len(c["blocks"]) - 1:
                nb = c["blocks"][:bi] + [dict(b, gap3=0)] + c["blocks"][bi + 1:]
                yield emit(dict(spec, classes=cls[:ci] + [dict(c, blocks=nb)] + cls[ci + 1:]))
        if c["clsdoc"]:
            yield emit(dict(spec, classes=cls[:ci] + [dict(c, clsdoc=None)] + cls[ci + 1:]))
        for key in ("hdr_comment", "dec_comment"):
            if c.get(key):
                yield emit(dict(spec, classes=cls[:ci] + [dict(c, **{key: None})] + cls[ci + 1:]))
        if c["decorator"] != "@dataclass":
            yield emit(dict(spec, classes=cls[:ci] + [dict(c, decorator="@dataclass")] + cls[ci + 1:]))


def neighbours(case, rng):
    if case["op"] in ("doc.line", "doc.inline"):
        return
    if case["op"] == "doc.history":
        spec = case["case"]
        chain = [c["name"] for c in spec["classes"] if c["name"] != "S0"]
        for kind in ("help", "scan"):
            for order in (list(reversed(chain)) + chain, chain + list(reversed(chain))):
                yield {"op": "doc.history", "case": dict(spec, queries=[[n, kind] for n in order])}
        return
    for op in ("doc.scan", "doc.help"):
        yield {"op": op, "case": case["case"]}
    for s in itertools.islice(shrink(case), 40):
        yield s


# ------------------------------------------------------------------------------------------------
# open findings: narrow signatures = structure of the case (which class / field / position is concerned) + the observed
# wrong text (it must be exactly what the recorded defect produces)

CLAUSES = ("nearest-provider", "no-leak", "no-invented-text", "precedence")


def _spec(case):
    spec = case.get("case")
    return spec if isinstance(spec, dict) and "classes" in spec else None


def _src_lines(c):
    """stripped source lines of a class, also without a leading '#' / surrounding quotes (what a mis-read line can yield)"""
    out = set()
    for l in render_class(c)[0]:
        l = l.strip()
        if l:
            out |= {l, l.lstrip("#").strip(), l.strip("\"'").strip(), l.replace("\\t", "\t")}
            if "#" in l:
                out.add(l.split("#", 1)[1].strip())
            if ":" in l:
                out.add(l.split(":", 1)[1].strip())               # `name: text` entry of the class docstring
    return out


def _sub(case, fail):
    """(spec with the right target, fail) — for doc.history the class of the failing look-up"""
    spec = _spec(case)
    if spec is None:
        return None
    if case.get("op") == "doc.history":
        if "cls" not in fail:
            return None
        return dict(spec, target=fail["cls"])
    return spec


def _classdoc_escape_sig(case, obs, fail):
    spec = _sub(case, fail)
    if spec is None or fail.get("clause") not in CLAUSES:
        return False
    for c in chain_of(spec):
        if c["clsdoc"] and c["clsdoc"].get("escape") and any(b["name"] == fail.get("field") for b in c["blocks"]):
            return all(g in _src_lines(c) for g in fail.get("got", []))
    return False


def _docstring_colon_sig(case, obs, fail):
    spec = _sub(case, fail)
    if spec is None or fail.get("clause") not in CLAUSES:
        return False
    f = fail.get("field")
    for c in chain_of(spec):
        for i, b in enumerate(c["blocks"]):
            if b["below"] and b["below"]["multi"] and any(l.startswith(f"{f}:") for l in b["below"]["lines"][1:]):
                own = [j for j, x in enumerate(c["blocks"]) if x["name"] == f]
                if not own or own[0] > i:                       # the docstring line comes before the field's own definition
                    return all(g in _src_lines(c) for g in fail.get("got", []))
    return False


def _multiline_header_sig(case, obs, fail):
    spec = _sub(case, fail)
    if spec is None or fail.get("clause") != "no-leak" or fail.get("kind") not in ("above", "help"):
        return False
    for c in chain_of(spec):
        if c.get("hdr_multiline") and not c["clsdoc"] and c["blocks"] and c["blocks"][0]["name"] == fail.get("field"):
            hdr = [c["hdr_multiline"]] + ([c["hdr_comment"]] if c.get("hdr_comment") else [])
            return fail.get("foreign") == sorted(mid(h) for h in hdr) and fail.get("got") == hdr + list(c["blocks"][0]["above"])
    return False


def _method_local_sig(case, obs, fail):
    spec = _sub(case, fail)
    if spec is None or fail.get("clause") != "no-leak" or fail.get("kind") not in ("inline", "help"):
        return False
    for c in chain_of(spec):
        tr = c.get("trailer")
        if tr and tr.get("local") == fail.get("field") and not any(b["name"] == tr["local"] for b in c["blocks"]):
            return fail.get("foreign") == [mid(tr["marker"])] and fail.get("got") == [tr["marker"]]
    return False


def _diamond_history_sig(case, obs, fail):
    spec = _spec(case)
    if spec is None or case.get("op") != "doc.history" or "query" not in fail or fail.get("clause") not in CLAUSES:
        return False
    by = {c["name"]: c for c in spec["classes"]}
    cls = by[fail["cls"]]
    if not cls.get("mro") or "," not in (cls["base"] or ""):
        return False
    for earlier, _ in spec["queries"][: fail["query"]]:
        e = by[earlier]
        if earlier != cls["name"] and e.get("mro") and "," in (e["base"] or "") and cls["name"] in e["mro"]:
            # the failing class served as the accumulator of an earlier look-up of the diamond class: its cached
            # record now holds the diamond class's answer
            f = fail["field"]
            has = [n for n in e["mro"] if any(b["name"] == f for b in by[n]["blocks"]) or provided(by[n], f, "cls")]
            if has and has[0] == cls["name"]:
                e_spec = dict(spec, target=earlier)
                exp = expected_help(e_spec, f) if fail["kind"] == "help" else expected_kind(e_spec, f, fail["kind"])
                if fail.get("got") == exp and exp != fail.get("exp"):
                    return True
        if earlier != cls["name"] and earlier in cls["mro"] and e.get("mro"):
            # what the extractor answers once `earlier`'s cached record already carries its own bases' texts
            alt = []
            for n in cls["mro"]:
                for k in (e["mro"] if n == earlier else [n]):
                    if k not in alt:
                        alt.append(k)
            alt_spec = dict(spec, target=cls["name"], classes=[dict(c, mro=alt) if c["name"] == cls["name"] else c
                                                              for c in spec["classes"]])
            exp = expected_help(alt_spec, fail["field"]) if fail["kind"] == "help" else expected_kind(alt_spec, fail["field"], fail["kind"])
            if fail.get("got") == exp and exp != fail.get("exp"):
                return True
    return False


def _below_multiline_sig(case, obs, fail):
    spec = _sub(case, fail)
    if spec is None or fail.get("clause") not in ("nearest-provider", "precedence") or fail.get("kind") not in ("below", "help"):
        return False
    f = fail.get("field")
    alt = _without_multiline_below(spec)
    if alt is None or not any(b["name"] == f and b.get("multiline") and b["below"] for c in chain_of(spec) for b in c["blocks"]):
        return False
    # what is observed is exactly what the layout documents once the docstrings below multi-line definitions are ignored
    exp = expected_help(alt, f) if fail["kind"] == "help" else expected_kind(alt, f, "below")
    return fail.get("got") == exp and exp != fail.get("exp")


FINDINGS = {
    "C19-docstring-below-multiline": _below_multiline_sig,
    "C19-classdoc-escape": _classdoc_escape_sig,
    "C19-docstring-colon": _docstring_colon_sig,
    "C19-multiline-header": _multiline_header_sig,
    "C19-method-local": _method_local_sig,
    "C19-diamond-history": _diamond_history_sig,
}

MANIFEST = {
    "text": ("Proof on the layout grammar (partial: six open findings with witnesses and named exclusions). PROVED for all "
             "inputs (Lean, line-scanner model of docstring.py): on every class source that splits into header lines and "
             "well-formed field blocks the scan for a name returns exactly the documentation of the block of that name "
             "(arbitrary inline text, punctuation in comments and docstrings, prefix-related names, comments on class / "
             "decorator lines, '#' in string defaults) and nothing when there is no such block; over an MRO of such classes "
             "each kind comes from the nearest class that provides it (class-docstring entries also from subclasses that only "
             "document an inherited field); the help of a field is a function of its help=, and per class of the blocks named "
             "like it and the entries for it; help= > docstring below > comment above > inline comment > class-docstring "
             "entry; no documentation anywhere gives no help text; on linear chains the in-place merge into the lru_cache'd "
             "record is invisible for every sequence of look-ups. SPECIFICATION ONLY (definitional, sampled by doc.help): "
             "c19_precedence_custom/_meta. SAMPLED (correspondence ops on generated real modules + the property's own "
             "statement on every observation, including the --help text and look-up histories): that real sources split as "
             "the layout says (op doc.layout), inspect.getsource / docstring_parser / dataclasses behaviour, everything "
             "outside Block.wf (exponent literals, backslash strings, lambda/dict defaults: answered unmodelled or not "
             "generated), nested / tab-indented classes."),
    "note": ("Trusted: Lean kernel + standard axioms; inspect.getsource, docstring_parser, dataclasses (observed and passed to "
             "the model as parameters); the harness. Modelled not verified: docstring.py:34-392, field_wrapper.py:888-905 on "
             "ASCII sources. The tokenizer-based inline-comment extraction is modelled as 'first # outside a string literal'; "
             "other definition lines are answered `unmodelled` and counted. Open findings: class docstring with an escape "
             "sequence is not removed; `name: text` line inside a multi-line field docstring; comment inside a multi-line "
             "class header; annotated local of a method; diamond hierarchies answer history-dependently; the docstring below a "
             "definition that is spread over several lines is not found."),
    "technique": "Lean 4 induction over source-line blocks + differential correspondence on generated modules",
    "design_ref": "DESIGN.md section 5, C19",
}
