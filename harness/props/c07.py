"""C07 — a subgroup / sub-command choice selects the type, its defaults and its options."""
from __future__ import annotations

import argparse
import copy
import dataclasses
import functools
from typing import Any, Union

from harness.core import sp

PID = "C07"
RULE = ("a case is a tree of dataclasses: every class has 0-2 int/str leaf fields, sometimes a cmd=False field (no "
        "option; partial / instance entries bind it to a value that differs from the class default) and (down to depth "
        "3) 0-3 subgroup fields (1-3 at the root), each a dict of 1-3 alternatives that are dataclass types, "
        "functools.partial objects (keywords on a subset of the leaves) or frozen instances (also instances whose "
        "class has a REQUIRED nested subgroup, given the value of one of its entries); sibling alternatives share field "
        "names, 30% of the trees also reuse names across levels (clashes, resolved by the conflict resolver); command "
        "line = `--opt value` / `--opt=value` pairs built from the options of a random selection: subgroup keys (given "
        "or left to the declared default), a subset of the selected leaves overridden (4% with a leading-dash value), "
        "plus options of unselected alternatives, unknown keys, unknown options, abbreviations, non-integer values, the "
        "same option twice with DIFFERENT values (another key / another token: last occurrence wins). Every parse uses "
        "a fresh parser (D9 belongs to C08). Non-trivial = >= 1 subgroup key given or >= 1 leaf overridden on a tree of "
        "depth >= 2, or an unknown-key / foreign-option line; distinct by canonical JSON. Oracle paths (tagged): strict "
        "tree-recursive expectation on statically clash-free trees (any mode); on the others the real parser's own "
        "option table judges accepted parses under AUTO, and a rejection by the main parse is judged with the table of "
        "a set-up-only probe (oracle:reject-judged-by-probe); rejections by the rounds themselves on clash trees and "
        "clash trees under EXPLICIT/NONE are left to the correspondence ops (oracle:*unjudged*). A model answer "
        "`unmodelled` on a well-shaped case counts as a mismatch. A second stream drives Union[A, B] sub-command "
        "fields end-to-end (real code + oracle only; default and dash-variant settings on underscore-free names); a "
        "third compares the outcome-level argparse model with the real argparse on random tables; a stream of modelled trees puts ONE leaf name at three depths "
        "among the selected groups with the deep branch declared first and overrides each clashing leaf through the "
        "option AUTO resolution gives it (stated in the case, judged by the strict expectation); a fourth (sg.mixed, "
        "real code + oracle only) builds a parent with subgroup fields AND a Union sub-command field whose dataclasses "
        "have subgroup fields of their own (distinct names, default settings; 30% parsed into a namespace that already "
        "carries a `subgroups` report): value, and namespace.subgroups = the chosen key of every subgroup of the parent "
        "and of the chosen sub-command's dataclass, earlier keys kept.")
ASSUMPTIONS = [
    "argparse on `--opt value` pairs: exact option match first, unique-prefix abbreviation when allow_abbrev, last "
    "occurrence wins, type/choices/required/unrecognized errors exit with status 2 (checked by op sg.parse)",
    "functools.partial keyword override and dataclasses.replace behave as documented",
    "field names are dot-free identifiers of length >= 2 (no single-dash options)",
]
TRUSTED = ["stdlib argparse, functools, dataclasses", "harness construction of real dataclasses from the JSON tree (c07.build_class)"]
EXHAUSTIVE = {"quick": False, "thorough": False}
THOROUGH_ROUNDS = 3   # thorough tier: this many generator passes with derived PRNG states (vcheck)
MANIFEST = {
    "text": ("Proof (partial). Lean theorems over a model of the rounds of _resolve_subgroups (any nesting depth, induction "
             "on the number of rounds) and of the main parse: every resolved subgroup's key is the last value given under "
             "an option registered for it — one of that subgroup's keys — else its declared default key (c07_select, "
             "c07_select_run); the key's entry is the one whose class is wrapped and instantiated at the destination "
             "(Chosen); after the rounds every field wrapper is, up to its conflict prefix, a field of the root or of a "
             "CHOSEN entry, so wrappers of unchosen alternatives are never created (c07_origin, invariant of `round`), with "
             "the partial keyword / instance attribute as default where there is one (c07_value_defaults, "
             "c07_value_hidden); destinations are unique for well-formed trees (c07_dests_nodup), hence each leaf's value "
             "is read off its own action: converted last value passed under an option addressing it, else that default, "
             "one leaf per active plain field and no other (c07_value_exact, c07_leaf_value); an unknown key ends "
             "parse_args with status 2 whether the choice parser or only the main parser reads the option "
             "(c07_unknown_key_run, c07_unknown_key_main_run); an option addressing no active field is rejected "
             "(c07_foreign_run); namespace.subgroups equals the chosen keys when no option is abbreviated and option "
             "strings did not change after registration (c07_reports_partial). Named gaps: the unconditional 'reports' "
             "statement is refuted (witness `--mod kb`); a frozen-instance alternative whose class has a defaulted "
             "subgroup field crashes with AssertionError (witness); EXPLICIT can crash with ArgumentError (witness); "
             "ACCEPTANCE of a valid command line is not proved (all value theorems are 'if it returns'; oracle clause "
             "`accepts` + correspondence); the round loop's fuel (depth+1) is not proved sufficient (an `unmodelled` "
             "model answer on a well-shaped case is a mismatch); stability of option strings across rounds under name "
             "clashes is not proved (correspondence). Union[A,B] sub-commands use argparse sub-parsers, which are not "
             "modelled: that clause is checked end-to-end on the real code only."),
    "note": ("Trusted: Lean kernel + standard axioms; argparse modelled at outcome level on `--opt value` pairs and tied "
             "to the real argparse by op sg.parse; the conflict resolver and option naming are the C03/C10 models, "
             "reused. Modelled not verified: parsing.py:546-584,629-822, dataclass_wrapper.py:72-190, "
             "field_wrapper.py:231-276,714-736,802-807. Sub-parsers (field_wrapper.py:1001-1034): oracle only. On clash "
             "trees the oracle reads option names from the real parser's own table."),
    "technique": "Lean 4 induction over resolution rounds + differential check of _resolve_subgroups / parse_args",
    "design_ref": "DESIGN.md section 5, C07",
}

DEFAULT_CFG = {"dash": "UNDERSCORE", "gen": "FLAT", "nest": "DEFAULT"}

# ------------------------------------------------------------------------------------------------
# building real classes from the JSON tree


def pyval(v):
    if v is None:
        return None
    return int(v["v"]) if v["t"] == "int" else v["v"]


def build_class(spec: dict, extra_fields=()):
    """Real dataclass for one node of the tree (fresh class objects for every node)."""
    from simple_parsing import subgroups

    fields = []
    for f in spec["fields"]:
        if f["k"] == "hidden":
            from simple_parsing.helpers import field as sp_field

            fields.append((f["name"], int if f["ty"] == "int" else str, sp_field(default=pyval(f["default"]), cmd=False)))
        elif f["k"] == "leaf":
            ty = int if f["ty"] == "int" else str
            if f.get("default") is None:
                fields.append((f["name"], ty))
            else:
                fields.append((f["name"], ty, dataclasses.field(default=pyval(f["default"]))))
        else:
            d: dict[str, Any] = {}
            classes = []
            for a in f["alts"]:
                cls = build_class(a["cls"])
                classes.append(cls)
                kw = {k: pyval(v) for k, v in a["kw"]}
                if a["kind"] == "type":
                    d[a["key"]] = cls
                elif a["kind"] == "partial":
                    d[a["key"]] = functools.partial(cls, **kw)
                else:
                    # attributes of the instance for its REQUIRED subgroup fields: what the named entry produces
                    for sub_name, sub_key in a.get("inst_subs", []):
                        entry = cls.__dataclass_fields__[sub_name].metadata["subgroups"][sub_key]
                        kw[sub_name] = entry() if callable(entry) else entry
                    d[a["key"]] = cls(**kw)
            ann = Union[tuple(classes)] if len(classes) > 1 else classes[0]
            if f.get("default") is None:
                fields.append((f["name"], ann, subgroups(d)))
            else:
                fields.append((f["name"], ann, subgroups(d, default=f["default"])))
    # required fields first is NOT needed: make_dataclass with kw_only avoids the ordering constraint
    fields += list(extra_fields)
    return dataclasses.make_dataclass(spec["name"], fields, frozen=bool(spec.get("frozen")), kw_only=True,
                                      module="c07_dynamic")


def tokens(case: dict) -> list[str]:
    out = []
    forms = case.get("forms") or []
    for i, (o, v) in enumerate(case["argv"]):
        if i < len(forms) and forms[i] == "eq":
            out.append(f"{o}={v}")
        else:
            out += [o, v]
    return out


def flatten_instance(obj, dest: str, leaves: dict, classes: dict):
    for f in dataclasses.fields(obj):
        v = getattr(obj, f.name)
        d = f"{dest}.{f.name}"
        if dataclasses.is_dataclass(v) and not isinstance(v, type):
            classes[d] = type(v).__name__
            flatten_instance(v, d, leaves, classes)
        else:
            leaves[d] = sp.cv(v)


def field_table(parser) -> list[list]:
    from simple_parsing.parsing import _flatten_wrappers

    out = []
    for w in _flatten_wrappers(parser._wrappers):
        for f in w.fields:
            out.append([f.dest, sorted(f.option_strings), bool(f.is_subgroup)])
    return out


def probe_table(c: dict, argv: list[str]):
    """After a rejected parse: run only the set-up (`_preprocessing`: the subgroup rounds + add_arguments) of a FRESH
    parser on the same command line. Returns None when the rounds themselves reject it, else the final option table
    with the `required` flag of every field (the oracle judges a wrongful rejection by the main parse with it)."""
    from simple_parsing.parsing import _flatten_wrappers

    sp.reset_globals()
    Root = build_class(c["root"])
    parser = sp.make_parser(dict(c["cfg"], cr=c["mode"]))
    parser.add_arguments(Root, dest=c["dest"])
    r = sp.run_outcome(lambda: parser._preprocessing(args=list(argv), namespace=argparse.Namespace()))
    if r["o"] != "ok":
        return None
    out = []
    for w in _flatten_wrappers(parser._wrappers):
        for f in w.fields:
            out.append([f.dest, sorted(f.option_strings), bool(f.is_subgroup), bool(f.arg_options.get("required"))])
    return out


# ------------------------------------------------------------------------------------------------
# impl


def impl_e2e(c: dict) -> dict:
    sp.reset_globals()
    Root = build_class(c["root"])
    parser = sp.make_parser(dict(c["cfg"], cr=c["mode"]))
    parser.add_arguments(Root, dest=c["dest"])
    argv = tokens(c)
    r = sp.run_outcome(lambda: parser.parse_args(argv))
    if r["o"] == "ok":
        ns = r.pop("value")
        inst = getattr(ns, c["dest"])
        leaves, classes = {}, {}
        flatten_instance(inst, c["dest"], leaves, classes)
        sub = getattr(ns, "subgroups", None)
        r.update(leaves=leaves, classes=classes,
                 subgroups=None if sub is None else {k: sp.cv(v) for k, v in sub.items()},
                 extra_ns=sorted(k for k in vars(ns) if k not in (c["dest"], "subgroups")),
                 table=field_table(parser))
    elif r["o"] == "raise":
        r.pop("msg", None)
    else:
        r = {"o": "exit", "code": r["code"], "kind": r.get("kind")}
        if r["code"] == 2:
            r["probe"] = probe_table(c, argv)
    sp.reset_globals()
    return r


def impl_rounds(c: dict) -> dict:
    from simple_parsing.parsing import _flatten_wrappers

    sp.reset_globals()
    Root = build_class(c["root"])
    parser = sp.make_parser(dict(c["cfg"], cr=c["mode"]))
    parser.add_arguments(Root, dest=c["dest"])
    argv = tokens(c)

    def go():
        wrappers = parser._conflict_resolver.resolve_and_flatten(parser._wrappers.copy())
        return parser._resolve_subgroups(wrappers=wrappers, args=list(argv), namespace=None)

    r = sp.run_outcome(go)
    if r["o"] == "ok":
        wrappers, chosen = r.pop("value")
        fields = []
        for w in _flatten_wrappers(wrappers):
            for f in w.fields:
                d = f.default
                if dataclasses.is_dataclass(d) and not isinstance(d, type):
                    dv = {"t": "forced-instance"}     # the enclosing frozen instance's attribute, pushed as default
                else:
                    dv = None if (d is None or d is dataclasses.MISSING) else sp.cv(d)
                fields.append([f.dest, sorted(f.option_strings), dv])
        r.update(resolved=[[k, v] for k, v in chosen.items()], fields=fields)
    elif r["o"] == "raise":
        r.pop("msg", None)
    else:
        r = {"o": "exit", "code": r["code"]}
    sp.reset_globals()
    return r


def impl_parse(c: dict) -> dict:
    p = argparse.ArgumentParser(add_help=False, allow_abbrev=c["abbrev"])
    for a in c["table"]:
        kw: dict[str, Any] = dict(dest=a["dest"], required=a["required"],
                                  type=int if a["conv"]["k"] == "int" else str,
                                  default=pyval(a.get("default")))
        if a.get("choices") is not None:
            kw["choices"] = a["choices"]
        p.add_argument(*a["opts"], **kw)
    argv = tokens(c)

    def go():
        if c["strict"]:
            return vars(p.parse_args(argv))
        return vars(p.parse_known_args(argv)[0])

    r = sp.run_outcome(go)
    if r["o"] == "ok":
        return {"o": "ok", "ns": {k: sp.cv(v) for k, v in r["value"].items()}}
    if r["o"] == "exit":
        return {"o": "exit", "code": r["code"]}
    return {"o": "raise", "exc": r["exc"]}


def build_union_root(c: dict):
    classes = {}
    for spec in c["cmds"]:
        classes[spec["name"]] = build_class(spec)
    ann = Union[tuple(classes.values())]
    fields = []
    for f in c["root_leaves"]:
        fields.append((f["name"], int if f["ty"] == "int" else str, dataclasses.field(default=pyval(f["default"]))))
    if c.get("cmd_default"):
        fields.append((c["cmd_field"], ann, dataclasses.field(default_factory=classes[c["cmd_default"]])))
    else:
        fields.append((c["cmd_field"], ann))
    return dataclasses.make_dataclass("Prog", fields, kw_only=True, module="c07_dynamic"), classes


def impl_union(c: dict) -> dict:
    sp.reset_globals()
    Root, _ = build_union_root(c)
    parser = sp.make_parser(dict(c.get("cfg") or DEFAULT_CFG, cr=c.get("mode", "AUTO")))
    parser.add_arguments(Root, dest="prog")
    argv = list(c["tokens"])
    r = sp.run_outcome(lambda: parser.parse_args(argv))
    if r["o"] == "ok":
        ns = r.pop("value")
        inst = getattr(ns, "prog")
        leaves, classes = {}, {}
        flatten_instance(inst, "prog", leaves, classes)
        r.update(leaves=leaves, classes=classes, extra_ns=sorted(k for k in vars(ns) if k != "prog"))
    elif r["o"] == "raise":
        r.pop("msg", None)
    else:
        r = {"o": "exit", "code": r["code"], "kind": r.get("kind")}
    sp.reset_globals()
    return r


def pair_tokens(pairs, forms=None) -> list[str]:
    return tokens({"argv": pairs, "forms": forms or []})


def impl_mixed(c: dict) -> dict:
    """A parent dataclass with subgroup field(s) AND a Union[A, B] sub-command field whose dataclasses have subgroup
    fields of their own; optionally parsed into a namespace that already carries a `subgroups` report."""
    sp.reset_globals()
    cmd_classes = {spec["name"]: build_class(spec) for spec in c["cmds"]}
    ann = Union[tuple(cmd_classes.values())]
    if c.get("cmd_default"):
        cmd_field = ("cmd", ann, dataclasses.field(default_factory=cmd_classes[c["cmd_default"]]))
    else:
        cmd_field = ("cmd", ann)
    Root = build_class(c["root"], extra_fields=[cmd_field])
    parser = sp.make_parser(DEFAULT_CFG)
    parser.add_arguments(Root, dest="top")
    argv = pair_tokens(c["root_argv"]) + ([c["token"]] if c.get("token") else []) + pair_tokens(c["cmd_argv"])
    pre = None
    if c.get("pre_ns"):
        pre = argparse.Namespace(subgroups={"other.x": "k0", "other.y": "k1"}, keep=1)
    r = sp.run_outcome(lambda: parser.parse_args(argv, pre) if pre is not None else parser.parse_args(argv))
    if r["o"] == "ok":
        ns = r.pop("value")
        leaves, classes = {}, {}
        flatten_instance(getattr(ns, "top"), "top", leaves, classes)
        sub = getattr(ns, "subgroups", None)
        r.update(leaves=leaves, classes=classes,
                 subgroups=None if sub is None else {k: sp.cv(v) for k, v in sub.items()},
                 extra_ns=sorted(k for k in vars(ns) if k not in ("top", "subgroups")))
    elif r["o"] == "raise":
        r.pop("msg", None)
    else:
        r = {"o": "exit", "code": r["code"], "kind": r.get("kind")}
    sp.reset_globals()
    return r


def impl(case):
    op = case["op"]
    c = case["case"]
    if op == "sg.e2e":
        return impl_e2e(c)
    if op == "sg.rounds":
        return impl_rounds(c)
    if op == "sg.parse":
        return impl_parse(c)
    if op == "sg.union":
        return impl_union(c)
    if op == "sg.mixed":
        return impl_mixed(c)
    raise ValueError(op)


def project(case, obs):
    if case["op"] == "sg.e2e":
        if obs["o"] == "ok":
            return {"o": "ok", "leaves": obs["leaves"], "classes": obs["classes"], "subgroups": obs["subgroups"] or {}}
        if obs["o"] == "exit":
            return {"o": "exit", "code": obs["code"]}
        return {"o": "raise", "exc": obs["exc"]}
    if case["op"] == "sg.rounds":
        if obs["o"] == "raise":
            return {"o": "raise", "exc": obs["exc"]}
        return obs
    return obs


def model_unmodelled(mo):
    return isinstance(mo, dict) and mo.get("o") == "unmodelled"


def well_shaped(c: dict) -> bool:
    """the modelled fragment of command lines (Model/Subgroups.pairOk) and of trees (field names of length >= 2,
    not starting with `h`: no single-dash options, no abbreviation of --help)"""
    for o, v in c["argv"]:
        if not (o.startswith("--") and len(o) > 2 and " " not in o and "=" not in o and not "--help".startswith(o)
                and not v.startswith("-") and v != "" and v.isascii()):
            return False

    def names_ok(cls):
        for f in cls["fields"]:
            if f["k"] != "hidden" and (len(f["name"]) < 2 or f["name"].startswith("h")):
                return False
            if f["k"] == "sub" and not all(names_ok(a["cls"]) for a in f["alts"]):
                return False
        return True
    return names_ok(c["root"])


def project_model(case, mo):
    # The model's round loop has fuel depth+1 and answers `unmodelled` when that runs out (not proved impossible):
    # on a well-shaped case an `unmodelled` answer is therefore NOT excused but reported as a disagreement.
    if case["op"] in ("sg.e2e", "sg.rounds") and model_unmodelled(mo) and well_shaped(case["case"]):
        return {"o": "unmodelled-on-a-modelled-input"}
    return mo


# ------------------------------------------------------------------------------------------------
# oracle: the property stated directly (tree-recursive, depth-first; no rounds, no conflict resolver)


class Reject(Exception):
    pass


def conv(ty: str, tok: str):
    if ty == "int":
        try:
            return sp.cv(int(tok))
        except ValueError:
            raise Reject("bad int")
    return sp.cv(tok)


def alt_default(alt: dict, leaf: dict):
    """what the chosen entry produces for this leaf when nothing is passed"""
    for k, v in alt["kw"]:
        if k == leaf["name"]:
            return v
    return leaf.get("default")


def expect_tree(c: dict, hyp_abbrev_selects: bool, opt_of):
    """Expected result under naming `opt_of(dest, name) -> option string`; raises Reject when the property demands
    a rejection. Returns (leaves, classes, subgroups, active option strings)."""
    argv = c["argv"]
    leaves, classes, subs = {}, {}, {}
    active: dict[str, tuple] = {}     # option string -> (dest, kind)

    def declare(cls, dest, kwalt):
        # first pass: names of this class
        for f in cls["fields"]:
            if f["k"] == "hidden":
                continue          # cmd=False: no option exists for it
            d = f"{dest}.{f['name']}"
            o = opt_of(d, f["name"])
            if o in active:
                raise KeyError("clash")
            active[o] = (d, f)
        return

    # The selection has to be computed top-down: a subgroup's key decides which fields exist below it.
    def given_for(o, is_sub):
        """last value passed under option o (exact; abbreviations judged once all active options are known)"""
        val = None
        for (a, v) in argv:
            if a == o:
                val = v
        return val

    pending_abbrev_subs = []

    def walk(cls, dest, alt):
        declare(cls, dest, alt)
        for f in cls["fields"]:
            d = f"{dest}.{f['name']}"
            o = opt_of(d, f["name"])
            if f["k"] != "sub":
                continue
            keys = [a["key"] for a in f["alts"]]
            g = given_for(o, True)
            if g is None and hyp_abbrev_selects:
                # an abbreviation of this option (judged later for uniqueness)
                for (a, v) in argv:
                    if a != o and o.startswith(a):
                        g = v
                        pending_abbrev_subs.append((a, o))
            if g is None:
                if f.get("default") is None:
                    raise Reject("required subgroup")
                g = f["default"]
            if g not in keys:
                raise Reject("unknown key")
            chosen = next(a for a in f["alts"] if a["key"] == g)
            subs[d] = sp.cv(g)
            classes[d] = chosen["cls"]["name"]
            walk(chosen["cls"], d, chosen)

    root_alt = {"kw": [], "kind": "type"}
    walk(c["root"], c["dest"], root_alt)

    # every pair must address an active option: exactly, or as the unique prefix of one
    def address(a):
        if a in active:
            return a
        m = [o for o in active if o.startswith(a)]
        if len(m) == 1:
            return m[0]
        raise Reject("ambiguous" if m else "unrecognized")

    addressed = [(address(a), v) for (a, v) in argv]
    for (a, o) in pending_abbrev_subs:
        if address(a) != o:
            raise KeyError("abbreviation hypothesis inconsistent")

    # values: the chosen entry's defaults overridden by exactly the options passed for it
    def fill(cls, dest, alt):
        for f in cls["fields"]:
            d = f"{dest}.{f['name']}"
            o = opt_of(d, f["name"])
            if f["k"] == "hidden":
                leaves[d] = alt_default(alt, f)      # what the chosen entry itself produces
            elif f["k"] == "leaf":
                val = None
                for (ao, v) in addressed:
                    if ao == o:
                        val = conv(f["ty"], v)
                if val is None:
                    dv = alt_default(alt, f)
                    if dv is None:
                        raise Reject("required leaf")
                    val = dv
                leaves[d] = val
            else:
                for (ao, v) in addressed:
                    if ao == o and v not in [a["key"] for a in f["alts"]]:
                        raise Reject("unknown key")
                chosen = next(a for a in f["alts"] if a["key"] == subs[d]["v"])
                fill(chosen["cls"], d, chosen)

    fill(c["root"], c["dest"], root_alt)
    return leaves, classes, subs


def naming_for(c: dict):
    cfg = c["cfg"]
    if cfg["dash"] != "UNDERSCORE":
        return None
    if c.get("opt_map") and cfg["gen"] == "FLAT":
        # the deep-first-clash shape: the case states which option AUTO resolution gives each clashing leaf (least
        # nested keeps the bare name, the deeper ones get the name of the field that holds them) — independent of the
        # parser under test; a wrong statement would show up as a failure on the clean tree
        om = c["opt_map"]
        return lambda d, n: om.get(d, "--" + n)
    if cfg["gen"] == "FLAT":
        return lambda d, n: "--" + n
    if cfg["gen"] == "NESTED":
        if cfg["nest"] == "DEFAULT":
            return lambda d, n: "--" + d
        return lambda d, n: "--" + ".".join(d.split(".")[1:])
    return None


def clash_possible(c: dict, opt_of) -> bool:
    """two fields that can be active together (not under different entries of one subgroup) would get the same
    option string under the plain naming `opt_of` — then the conflict resolver renames options and the plain
    expectation does not apply"""
    seen: dict[str, list[dict]] = {}

    def walk(cls, dest, path):
        for f in cls["fields"]:
            d = f"{dest}.{f['name']}"
            if f["k"] == "hidden":
                continue
            seen.setdefault(opt_of(d, f["name"]), []).append(path)
            if f["k"] == "sub":
                for a in f["alts"]:
                    walk(a["cls"], d, dict(path, **{d: a["key"]}))
    walk(c["root"], c["dest"], {})
    for paths in seen.values():
        for i in range(len(paths)):
            for j in range(i + 1, len(paths)):
                p, q = paths[i], paths[j]
                if not any(k in q and q[k] != v for k, v in p.items()):
                    return True
    return False


def abbrev_sub_dests(c: dict, obs) -> set:
    """destinations of the subgroups one of whose option strings is abbreviated on the command line (the passed
    option is a strict prefix of it and not itself a registered option)"""
    out = set()
    if obs.get("o") != "ok":
        return out
    allopts = {o for (_, opts, _) in obs["table"] for o in opts}
    for (a, _) in c["argv"]:
        if a in allopts:
            continue
        for (d, opts, is_sub) in obs["table"]:
            if is_sub and any(o.startswith(a) for o in opts):
                out.add(d)
    return out


def abbrev_key_signature(c: dict, obs, fail) -> bool:
    """every destination the failure is about is an abbreviated subgroup's destination or lies below it"""
    ds = abbrev_sub_dests(c, obs)
    dests = fail.get("dests")
    if not ds or not dests:
        return False
    return all(any(x == d or x.startswith(d + ".") for d in ds) for x in dests)


def tree_valid_pairs(c: dict) -> bool:
    return all(o.startswith("--") and len(o) > 2 and not v.startswith("-") and v != "" for o, v in c["argv"])


def oracle_e2e(c: dict, obs: dict) -> list[dict]:
    fails = []
    if obs["o"] == "raise":
        if c["mode"] != "AUTO" and obs["exc"] == "ConflictResolutionError":
            return []      # an unresolvable clash under NONE / EXPLICIT is C03's subject
        return [{"clause": "value", "detail": f"parse_args raised {obs['exc']} on a valid subgroup tree"}]
    if obs["o"] == "exit" and obs["code"] != 2:
        return [{"clause": "rejects", "detail": f"exit status {obs['code']}"}]
    naming = naming_for(c)
    expected = None
    if naming is not None and not clash_possible(c, naming):
        outcomes = []
        for hyp in (False, True):
            try:
                outcomes.append(("ok", expect_tree(c, hyp, naming)))
            except Reject as r:
                outcomes.append(("reject", str(r)))
            except KeyError:
                outcomes.append(("clash", None))
        if all(k != "clash" for k, _ in outcomes):
            expected = outcomes
    if expected is not None:
        def matches(e):
            kind, payload = e
            if kind == "reject":
                return obs["o"] == "exit"
            leaves, classes, subs = payload
            return (obs["o"] == "ok" and obs["leaves"] == leaves and obs["classes"] == classes
                    and (obs["subgroups"] or {}) == subs)
        if not any(matches(e) for e in expected):
            e0 = expected[0]
            if e0[0] == "reject":
                clause = {"unknown key": "unknown_key", "unrecognized": "foreign", "ambiguous": "foreign"}.get(e0[1], "rejects")
                detail = f"the property demands a rejection ({e0[1]}) but the parse returned normally"
            elif obs["o"] == "exit":
                clause, detail = "accepts", "a command line made of the selected groups' own options was rejected"
            else:
                leaves, classes, subs = e0[1]
                osubs = obs["subgroups"] or {}
                diff_dests = sorted({k for k in set(classes) | set(obs["classes"]) if classes.get(k) != obs["classes"].get(k)}
                                    | {k for k in set(leaves) | set(obs["leaves"]) if leaves.get(k) != obs["leaves"].get(k)}
                                    | {k for k in set(subs) | set(osubs) if subs.get(k) != osubs.get(k)})
                if obs["classes"] != classes:
                    clause = "select"
                    detail = f"classes {obs['classes']} expected {classes}"
                elif obs["leaves"] != leaves:
                    clause = "value"
                    diff = {k: (obs["leaves"].get(k), leaves.get(k)) for k in set(leaves) | set(obs["leaves"])
                            if obs["leaves"].get(k) != leaves.get(k)}
                    detail = f"leaves differ (observed, expected): {diff}"
                else:
                    clause = "reports"
                    detail = f"namespace.subgroups {obs['subgroups']} expected {subs}"
            fail = {"clause": clause, "detail": detail}
            if e0[0] == "ok" and obs["o"] == "ok":
                fail["dests"] = diff_dests
            fails.append(fail)
        return fails
    # name clashes (or a dash/BOTH spelling): judge with the real parser's own option table
    if obs["o"] != "ok":
        probe = obs.get("probe")
        if c["mode"] != "AUTO" or probe is None:
            return []          # rejected by the rounds themselves (no table to read), or a non-default mode
        # The rounds accepted the line and the main parse rejected it. That is justified only if some option is not an
        # exact option string of the final table, a subgroup value is not a key, an int does not convert, or a
        # required field got no value.
        owner = {o: (d, is_sub) for (d, opts, is_sub, _) in probe for o in opts}
        info: dict[str, dict] = {}

        opts_of = {d: opts for (d, opts, _, _) in probe}

        def collect(cls, dest) -> bool:
            """the fields of the SELECTED entries (key = last value under an exact option of the subgroup, else its
            declared default); False when the selection cannot be read off"""
            for f in cls["fields"]:
                d = f"{dest}.{f['name']}"
                if f["k"] == "hidden":
                    continue
                info[d] = f
                if f["k"] == "sub":
                    vals = [v for (a, v) in c["argv"] if a in opts_of.get(d, [])]
                    key = vals[-1] if vals else f.get("default")
                    ch = next((a for a in f["alts"] if a["key"] == key), None)
                    if ch is None or not collect(ch["cls"], d):
                        return False
            return True
        if not collect(c["root"], c["dest"]) or set(info) != set(opts_of):
            return []
        given = set()
        for (a, v) in c["argv"]:
            if a not in owner:
                return []
            d, is_sub = owner[a]
            f = info.get(d)
            if f is None:
                return []
            given.add(d)
            if f["k"] == "sub" and v not in [x["key"] for x in f["alts"]]:
                return []
            if f["k"] == "leaf" and f["ty"] == "int":
                try:
                    int(v)
                except ValueError:
                    return []
        if any(req and d not in given for (d, _, _, req) in probe):
            return []
        return [{"clause": "accepts", "detail": "the subgroup rounds accepted the command line, every option is an exact "
                 "option string of the final parser with a valid value, nothing required is missing — and parse_args "
                 "rejected it"}]
    if c["mode"] != "AUTO":
        # EXPLICIT renames options that the choice parser already holds under their old spelling (see the open
        # finding C07-explicit-reregister): which option addressed which subgroup in its round cannot be read off the
        # final table, so clash trees under the non-default modes are left to the correspondence ops
        return []
    table = obs["table"]
    owner = {}
    for (d, opts, is_sub) in table:
        for o in opts:
            owner[o] = d

    def address(a):
        if a in owner:
            return owner[a]
        m = {owner[o] for o in owner if o.startswith(a)}
        ms = [o for o in owner if o.startswith(a)]
        return owner[ms[0]] if len(ms) == 1 else None

    def check(cls, dest, alt):
        for f in cls["fields"]:
            d = f"{dest}.{f['name']}"
            if f["k"] == "hidden":
                if obs["leaves"].get(d) != alt_default(alt, f):
                    fails.append({"clause": "value", "dests": [d],
                                  "detail": f"{d} (cmd=False): observed {obs['leaves'].get(d)} "
                                            f"expected the chosen entry's {alt_default(alt, f)}"})
                continue
            opts = next((o for (dd, o, _) in table if dd == d), None)
            if opts is None:
                fails.append({"clause": "select", "detail": f"no field wrapper for {d}"})
                continue
            passed = [v for (a, v) in c["argv"] if address(a) == d]
            exact = [v for (a, v) in c["argv"] if a in opts]
            if f["k"] == "leaf":
                want = conv(f["ty"], passed[-1]) if passed else alt_default(alt, f)
                if obs["leaves"].get(d) != want:
                    fails.append({"clause": "value", "dests": [d],
                                  "detail": f"{d}: observed {obs['leaves'].get(d)} expected {want}"})
            else:
                keys = [a["key"] for a in f["alts"]]
                cands = []
                if exact:
                    cands.append(exact[-1])
                elif passed:
                    cands += [passed[-1], f.get("default")]
                else:
                    cands.append(f.get("default"))
                ok = False
                for g in cands:
                    if g in keys:
                        ch = next(a for a in f["alts"] if a["key"] == g)
                        if obs["classes"].get(d) == ch["cls"]["name"] and (obs["subgroups"] or {}).get(d) == sp.cv(g):
                            ok = True
                            check(ch["cls"], d, ch)
                            break
                if not ok:
                    clause = "select" if obs["classes"].get(d) not in [next(a for a in f["alts"] if a["key"] == g)["cls"]["name"] for g in cands if g in keys] else "reports"
                    fails.append({"clause": clause, "dests": [d], "detail": f"{d}: class {obs['classes'].get(d)} reported {(obs['subgroups'] or {}).get(d)} candidates {cands}"})
    try:
        for (a, _) in c["argv"]:
            if address(a) is None:
                fails.append({"clause": "foreign", "detail": f"option {a} addresses no active field but was accepted"})
        check(c["root"], c["dest"], {"kw": [], "kind": "type"})
    except Reject as r:
        fails.append({"clause": "rejects", "detail": f"accepted although {r}"})
    return fails[:3]


def oracle_union(c: dict, obs: dict) -> list[dict]:
    if obs["o"] == "raise":
        return [{"clause": "subcommand", "detail": f"raised {obs['exc']}"}]
    toks = c["tokens"]
    names = {spec["name"].lower(): spec for spec in c["cmds"]}
    root_opts = {"--" + f["name"]: f for f in c["root_leaves"]}
    # split at the first token that is not an option/value of the root
    i = 0
    rootvals = {}
    expected_reject = None
    while i < len(toks) and toks[i].startswith("--"):
        if toks[i] in root_opts and i + 1 < len(toks):
            rootvals[toks[i]] = toks[i + 1]
            i += 2
        else:
            expected_reject = "unknown root option"
            break
    leaves, classes = {}, {}
    try:
        if expected_reject:
            raise Reject(expected_reject)
        for o, f in root_opts.items():
            leaves["prog." + f["name"]] = conv(f["ty"], rootvals[o]) if o in rootvals else f["default"]
        d = "prog." + c["cmd_field"]
        if i >= len(toks):
            if not c.get("cmd_default"):
                raise Reject("sub-command required")
            spec = next(s for s in c["cmds"] if s["name"] == c["cmd_default"])
            rest = []
        else:
            if toks[i] not in names:
                raise Reject("unknown sub-command")
            spec = names[toks[i]]
            rest = toks[i + 1:]
        classes[d] = spec["name"]
        own = {"--" + f["name"]: f for f in spec["fields"]}
        vals = {}
        j = 0
        while j < len(rest):
            if rest[j] in own and j + 1 < len(rest):
                vals[rest[j]] = rest[j + 1]
                j += 2
            else:
                raise Reject("option of another group / unknown option")
        for o, f in own.items():
            leaves[d + "." + f["name"]] = conv(f["ty"], vals[o]) if o in vals else f["default"]
    except Reject as r:
        if obs["o"] != "exit" or obs["code"] != 2:
            return [{"clause": "subcommand", "detail": f"expected rejection ({r}), observed {obs['o']}"}]
        return []
    if obs["o"] != "ok":
        return [{"clause": "subcommand", "detail": f"a valid sub-command line was rejected: {toks}"}]
    if obs["classes"] != classes or obs["leaves"] != leaves:
        return [{"clause": "subcommand", "detail": f"observed {obs['classes']} {obs['leaves']} expected {classes} {leaves}"}]
    if obs["extra_ns"]:
        return [{"clause": "subcommand", "detail": f"stray namespace entries {obs['extra_ns']}"}]
    return []


def oracle_mixed(c: dict, obs: dict) -> list[dict]:
    """value + `namespace.subgroups` of a parent that mixes subgroup fields and a Union sub-command field: the report
    holds the chosen key of every subgroup of the parent and of the chosen sub-command's dataclass (clean-tree
    spelling of the latter's destinations: `top.cmd.<field>`); keys already in the namespace are kept."""
    if obs["o"] == "raise":
        return [{"clause": "value", "detail": f"parse_args raised {obs['exc']} on a subgroup + sub-command tree"}]
    plain = lambda d, n: "--" + n   # noqa: E731
    names = {spec["name"].lower(): spec for spec in c["cmds"]}
    strict_report = True
    try:
        leaves, classes, subs = expect_tree({"root": c["root"], "dest": "top", "argv": c["root_argv"]}, False, plain)
        if c.get("token") is None:
            if not c.get("cmd_default"):
                raise Reject("sub-command required")
            spec = next(x for x in c["cmds"] if x["name"] == c["cmd_default"])
            l2, c2, _ = expect_tree({"root": spec, "dest": "top.cmd", "argv": []}, False, plain)
            s2 = {}
            strict_report = False      # the default instance is built, not parsed: its subgroups need not be reported
            if c["cmd_argv"]:
                raise Reject("options without a sub-command")
        else:
            if c["token"] not in names:
                raise Reject("unknown sub-command")
            spec = names[c["token"]]
            l2, c2, s2 = expect_tree({"root": spec, "dest": "top.cmd", "argv": c["cmd_argv"]}, False, plain)
        leaves.update(l2)
        classes.update(c2)
        classes["top.cmd"] = spec["name"]
        subs = dict(subs, **s2)
    except Reject as r:
        if obs["o"] != "exit" or obs["code"] != 2:
            return [{"clause": "rejects", "detail": f"expected a rejection ({r}), observed {obs['o']}"}]
        return []
    except KeyError:
        return []
    if obs["o"] != "ok":
        return [{"clause": "accepts", "detail": "a valid subgroup + sub-command line was rejected"}]
    if obs["classes"] != classes:
        return [{"clause": "select", "detail": f"classes {obs['classes']} expected {classes}"}]
    if obs["leaves"] != leaves:
        diff = {k: (obs["leaves"].get(k), leaves.get(k)) for k in set(leaves) | set(obs["leaves"])
                if obs["leaves"].get(k) != leaves.get(k)}
        return [{"clause": "value", "detail": f"leaves differ (observed, expected): {diff}"}]
    rep = dict(obs["subgroups"] or {})
    if c.get("pre_ns"):
        # argparse copies the sub-parser's namespace — with its own `subgroups` report — over the parent's, so earlier
        # keys survive only when the chosen sub-command reports nothing (observed on the clean tree; not demanded)
        overwritten = c.get("token") is not None and bool(s2)
        for k, v in (("other.x", "k0"), ("other.y", "k1")):
            got = rep.pop(k, None)
            if got != sp.cv(v) and not overwritten:
                return [{"clause": "reports", "detail": f"the key {k} already reported in the namespace was lost: {obs['subgroups']}"}]
        if "keep" not in obs["extra_ns"]:
            return [{"clause": "reports", "detail": "an attribute already in the namespace was lost"}]
    missing = {k: v for k, v in subs.items() if rep.get(k) != v}
    extra = {k: v for k, v in rep.items() if k not in subs}
    if missing or (strict_report and extra):
        return [{"clause": "reports", "detail": f"namespace.subgroups {obs['subgroups']} expected {subs}: "
                                                f"missing/wrong {missing} unexpected {extra}"}]
    return []


def oracle(case, obs):
    if case["op"] == "sg.mixed":
        return oracle_mixed(case["case"], obs)
    if case["op"] == "sg.e2e":
        return oracle_e2e(case["case"], obs)
    if case["op"] == "sg.union":
        return oracle_union(case["case"], obs)
    return []


# ------------------------------------------------------------------------------------------------
# open findings


def chosen_path_has_inst_with_sub(c: dict) -> bool:
    """on a possibly SELECTED path (keys given on the command line under an option spelled `--<name>` / `--….<name>`,
    or the declared default) there is a frozen-instance entry whose class has a subgroup field with a default key"""
    def spelled(o: str, name: str) -> bool:
        for n in (name, name.replace("_", "-")):
            if o == "--" + n or o.endswith("." + n):
                return True
        return False

    def walk(cls):
        for f in cls["fields"]:
            if f["k"] != "sub":
                continue
            keys = [a["key"] for a in f["alts"]]
            given = [v for (o, v) in c["argv"] if spelled(o, f["name"]) and v in keys]
            # whether the real parser read that option under this spelling is not known after a crash:
            # a given key and the declared default are both possible selections
            cands = set(given) | ({f["default"]} if f.get("default") is not None else set())
            for a in f["alts"]:
                if a["key"] not in cands:
                    continue
                if a["kind"] == "inst" and any(g["k"] == "sub" and g.get("default") is not None for g in a["cls"]["fields"]):
                    return True
                if walk(a["cls"]):
                    return True
        return False
    return walk(c["root"])


def sub_name_thrice(c: dict) -> bool:
    """some subgroup-field name occurs at least three times in the tree"""
    cnt: dict[str, int] = {}
    subs = set()

    def walk(cls):
        for f in cls["fields"]:
            cnt[f["name"]] = cnt.get(f["name"], 0) + 1
            if f["k"] == "sub":
                subs.add(f["name"])
                for a in f["alts"]:
                    walk(a["cls"])
    walk(c["root"])
    return any(cnt[n] >= 3 for n in subs)


FINDINGS = {
    "C07-explicit-reregister": lambda case, obs, fail: (
        case["op"] == "sg.e2e" and case["case"]["mode"] == "EXPLICIT" and obs.get("o") == "raise"
        and obs.get("exc") == "ArgumentError" and sub_name_thrice(case["case"])),
    "C07-abbrev-key": lambda case, obs, fail: (
        case["op"] == "sg.e2e" and fail.get("clause") in ("reports", "select", "value")
        and abbrev_key_signature(case["case"], obs, fail)),
    "C07-instance-with-subgroup": lambda case, obs, fail: (
        case["op"] == "sg.e2e" and obs.get("o") == "raise" and obs.get("exc") == "AssertionError"
        and chosen_path_has_inst_with_sub(case["case"])),
}

# ------------------------------------------------------------------------------------------------
# generator

WORDS = ["lr", "mom", "wd", "size", "name", "rate", "dim", "act", "eps", "beta", "seed", "tag"]
SUBWORDS = ["model", "opt", "sched", "enc", "dec", "loss", "data", "aug"]
CLASH_LEAF = ["lr", "lrs", "xx", "model", "opt", "a_b"]
CLASH_SUB = ["model", "opt", "lrs", "mod"]
KEYS = ["ka", "kb", "kc", "adam", "sgd"]


class Names:
    def __init__(self, rng, clash, prefix_free=False):
        self.rng, self.clash, self.n, self.cls_n = rng, clash, 0, 0
        self.prefix_free = prefix_free       # word + three-digit counter: no name is a prefix of another
        self.made: list[str] = []

    def fresh(self, sub: bool) -> str:
        rng = self.rng
        if self.clash:
            return rng.choice(CLASH_SUB if sub else CLASH_LEAF)
        self.n += 1
        if self.prefix_free:
            nm = rng.choice(SUBWORDS if sub else WORDS) + str(100 + self.n)
            self.made.append(nm)
            return nm
        if self.made and rng.random() < 0.15:
            nm = rng.choice(self.made) + rng.choice(["s", "x", "_b"])        # an extension: prefix relations
        else:
            nm = rng.choice(SUBWORDS if sub else WORDS) + (str(self.n) if rng.random() < 0.8 else "")
        if nm in self.made:
            nm = nm + str(self.n)
        self.made.append(nm)
        return nm

    def cls(self) -> str:
        self.cls_n += 1
        return f"K{self.cls_n}"


def rand_scalar(rng, ty):
    if ty == "int":
        return {"t": "int", "v": str(rng.choice([0, 1, 2, 7, 33, 100, -4]))}
    return {"t": "str", "v": rng.choice(["a", "bb", "q1", "zeta", "x y"])}


def entry_constructible(a) -> bool:
    """the entry yields a value without arguments: an instance is one already; a type / partial must have every
    plain field defaulted or bound and every subgroup field default-constructible"""
    if a["kind"] == "inst":
        return True
    given = {k for k, _ in a["kw"]}
    for f in a["cls"]["fields"]:
        if f["k"] == "leaf":
            if f["default"] is None and f["name"] not in given:
                return False
        elif f["k"] == "sub" and not default_constructible(f):
            return False
    return True


def default_constructible(sub_field) -> bool:
    """the field's default entry can be called without arguments (needed to build an enclosing instance)"""
    if sub_field.get("default") is None:
        return False
    a = next(a for a in sub_field["alts"] if a["key"] == sub_field["default"])
    if a["kind"] == "inst":
        return False
    given = {k for k, _ in a["kw"]}
    for f in a["cls"]["fields"]:
        if f["k"] == "leaf":
            if f["default"] is None and f["name"] not in given:
                return False
        elif f["k"] == "sub" and not default_constructible(f):
            return False
    return True


def other_scalar(rng, f):
    """a value of the field's type that differs from the class default"""
    for _ in range(20):
        v = rand_scalar(rng, f["ty"])
        if v != f["default"]:
            return v
    return {"t": "int", "v": "4242"} if f["ty"] == "int" else {"t": "str", "v": "other"}


def gen_cls(rng, names: Names, depth_left: int, pool: list[tuple[str, str]] | None, is_root=False, allow_required=True):
    """pool: (name, ty) leaf candidates shared with the sibling alternatives"""
    fields = []
    used = set()
    n_leaf = rng.choice([0, 1, 1, 2, 2])
    for _ in range(n_leaf):
        if pool and rng.random() < 0.7:
            nm, ty = rng.choice(pool)
        else:
            nm, ty = names.fresh(False), rng.choice(["int", "int", "str"])
            if pool is not None:
                pool.append((nm, ty))
        if nm in used:
            continue
        used.add(nm)
        required = allow_required and rng.random() < 0.08
        fields.append({"k": "leaf", "name": nm, "ty": ty, "default": None if required else rand_scalar(rng, ty)})
    if rng.random() < 0.3:
        nm = names.fresh(False)
        if nm not in used:
            used.add(nm)
            ty = rng.choice(["int", "str"])
            fields.append({"k": "hidden", "name": nm, "ty": ty, "default": rand_scalar(rng, ty)})
    n_sub = 0
    if depth_left > 0:
        n_sub = rng.choice([1, 1, 2, 3]) if is_root else rng.choice([0, 0, 1, 1, 1, 2, 3])
    for _ in range(n_sub):
        nm = names.fresh(True)
        if nm in used:
            continue
        used.add(nm)
        sibling_pool: list[tuple[str, str]] = []
        alts = []
        keys = rng.sample(KEYS, rng.choice([1, 2, 2, 2, 3]))
        for k in keys:
            kind = rng.choice(["type", "type", "partial", "partial", "inst"])
            cls = gen_cls(rng, names, depth_left - 1, sibling_pool, allow_required=(kind != "inst"))
            leaves = [f for f in cls["fields"] if f["k"] in ("leaf", "hidden")]
            kw = []
            if kind == "partial":
                for f in leaves:
                    if rng.random() < 0.6 or f["default"] is None and rng.random() < 0.7:
                        kw.append([f["name"], other_scalar(rng, f) if f["k"] == "hidden" else rand_scalar(rng, f["ty"])])
            elif kind == "inst":
                subs_ = [f for f in cls["fields"] if f["k"] == "sub"]
                # the instance must be constructible: a subgroup field needs a callable default entry, or — when it
                # declares no default (REQUIRED) — the instance is given the value of one of its entries
                inst_subs = []
                ok = True
                for s_ in subs_:
                    if default_constructible(s_):
                        continue
                    cand = [a_["key"] for a_ in s_["alts"] if entry_constructible(a_)] if s_.get("default") is None else []
                    if cand:
                        inst_subs.append([s_["name"], rng.choice(cand)])
                    else:
                        ok = False
                if not ok or (subs_ and not inst_subs and rng.random() < 0.8):
                    kind = "type"
                else:
                    cls["frozen"] = True
                    for f in leaves:
                        kw.append([f["name"], other_scalar(rng, f) if (f["k"] == "hidden" or rng.random() < 0.6) else f["default"]])
            alt = {"key": k, "kind": kind, "kw": kw, "cls": cls}
            if kind == "inst" and inst_subs:
                alt["inst_subs"] = inst_subs
            alts.append(alt)
        default = rng.choice(keys) if rng.random() < 0.85 else None
        fields.append({"k": "sub", "name": nm, "default": default, "alts": alts})
    rng.shuffle(fields)
    return {"name": names.cls(), "fields": fields}


def selection(rng, c_root, dest, opt_of):
    """a random selection of keys + the options it makes available / leaves unavailable"""
    pairs, foreign, depth_used = [], [], [0]
    optinfo: dict[str, dict] = {}

    def walk(cls, d, depth):
        depth_used[0] = max(depth_used[0], depth)
        for f in cls["fields"]:
            dd = f"{d}.{f['name']}"
            o = opt_of(dd, f["name"])
            if f["k"] == "hidden":
                foreign.append([o, f])
                continue
            if f["k"] == "leaf":
                if rng.random() < 0.45 or f["default"] is None and rng.random() < 0.8:
                    v = rng.choice(["5", "12", "77", "0"]) if f["ty"] == "int" else rng.choice(["w", "val", "k9"])
                    if rng.random() < 0.04:     # a value with a leading dash (outside the model's pair shape)
                        v = "-3" if f["ty"] == "int" else rng.choice(["-x", "-7"])
                    pairs.append([o, v])
                    optinfo[o] = f
            else:
                keys = [a["key"] for a in f["alts"]]
                if f.get("default") is None or rng.random() < 0.6:
                    k = rng.choice(keys)
                    pairs.append([o, k])
                    optinfo[o] = f
                else:
                    k = f["default"]
                for a in f["alts"]:
                    if a["key"] == k:
                        walk(a["cls"], dd, depth + 1)
                    else:
                        for g in a["cls"]["fields"]:
                            foreign.append([opt_of(dd + "." + g["name"], g["name"]), g])
    walk(c_root, dest, 1)
    return pairs, foreign, optinfo


def tree_case(rng, tier):
    clash = rng.random() < 0.3
    names = Names(rng, clash)
    depth = rng.choice([1, 2, 2, 3, 3])
    root = gen_cls(rng, names, depth, None, is_root=True)
    if not any(f["k"] == "sub" for f in root["fields"]):
        nm = names.fresh(True)
        while nm in [f["name"] for f in root["fields"]]:
            nm = nm + "z"
        root["fields"].append({"k": "sub", "name": nm, "default": "ka", "alts": [
            {"key": "ka", "kind": "type", "kw": [], "cls": gen_cls(rng, names, 0, [])},
            {"key": "kb", "kind": "type", "kw": [], "cls": gen_cls(rng, names, 0, [])}]})
    root["name"] = "Root"
    r = rng.random()
    if r < 0.75:
        cfg = dict(DEFAULT_CFG)
    elif r < 0.9:
        cfg = {"dash": "UNDERSCORE", "gen": "NESTED", "nest": rng.choice(["DEFAULT", "WITHOUT_ROOT"])}
    else:
        cfg = {"dash": rng.choice(sp.ALL_DASH), "gen": rng.choice(sp.ALL_GEN), "nest": rng.choice(sp.ALL_NEST)}
    mode = "AUTO" if rng.random() < 0.92 else rng.choice(["EXPLICIT", "NONE"])
    dest = rng.choice(["config", "config", "cfg"])
    c = {"cfg": cfg, "mode": mode, "dest": dest, "root": root}
    naming = naming_for(c) or (lambda d, n: "--" + n)
    pairs, foreign, optinfo = selection(rng, root, dest, naming)
    rng.shuffle(pairs)
    kind = rng.random()
    tag = "valid"
    if kind < 0.12 and foreign:
        o, g = rng.choice(foreign)
        v = ("5" if g["ty"] == "int" else "w") if g["k"] in ("leaf", "hidden") else g["alts"][0]["key"]
        pairs.insert(rng.randint(0, len(pairs)), [o, v])
        tag = "foreign"
    elif kind < 0.2:
        subs_ = [p for p in pairs if p[1] in KEYS]
        if subs_:
            rng.choice(subs_)[1] = rng.choice(["zz", "KA", "k"])
            tag = "unknown-key"
    elif kind < 0.25:
        pairs.insert(rng.randint(0, len(pairs)), [rng.choice(["--nope", "--zq", "--config"]), "1"])
        tag = "unknown-option"
    elif kind < 0.32 and pairs:
        p = rng.choice(pairs)
        if len(p[0]) > 4:
            p[0] = p[0][: rng.randint(3, len(p[0]) - 1)]
            tag = "abbrev"
    elif kind < 0.36 and pairs:
        p = rng.choice(pairs)
        p[1] = rng.choice(["x1", "1.5", "w"])
        tag = "maybe-bad-value"
    elif kind < 0.40 and pairs:
        # the same option twice with DIFFERENT values: the last occurrence must win (another key for a subgroup
        # option — which changes the selection below it —, another token for a leaf)
        i = rng.randrange(len(pairs))
        o, v = pairs[i]
        f = optinfo.get(o)
        if f is not None and f["k"] == "sub":
            others = [a["key"] for a in f["alts"] if a["key"] != v] or [v]
            nv = rng.choice(others)
        elif f is not None and f["ty"] == "int":
            nv = rng.choice([x for x in ["5", "12", "77", "0", "41"] if x != v])
        else:
            nv = rng.choice([x for x in ["w", "val", "k9", "other"] if x != v])
        pairs.insert(rng.choice([i, i + 1, len(pairs)]), [o, nv])
        tag = "repeated"
    c["argv"] = pairs
    c["forms"] = [rng.choice(["sp", "sp", "eq"]) for _ in pairs]
    for i, (_, v) in enumerate(pairs):
        if v.startswith("-") and not (v[1:].isdigit() and len(v) > 1):
            c["forms"][i] = "eq"        # `--opt -x` is not a value for argparse; `--opt=-x` is
    c["gtag"] = tag + ("+clash" if clash else "")
    return c


def parse_case(rng):
    base = rng.sample(["--lr", "--lrs", "--model", "--mod", "--a.lr", "--a.lrs", "--opt", "--opt_b", "--xx"], rng.randint(1, 5))
    table = []
    for i, o in enumerate(base):
        ch = rng.random() < 0.4
        opts = [o] + (["--" + o[2:].replace("_", "-")] if "_" in o and rng.random() < 0.5 else [])
        req = rng.random() < 0.2
        ty = "str" if ch else rng.choice(["int", "str"])
        table.append({"opts": opts, "dest": f"d{i}", "kind": "store", "conv": {"k": ty},
                      "choices": ["ka", "kb"] if ch else None, "required": req,
                      "default": None if req else ({"t": "str", "v": "ka"} if ty == "str" else {"t": "int", "v": "3"})})
    pairs = []
    for _ in range(rng.randint(0, 4)):
        o = rng.choice(base + ["--l", "--lr", "--mo", "--a", "--zz", "--opt"])
        pairs.append([o, rng.choice(["ka", "kb", "5", "x", "12"])])
    return {"op": "sg.parse", "case": {"table": table, "argv": pairs, "forms": [rng.choice(["sp", "eq"]) for _ in pairs],
                                        "abbrev": rng.random() < 0.5, "strict": rng.random() < 0.5}}


def union_case(rng):
    n = Names(rng, False)
    cmds = []
    for nm in rng.sample(["TrainCmd", "EvalCmd", "Export"], rng.choice([2, 2, 3])):
        pool = [("lr", "int"), ("name", "str"), ("ckpt", "str"), ("steps", "int")]
        fs = []
        for f, ty in rng.sample(pool, rng.randint(1, 3)):
            fs.append({"k": "leaf", "name": f, "ty": ty, "default": rand_scalar(rng, ty)})
        cmds.append({"name": nm, "fields": fs})
    root_leaves = [{"k": "leaf", "name": "verbose", "ty": "int", "default": {"t": "int", "v": "0"}}] if rng.random() < 0.7 else []
    c = {"cmds": cmds, "root_leaves": root_leaves, "cmd_field": "cmd",
         "cmd_default": rng.choice(cmds)["name"] if rng.random() < 0.3 else None}
    toks = []
    if root_leaves and rng.random() < 0.5:
        toks += ["--verbose", "2"]
    r = rng.random()
    chosen = rng.choice(cmds)
    if r < 0.1:
        pass
    elif r < 0.2:
        toks.append("bogus")
    else:
        toks.append(chosen["name"].lower())
        for f in chosen["fields"]:
            if rng.random() < 0.5:
                toks += ["--" + f["name"], "7" if f["ty"] == "int" else "v"]
        if rng.random() < 0.2:
            others = [f for s in cmds if s is not chosen for f in s["fields"] if f["name"] not in [g["name"] for g in chosen["fields"]]]
            if others:
                f = rng.choice(others)
                toks += ["--" + f["name"], "7" if f["ty"] == "int" else "v"]
        if root_leaves and rng.random() < 0.1:
            toks += ["--verbose", "3"]
    c["tokens"] = toks
    if rng.random() < 0.4:
        # non-default parser settings whose spelling of these (underscore-free, clash-free) names is the default
        # one — so the clause is exercised through them without judging the spelling itself (C10's subject, D22)
        c["cfg"] = {"dash": rng.choice(["DASH", "UNDERSCORE_AND_DASH"]), "gen": "FLAT", "nest": rng.choice(sp.ALL_NEST)}
        c["mode"] = rng.choice(["AUTO", "EXPLICIT", "NONE"])
    return {"op": "sg.union", "case": c, "model": False}


def any_inst_with_sub(cls) -> bool:
    for f in cls["fields"]:
        if f["k"] == "sub":
            for a in f["alts"]:
                if a["kind"] == "inst" and any(g["k"] == "sub" for g in a["cls"]["fields"]):
                    return True
                if any_inst_with_sub(a["cls"]):
                    return True
    return False


def mixed_case(rng):
    """parent = leaves + 1-2 subgroup fields + `cmd: Union[...]`; every sub-command dataclass has leaves and (mostly)
    subgroup fields of its own; all names distinct, default parser settings"""
    plain = lambda d, n: "--" + n   # noqa: E731
    for _ in range(50):
        names = Names(rng, False, prefix_free=True)
        root = gen_cls(rng, names, rng.choice([1, 1, 2]), None, is_root=True, allow_required=False)
        root["name"] = "Top"
        cmds = []
        for nm in rng.sample(["Train", "Test", "Export"], rng.choice([2, 2, 3])):
            spec = gen_cls(rng, names, rng.choice([1, 1, 2]), None, is_root=rng.random() < 0.8, allow_required=False)
            spec["name"] = nm
            cmds.append(spec)
        parts = [root] + cmds
        if any(any_inst_with_sub(x) for x in parts):
            continue          # the open finding C07-instance-with-subgroup has its own stream
        if any(f["name"] == "cmd" for f in root["fields"]) or not any(f["k"] == "sub" for f in root["fields"]):
            continue
        if any(clash_possible({"root": x, "dest": "d"}, plain) for x in parts):
            continue

        def all_names(cls, acc):
            for f in cls["fields"]:
                if f["k"] != "hidden":
                    acc.add(f["name"])
                if f["k"] == "sub":
                    for a in f["alts"]:
                        all_names(a["cls"], acc)
            return acc
        per_part = [all_names(x, set()) for x in parts]
        # the parent parser classifies the tokens behind the sub-command name against ITS options too: an option of
        # the sub-command that abbreviates parent options ambiguously is rejected by argparse itself — avoid prefixes
        if any(a != b and (a.startswith(b) or b.startswith(a))
               for i, pa in enumerate(per_part) for j, pb in enumerate(per_part) if i != j for a in pa for b in pb):
            continue
        break
    else:
        raise RuntimeError("no mixed tree")
    constructible = [x for x in cmds if entry_constructible({"kind": "type", "kw": [], "cls": x})]
    c = {"root": root, "cmds": cmds,
         "cmd_default": rng.choice(constructible)["name"] if constructible and rng.random() < 0.3 else None}
    root_pairs, root_foreign, _ = selection(rng, root, "top", plain)
    rng.shuffle(root_pairs)
    chosen = rng.choice(cmds)
    cmd_pairs, cmd_foreign, _ = selection(rng, chosen, "top.cmd", plain)
    rng.shuffle(cmd_pairs)
    token = chosen["name"].lower()
    tag = "valid"
    r = rng.random()
    if r < 0.08:
        token, cmd_pairs, tag = None, [], "no-token"
    elif r < 0.12:
        token, tag = "bogus", "unknown-command"
    elif r < 0.20 and cmd_foreign:
        o, g = rng.choice(cmd_foreign)
        v = ("5" if g["ty"] == "int" else "w") if g["k"] in ("leaf", "hidden") else g["alts"][0]["key"]
        cmd_pairs.insert(rng.randint(0, len(cmd_pairs)), [o, v])
        tag = "foreign-in-command"
    elif r < 0.26 and root_pairs:
        cmd_pairs.append(root_pairs.pop())          # an option of the parent after the sub-command name
        tag = "parent-option-after-command"
    elif r < 0.32:
        subs_ = [p for p in cmd_pairs + root_pairs if p[1] in KEYS]
        if subs_:
            rng.choice(subs_)[1] = "zz"
            tag = "unknown-key"
    for pr in root_pairs + cmd_pairs:
        if pr[1].startswith("-") and not pr[1][1:].isdigit():
            pr[1] = pr[1][1:]          # `--opt -x` is not a value for argparse (all pairs are written `--opt value` here)
    c.update(root_argv=root_pairs, token=token, cmd_argv=cmd_pairs, pre_ns=rng.random() < 0.3, gtag=tag)
    return {"op": "sg.mixed", "case": c, "model": False}


def deep_clash_case(rng):
    """One leaf name `x` at three depths among the SELECTED groups, the deep branch declared first (70%):
       root { a: {deep: {enc: {k: {att: {k: {x, ..}}, x, ..}}, ..}, flat: {..}},   b: {k: {x, ..}} }
    AUTO resolution: `--x` addresses b's x (least nested), `--<enc>.x` the one two levels down, `--<att>.x` the deepest.
    Every clashing leaf is overridden through the option stated in `opt_map`."""
    names = Names(rng, False, prefix_free=True)
    x = names.fresh(False)
    a_name, b_name, enc_name, att_name = names.fresh(True), names.fresh(True), names.fresh(True), names.fresh(True)

    def xleaf():
        return {"k": "leaf", "name": x, "ty": "int", "default": rand_scalar(rng, "int")}

    def other():
        ty = rng.choice(["int", "str"])
        return {"k": "leaf", "name": names.fresh(False), "ty": ty, "default": rand_scalar(rng, ty)}

    def entry(key, cls, kinds):
        kind = rng.choice(kinds)
        leaves = [f for f in cls["fields"] if f["k"] == "leaf"]
        kw = []
        if kind == "partial":
            kw = [[f["name"], rand_scalar(rng, f["ty"])] for f in leaves if rng.random() < 0.7]
        elif kind == "inst":
            cls["frozen"] = True
            kw = [[f["name"], rand_scalar(rng, f["ty"]) if rng.random() < 0.6 else f["default"]] for f in leaves]
        return {"key": key, "kind": kind, "kw": kw, "cls": cls}

    def sub(name, alts, required=False):
        return {"k": "sub", "name": name, "default": None if required else rng.choice(alts)["key"], "alts": alts}

    def shuffled(fs):
        rng.shuffle(fs)
        return fs
    att_alts = [entry(k, {"name": names.cls(), "fields": shuffled([xleaf(), other()])}, ["type", "partial", "inst"])
                for k in rng.sample(KEYS, rng.choice([1, 2]))]
    enc_alts = []
    for k in rng.sample(KEYS, rng.choice([1, 2])):
        inner = copy.deepcopy(att_alts)
        enc_alts.append(entry(k, {"name": names.cls(), "fields": shuffled([sub(att_name, inner), xleaf(), other()])},
                              ["type", "partial"]))
    deep = {"key": "deep", "kind": "type", "kw": [],
            "cls": {"name": names.cls(), "fields": shuffled([sub(enc_name, enc_alts), other()])}}
    a_alts = [deep]
    if rng.random() < 0.6:
        a_alts.append({"key": "flat", "kind": "type", "kw": [], "cls": {"name": names.cls(), "fields": [other()]}})
    a_field = {"k": "sub", "name": a_name, "alts": a_alts,
               "default": "deep" if rng.random() < 0.8 or len(a_alts) == 1 else "flat"}
    b_alts = [entry(k, {"name": names.cls(), "fields": shuffled([xleaf(), other()])}, ["type", "partial", "inst"])
              for k in rng.sample(KEYS, rng.choice([1, 2]))]
    b_field = sub(b_name, b_alts)
    deep_first = rng.random() < 0.7
    fields = [a_field, b_field] if deep_first else [b_field, a_field]
    if rng.random() < 0.5:
        fields.insert(rng.randint(0, 2), other())
    root = {"name": "Root", "fields": fields}
    dest = "config"
    opt_map = {f"{dest}.{b_name}.{x}": "--" + x,
               f"{dest}.{a_name}.{enc_name}.{x}": f"--{enc_name}.{x}",
               f"{dest}.{a_name}.{enc_name}.{att_name}.{x}": f"--{att_name}.{x}"}
    c = {"cfg": dict(DEFAULT_CFG), "mode": "AUTO", "dest": dest, "root": root, "opt_map": opt_map}
    naming = naming_for(c)
    for _ in range(10):
        pairs, foreign, _ = selection(rng, root, dest, naming)
        if sum(1 for p in pairs if p[0] in opt_map.values()) >= 2:
            break
    for pr in pairs:
        if pr[1].startswith("-"):
            pr[1] = "7" if pr[1][1:].isdigit() else pr[1][1:]
    rng.shuffle(pairs)
    tag = "deep-first" if deep_first else "shallow-first"
    r = rng.random()
    if r < 0.1 and foreign:
        o, g = rng.choice(foreign)
        v = ("5" if g["ty"] == "int" else "w") if g["k"] in ("leaf", "hidden") else g["alts"][0]["key"]
        pairs.insert(rng.randint(0, len(pairs)), [o, v])
        tag += "+foreign"
    c["argv"] = pairs
    c["forms"] = [rng.choice(["sp", "sp", "eq"]) for _ in pairs]
    c["gtag"] = "shared-leaf-3-depths:" + tag
    return c


def gen(rng, tier):
    for i in range(120 if tier == "quick" else 600):
        c = deep_clash_case(rng)
        yield {"op": "sg.e2e", "case": c}
        if i % 3 == 0:
            yield {"op": "sg.rounds", "case": c}
    for _ in range(150 if tier == "quick" else 900):
        yield mixed_case(rng)
    n_tree = 1200 if tier == "quick" else 8000
    for i in range(n_tree):
        c = tree_case(rng, tier)
        yield {"op": "sg.e2e", "case": c}
        if i % 3 == 0:
            yield {"op": "sg.rounds", "case": c}
    for _ in range(400 if tier == "quick" else 2000):
        yield parse_case(rng)
    for _ in range(200 if tier == "quick" else 1200):
        yield union_case(rng)


def tree_depth(cls) -> int:
    d = 0
    for f in cls["fields"]:
        if f["k"] == "sub":
            d = max(d, 1 + max(tree_depth(a["cls"]) for a in f["alts"]))
    return d


def nontrivial(case, obs):
    c = case["case"]
    if case["op"] in ("sg.e2e", "sg.rounds"):
        return bool(c["argv"]) and tree_depth(c["root"]) >= 2 or c.get("gtag", "").startswith(("foreign", "unknown"))
    if case["op"] == "sg.parse":
        return bool(c["argv"])
    if case["op"] == "sg.mixed":
        return c.get("token") is not None
    return bool(c["tokens"])


def tags(case, obs):
    c = case["case"]
    t = [case["op"], "outcome:" + obs.get("o", "?") + (":" + obs.get("exc", "") if obs.get("o") == "raise" else "")]
    if case["op"] in ("sg.e2e", "sg.rounds"):
        t.append("depth:%d" % tree_depth(c["root"]))
        t.append("gen:" + c.get("gtag", "corpus"))
        t.append("cfg:" + c["cfg"]["gen"] + "/" + c["mode"])
        kinds = set()
        hidden_inst: list[int] = []

        def walk(cls, depth=1):
            for f in cls["fields"]:
                if f["k"] == "sub":
                    for a in f["alts"]:
                        kinds.add(a["kind"])
                        if a.get("inst_subs"):
                            kinds.add("inst+required-subgroup")
                        if len(f["alts"]) == 1:
                            kinds.add("one-key-dict")
                        if a["kind"] == "inst" and any(g["k"] == "hidden" for g in a["cls"]["fields"]):
                            hidden_inst.append(depth)
                        walk(a["cls"], depth + 1)
        walk(c["root"])
        t += ["alt:" + k for k in sorted(kinds)]
        if any(a_has_hidden for a_has_hidden in hidden_inst):
            t.append("inst-with-cmdFalse-attr:depth%d" % max(hidden_inst))
        if case["op"] == "sg.e2e" and obs.get("o") == "ok":
            t.append("resolved:%d" % len(obs["classes"]))
        if case["op"] == "sg.e2e":
            naming = naming_for(c)
            strict = naming is not None and not clash_possible(c, naming)
            if strict:
                t.append("oracle:strict")
            elif obs.get("o") == "ok":
                t.append("oracle:table" if c["mode"] == "AUTO" else "oracle:unjudged-nonAUTO-clash")
            elif obs.get("o") == "exit":
                t.append("oracle:reject-judged-by-probe" if (c["mode"] == "AUTO" and obs.get("probe") is not None)
                         else "oracle:reject-unjudged")
        if any(v.startswith("-") for _, v in c["argv"]):
            t.append("value:leading-dash")
    if case["op"] == "sg.mixed":
        t.append("mixed:" + c.get("gtag", "corpus"))
        t.append("mixed:pre-namespace" if c.get("pre_ns") else "mixed:fresh-namespace")
        t.append("mixed:default-command" if c.get("token") is None and c.get("cmd_default") else
                 ("mixed:command-given" if c.get("token") else "mixed:no-command"))
        if obs.get("o") == "ok":
            sub = obs["subgroups"] or {}
            t.append("mixed:reported-in-command:%d" % min(3, sum(1 for k in sub if k.startswith("top.cmd."))))
            t.append("mixed:reported-in-parent:%d" % min(3, sum(1 for k in sub if k.startswith("top.") and not k.startswith("top.cmd."))))
    return t


def shrink(case):
    if case["op"] not in ("sg.e2e", "sg.rounds"):
        return
    c = case["case"]
    for i in range(len(c["argv"])):
        d = copy.deepcopy(c)
        del d["argv"][i]
        if d.get("forms"):
            del d["forms"][i:i + 1]
        yield {"op": case["op"], "case": d}

    if c.get("opt_map"):
        return          # the stated options belong to this very tree: only the command line is shrunk

    def paths(cls, pre):
        for i, f in enumerate(cls["fields"]):
            yield pre + [("fields", i)]
            if f["k"] == "sub":
                for j, a in enumerate(f["alts"]):
                    if len(f["alts"]) > 1 and a["key"] != f.get("default"):
                        yield pre + [("fields", i), ("alts", j)]
                    yield from paths(a["cls"], pre + [("fields", i), ("alts", j), ("cls", None)])
    for p in list(paths(c["root"], [])):
        d = copy.deepcopy(c)
        cur = d["root"]
        for (k, i) in p[:-1]:
            cur = cur[k] if i is None else cur[k][i]
        k, i = p[-1]
        if i is None:
            continue
        del cur[k][i]
        if any(f["k"] == "sub" for f in d["root"]["fields"]):
            yield {"op": case["op"], "case": d}
    if c.get("forms") and any(f == "eq" for f in c["forms"]):
        d = copy.deepcopy(c)
        d["forms"] = ["sp"] * len(d["argv"])
        yield {"op": case["op"], "case": d}


def neighbours(case, rng):
    if case["op"] in ("sg.e2e", "sg.rounds"):
        c = case["case"]
        yield {"op": "sg.e2e", "case": c}
        for cand in shrink({"op": "sg.e2e", "case": c}):
            yield cand
