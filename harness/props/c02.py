"""C02 — a value written on the command line is the value the field receives."""
from __future__ import annotations

import dataclasses

from harness.core import gen_types as G
from harness.core import sp
from harness.core.trees import Universe

PID = "C02"
RULE = ("a case is one flat dataclass (1-6 fields over {int,float,str,bool,Enum,Literal,Path,List[T],fixed/variadic Tuple, "
        "Optional of these, a few Unions}) x an assignment of type-correct values (boundaries: 0, negatives, 10^30, '', "
        "blanks, '=', non-ASCII, inf, 1e-07, empty containers) to a subset of fields x a permutation of the option segments "
        "x the `--opt value` / `--opt=value` spelling, rendered to canonical tokens; the real parse must return exactly the "
        "assignment over the defaults. Non-trivial = >= 2 fields set or a container / optional / enum / literal value; "
        "distinct by canonical JSON.")
ASSUMPTIONS = ["float()/repr round trip of CPython (float tokens and their parsed repr are supplied to the model as a table)",
               "pathlib.Path(str) keeps simple path strings", "int() on ASCII sign+digits"]
TRUSTED = ["stdlib argparse (its optional-argument fragment is modelled in Model/Engine.lean and compared end to end)"]
EXHAUSTIVE = {"quick": False, "thorough": False}
THOROUGH_ROUNDS = 3   # thorough tier: this many generator passes with derived PRNG states (vcheck)
MANIFEST = {
    "text": ("Proof (full on the modelled fragment; float parsing is a named parameter): Lean model of argparse's optional-argument engine (lexing, nargs shapes, type/choices, "
             "defaults), of get_arg_options / postprocess per annotation, and of the whole flat pipeline; theorems: the "
             "canonical rendering of any well-typed assignment parses back to exactly that assignment over the defaults, "
             "for any number of fields and any order of the option segments (induction over the segment list; one lemma per "
             "nargs shape that greedy matching consumes exactly the segment), int print/parse round trip for every integer, order "
             "independence, per-annotation lemmas (List, Tuple[T,...], Enum, Optional) and their composition through the table "
             "construction into the flat pipeline (c02_flat_pipeline, c02_flat_list_field). Float parsing is a parameter (hypothesis RoundTrips). The pipeline model is tied to the code by "
             "the end-to-end op fields.parse and the unit op fields.argopts (real argparse actions of every field), and the "
             "property itself is evaluated on every real parse."),
    "note": ("Trusted: Lean kernel + standard axioms; harness. Modelled not verified: argparse 3.12.1 "
             "_parse_known_args/_parse_optional/_get_values (optional fragment), field_wrapper.py:231-533, "
             "field_parsing.py:70-298, utils.py:198-227,568-614. Unmodelled and excluded from theorems: positionals, "
             "single-dash clusters, non-ASCII digits, path normalisation."),
    "technique": "Lean 4 round-trip theorem by induction over option segments + differential check on real parses",
    "design_ref": "DESIGN.md section 5, C02",
}


def gen_fields(rng, n=None):
    n = n or rng.choice([1, 2, 2, 3, 3, 4, 5, 6])
    names = rng.sample(G.NAMES, n)
    fields = []
    for nm in names:
        t = G.gen_ty(rng)
        r = rng.random()
        if r < 0.25:
            d = {"kind": "missing"}
        elif t["k"] == "opt" and r < 0.6:
            d = {"kind": "value", "v": {"t": "none"}}
        else:
            # (a Literal default shadowed by a later value with the same str() is C01's finding: keep C02 on expressible values)
            d = {"kind": "value", "v": G.literal_expressible(t, G.gen_value(rng, t))}
        fld = {"name": nm, "ty": t, "default": d}
        # custom argparse arguments that must not change parsing: a metavar, a help text
        if rng.random() < 0.15:
            fld["metavar"] = rng.choice(["N", "VALUE", "X"])
        if rng.random() < 0.1:
            fld["help"] = "some help text"
        fields.append(fld)
    # dataclasses demand fields without a default first
    fields.sort(key=lambda f: f["default"]["kind"] != "missing")
    return fields


def enums_of(fields):
    out = {}

    def walk(t):
        if t["k"] == "enum":
            out[t["cls"]] = (t["members"], t.get("values"))
        for key in ("inner", "item"):
            if key in t:
                walk(t[key])
        for key in ("items", "alts"):
            for x in t.get(key, []):
                walk(x)

    for f in fields:
        walk(f["ty"])
    return out


def render(fields, asg, order, eq_flags):
    """canonical argv for assignment asg (name -> value) in the given field order"""
    argv = []
    for nm, eq in zip(order, eq_flags):
        v = asg[nm]
        toks = G.tokens(v)
        opt = ("-" if len(nm) == 1 else "--") + nm
        if toks is None:
            argv.append(opt)  # bare option: only generated for Optional scalars (stores None)
        elif eq and len(toks) == 1:
            argv.append(f"{opt}={toks[0]}")
        else:
            argv += [opt] + toks
    return argv


def expressible(fields, asg):
    for f in fields:
        if f["name"] in asg:
            toks = G.tokens(asg[f["name"]])
            if toks is None:
                t = f["ty"]
                if not (t["k"] == "opt" and t["inner"]["k"] not in ("list", "tuple", "vtuple")):
                    return False
                continue
            if not all(G.expressible_token(t) for t in toks):
                return False
            if f["ty"]["k"] == "tuple" and len(toks) == 0:
                return False
    return True


def make_case(rng, fields, api="parse", cfg=None):
    asg = {}
    for f in fields:
        must = f["default"]["kind"] == "missing" and f["ty"]["k"] != "opt"
        if must or rng.random() < 0.6:
            asg[f["name"]] = G.literal_expressible(f["ty"], G.gen_value(rng, f["ty"]))
    for _ in range(20):
        if expressible(fields, asg):
            break
        for f in fields:
            if f["name"] in asg:
                asg[f["name"]] = G.literal_expressible(f["ty"], G.gen_value(rng, f["ty"]))
    else:
        asg = {k: v for k, v in asg.items() if False}
    order = list(asg)
    rng.shuffle(order)
    eq = [rng.random() < 0.5 for _ in order]
    return {"op": "fields.parse", "case": {"fields": fields, "asg": asg, "order": order, "eq": eq, "api": api,
                                           "cfg": cfg or {"dash": "UNDERSCORE", "gen": "FLAT", "nest": "DEFAULT"},
                                           "argv": render(fields, asg, order, eq)}}


def gen(rng, tier):
    n = 500 if tier == "quick" else 30000
    for i in range(n):
        fields = gen_fields(rng)
        c = make_case(rng, fields, api=rng.choice(["parse", "parser"]))
        # required fields must be present for the round trip to be defined
        yield c
        # a second permutation / spelling of the same assignment (order / spelling independence)
        if i % 3 == 0 and len(c["case"]["order"]) >= 2:
            c2 = dict(c["case"])
            order = list(c2["order"])
            rng.shuffle(order)
            eq = [not e for e in c2["eq"]][: len(order)]
            c2.update(order=order, eq=eq, argv=render(fields, c2["asg"], order, eq), twin_of=c["case"]["argv"])
            yield {"op": "fields.parse", "case": c2}
    m = 150 if tier == "quick" else 3000
    for _ in range(m):
        yield {"op": "fields.argopts", "case": {"fields": gen_fields(rng)}}


# -----------------------------------------------------------------------------------------------


def build(fields):
    u = Universe()
    for cls, (members, values) in enums_of(fields).items():
        u.enum(cls, members, values)
    spec = {"name": "C", "fields": [dict(f) for f in fields]}
    cls = u.add_class("C", spec)
    return u, cls


def run_parse(c, argv):
    import simple_parsing

    u, cls = build(c["fields"])
    sp.reset_globals()
    if c["api"] == "parse":
        r = sp.run_outcome(lambda: simple_parsing.parse(cls, args=argv, dest="config"))
        inst = r.get("value")
    else:
        parser = sp.make_parser(c["cfg"])
        parser.add_arguments(cls, dest="config")
        sp.decoy(c["cfg"])   # a parser constructed later with other settings must not change this one's options
        r = sp.run_outcome(lambda: parser.parse_args(argv))
        inst = getattr(r["value"], "config") if r["o"] == "ok" else None
    if r["o"] == "ok":
        return {"o": "ok", "fields": [[f.name, sp.cv(getattr(inst, f.name))] for f in dataclasses.fields(inst)]}
    return {k: v for k, v in r.items() if k != "value"}


TYPE_TAGS = {int: "int", float: "float", str: "str"}


def conv_tag(fn):
    import pathlib

    from simple_parsing.utils import str2bool

    if fn in TYPE_TAGS:
        return TYPE_TAGS[fn]
    if fn is str2bool:
        return "bool"
    if fn is pathlib.Path:
        return "path"
    name = getattr(fn, "__name__", "")
    qual = getattr(fn, "__qualname__", "")
    if "no_op" in name:
        return "noop"
    wrapped = getattr(fn, "__wrapped__", None)
    import enum as _enum

    if wrapped is not None and isinstance(wrapped, type) and issubclass(wrapped, _enum.Enum):
        return "enum:" + wrapped.__name__
    if "_try_functions" in qual:
        return "union"
    if "_parse_tuple" in qual:
        return "tuple"
    return "other:" + name


def impl(case):
    c = case["case"]
    if case["op"] == "fields.parse":
        return run_parse(c, c["argv"])
    # fields.argopts: read the real argparse actions
    u, cls = build(c["fields"])
    sp.reset_globals()
    parser = sp.make_parser({})
    parser.add_arguments(cls, dest="config")
    r = sp.run_outcome(lambda: parser._preprocessing(args=[]))
    if r["o"] != "ok":
        return {"setup": {k: v for k, v in r.items() if k != "value"}}
    from simple_parsing.helpers.custom_actions import BooleanOptionalAction

    outs = []
    for f in c["fields"]:
        a = sp.action_for_dest(parser, "config." + f["name"])
        d = a.default
        outs.append({"nargs": a.nargs, "conv": conv_tag(a.type), "choices": list(a.choices) if a.choices is not None else None,
                     "required": bool(a.required), "default": sp.cv(d), "bool_action": isinstance(a, BooleanOptionalAction)})
    return {"opts": outs}


def model_case(case, obs):
    c = case["case"]
    if case["op"] == "fields.parse":
        toks = list(c["argv"])
        for a in c["argv"]:
            if "=" in a:
                toks.append(a.split("=", 1)[1])
        for f in c["fields"]:
            d = f["default"]
            if d["kind"] != "missing" and d["v"]["t"] == "str":
                toks.append(d["v"]["v"])
        return {"cfg": c["cfg"], "dest": "config", "fields": c["fields"], "argv": c["argv"], "floats": G.floats_table(toks)}
    return {"fields": c["fields"]}


def project(case, obs):
    if case["op"] == "fields.parse":
        if obs["o"] == "ok":
            return {"o": "ok", "fields": obs["fields"]}
        if obs["o"] == "exit":
            return {"o": "exit", "code": obs["code"]}
        return {"o": "raise", "exc": obs["exc"]}
    if "setup" in obs:
        return obs
    # the model's union/tuple tags carry the member list; the real closure only reveals its kind
    return obs


def project_model(case, mo):
    if case["op"] == "fields.parse":
        if mo.get("o") == "exit":
            return {"o": "exit", "code": mo["code"]}
        return mo
    for o in mo.get("opts", []):
        if isinstance(o.get("conv"), str):
            for pre in ("union<", "tuple<"):
                if o["conv"].startswith(pre):
                    o["conv"] = pre[:-1]
    return mo


def model_unmodelled(mo):
    if mo.get("o") == "unmodelled":
        return True
    return any(o.get("unmodelled") for o in mo.get("opts", []) if isinstance(o, dict))


def oracle(case, obs):
    c = case["case"]
    fails = []
    if case["op"] != "fields.parse":
        if "setup" in obs:
            fails.append({"clause": "setup", "detail": str(obs["setup"])})
        return fails
    if not c["asg"] and any(f["default"]["kind"] == "missing" and f["ty"]["k"] != "opt" for f in c["fields"]):
        return fails  # no expressible assignment was found for a required field: nothing to check
    if obs["o"] != "ok":
        fails.append({"clause": "roundtrip", "detail": f"canonical argv {c['argv']} was not accepted: {obs}"})
        return fails
    got = dict((k, v) for k, v in obs["fields"])
    for f in c["fields"]:
        nm = f["name"]
        if nm in c["asg"]:
            exp = c["asg"][nm]
            if f["ty"]["k"] == "union" or (f["ty"]["k"] == "opt" and f["ty"]["inner"]["k"] == "union"):
                if not G.value_type_ok(got[nm], f["ty"]):
                    fails.append({"clause": "type", "detail": f"{nm}: {got[nm]} does not conform to {f['ty']}"})
                continue
            if got[nm] != exp:
                fails.append({"clause": "roundtrip", "field": nm,
                              "detail": f"{nm}: wrote {exp} as {G.tokens(exp)}, received {got[nm]} (argv {c['argv']})"})
        elif f["ty"]["k"] == "union" or (f["ty"]["k"] == "opt" and f["ty"]["inner"]["k"] == "union"):
            continue  # Union is not in the property's list of supported field types: only conformance is checked
        else:
            d = f["default"]
            exp = d["v"] if d["kind"] != "missing" else {"t": "none"}
            if got[nm] != exp:
                fails.append({"clause": "unmentioned-default", "field": nm,
                              "detail": f"{nm} was not mentioned but is {got[nm]} instead of its default {exp} (argv {c['argv']})"})
    return fails


def nontrivial(case, obs):
    c = case["case"]
    if case["op"] != "fields.parse":
        return len(c["fields"]) >= 2
    return len(c["asg"]) >= 2 or any(v["t"] in ("list", "tuple", "enum", "none") for v in c["asg"].values())


def tags(case, obs):
    c = case["case"]
    t = [f"op:{case['op']}"]
    if case["op"] == "fields.parse":
        t += [f"set:{len(c['asg'])}", f"fields:{len(c['fields'])}", f"api:{c['api']}", "out:" + obs["o"]]
        for f in c["fields"]:
            if f["name"] in c["asg"]:
                k = f["ty"]["k"]
                t.append("ty:" + (k if k != "opt" else "opt-" + f["ty"]["inner"]["k"]))
    return t


def shrink(case):
    if case["op"] != "fields.parse":
        return
    c = case["case"]
    for i, f in enumerate(c["fields"]):
        if len(c["fields"]) > 1 and not (f["name"] in c["asg"] and len(c["asg"]) == 1):
            fields = c["fields"][:i] + c["fields"][i + 1:]
            asg = {k: v for k, v in c["asg"].items() if k != f["name"]}
            order = [o for o in c["order"] if o != f["name"]]
            eq = c["eq"][: len(order)]
            yield {"op": case["op"], "case": dict(c, fields=fields, asg=asg, order=order, eq=eq, argv=render(fields, asg, order, eq))}
    for nm in list(c["asg"]):
        f = next(x for x in c["fields"] if x["name"] == nm)
        if f["default"]["kind"] != "missing" or f["ty"]["k"] == "opt":
            asg = {k: v for k, v in c["asg"].items() if k != nm}
            order = [o for o in c["order"] if o != nm]
            eq = c["eq"][: len(order)]
            yield {"op": case["op"], "case": dict(c, asg=asg, order=order, eq=eq, argv=render(c["fields"], asg, order, eq))}


FINDINGS = {}
