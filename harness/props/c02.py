"""C02 — a value written on the command line is the value the field receives."""
from __future__ import annotations

import dataclasses

from harness.core import gen_types as G
from harness.core import sp
from harness.core.trees import Universe

PID = "C02"
RULE = ("a case is one flat dataclass (1-6 fields over {int,float,str,bool,Enum,Literal,Path,List[T],fixed/variadic Tuple, "
        "Optional of these, a few Unions; in a separate stream also Optional[Literal], List[Literal] and choice() fields with "
        "str / non-str / dict / Enum options}) x an assignment of type-correct values (boundaries: 0, negatives, 10^30, '', "
        "blanks, '=', non-ASCII, inf, 1e-07, empty containers, bare `--opt` for None) to a subset of fields x a permutation of "
        "the option segments x the `--opt value` / `--opt=value` spelling x the parser's dash variant / generation mode "
        "(option strings spelled accordingly), rendered to canonical tokens; the real parse must return exactly the "
        "assignment (same exact Python type, `type(v) is T`) over the defaults. A Literal value whose str() is shared with a "
        "later value of the same Literal (Literal[0, \"0\"]) has no token of its own and is replaced by the value its token "
        "denotes. Non-trivial = >= 2 fields set or a container / optional / enum / literal value; distinct by canonical JSON.")
ASSUMPTIONS = ["float()/repr round trip of CPython (float tokens and their parsed repr are supplied to the model as a table)",
               "pathlib.Path(str) keeps simple path strings", "int() on ASCII sign+digits"]
TRUSTED = ["stdlib argparse (its optional-argument fragment is modelled in Model/Engine.lean and compared end to end)"]
EXHAUSTIVE = {"quick": False, "thorough": False}
THOROUGH_ROUNDS = 3   # thorough tier: this many generator passes with derived PRNG states (vcheck)
MANIFEST = {
    "text": ("Proof (closed headline on the modelled fragment; float/Path token parsing is a named parameter): Lean model of "
             "argparse's optional-argument engine (lexing, nargs shapes, type/choices, defaults), of get_arg_options / "
             "postprocess per annotation, and of the whole flat pipeline. Headline c02_roundtrip: for ONE flat dataclass "
             "whose fields are plain int/float/str/bool/Path/Enum, Literal, List[T], Tuple[T,...], Tuple[T1..Tn] "
             "(heterogeneous: the stateful parse_tuple closure, counters threaded), Optional of the non-Literal ones, with "
             "keepable defaults (DefaultOk), the canonical command line of ANY assignment (any subset containing the required "
             "fields, any order, `--opt v` or `--opt=v` per option, plain negative numbers included, only tokens argparse "
             "itself lexes as options excluded) parses to exactly the written values (typed) over the defaults — every "
             "hypothesis of the engine theorem is discharged (SegOk per annotation, finish quiet, initial namespace). "
             "Corollaries: order + spelling independence end to end (c02_order_spelling_independent), written / unmentioned "
             "clauses. int print/parse round trip for every integer; every integer token is an argument token. "
             "Witnesses of what the code does NOT satisfy: Optional[Literal]/List[Literal] and choice() with non-str "
             "options (open findings). The pipeline model is tied to the code by the end-to-end op fields.parse, the unit op "
             "fields.argopts (real argparse actions of every field) and engine.run (the hand-written actions of the open "
             "findings against the real parser); the property itself is evaluated on every real parse."),
    "note": ("Trusted: Lean kernel + standard axioms; harness. Modelled not verified: argparse 3.12.1 "
             "_parse_known_args/_parse_optional/_get_values (optional fragment), field_wrapper.py:231-533, "
             "field_parsing.py:70-298, utils.py:198-227,568-614. Hypotheses left in the headline: the option string written "
             "is one the table maps to the field (LexOk'), float/Path tokens have an entry in the parsing table (FEnv). "
             "Unmodelled and excluded from theorems: positionals, single-dash clusters, non-ASCII digits, path "
             "normalisation, Union fields, choice() metadata."),
    "technique": "Lean 4 round-trip theorem by induction over option segments + differential check on real parses",
    "design_ref": "DESIGN.md section 5, C02",
}

DEFAULT_CFG = {"dash": "UNDERSCORE", "gen": "FLAT", "nest": "DEFAULT"}
RENAME = {"lr": "learning_rate", "size": "batch_size", "name": "run_name", "items": "num_items", "path": "out_path", "q": "q_"}


def gen_fields(rng, n=None):
    """(also used by C04: keep the PRNG consumption stable)"""
    n = n or rng.choice([1, 2, 2, 3, 3, 4, 5, 6])
    names = rng.sample(G.NAMES, n)
    fields = []
    for nm in names:
        t = G.gen_ty(rng)
        r = rng.random()
        if r < 0.25:
            d = {"kind": "missing"}
        elif t["k"] == "opt" and r < 0.6:
            d = {"kind": "value", "v": {"t": "none"}}
        else:
            # (a Literal default shadowed by a later value with the same str() is C01's finding: keep C02 on expressible values)
            d = {"kind": "value", "v": G.literal_expressible(t, G.gen_value(rng, t))}
        fld = {"name": nm, "ty": t, "default": d}
        # custom argparse arguments that must not change parsing: a metavar, a help text
        if rng.random() < 0.15:
            fld["metavar"] = rng.choice(["N", "VALUE", "X"])
        if rng.random() < 0.1:
            fld["help"] = "some help text"
        fields.append(fld)
    # dataclasses demand fields without a default first
    fields.sort(key=lambda f: f["default"]["kind"] != "missing")
    return fields


# -- extended kinds (own generators wrapping G.*; candidates for gen_types.py) -----------------------------------

LITERALS = [
    [{"t": "int", "v": "1"}, {"t": "int", "v": "2"}, {"t": "int", "v": "3"}],
    [{"t": "str", "v": "a"}, {"t": "str", "v": "b"}],
    [{"t": "str", "v": "bob"}, {"t": "int", "v": "0"}, {"t": "bool", "v": True}],
    [{"t": "bool", "v": True}, {"t": "bool", "v": False}],
]


def is_wrapped_literal(t) -> bool:
    return (t["k"] == "opt" and t["inner"]["k"] == "literal") or (t["k"] == "list" and t["item"]["k"] == "literal")


def gen_special_field(rng, nm):
    """Optional[Literal], List[Literal], choice(str…), choice(non-str…), choice(dict), choice(Enum)"""
    kind = rng.choice(["optlit", "listlit", "choice-str", "choice-nonstr", "choice-mixed", "choice-dict", "choice-enum",
                       "enum-none-default"])
    if kind == "enum-none-default":
        # `x: E = None` (not Optional): the enum parser, not type=str + choices, produces the member (fixes 53722bc, 69d4809)
        e = dict(rng.choice(G.ENUMS))
        return {"name": nm, "ty": e, "default": {"kind": "value", "v": {"t": "none"}}}
    if kind == "optlit":
        vals = [dict(v) for v in rng.choice(LITERALS)]
        t = {"k": "opt", "inner": {"k": "literal", "vals": vals}}
        d = {"kind": "value", "v": rng.choice([{"t": "none"}, dict(rng.choice(vals))])}
        return {"name": nm, "ty": t, "default": d}
    if kind == "listlit":
        vals = [dict(v) for v in rng.choice(LITERALS)]
        t = {"k": "list", "item": {"k": "literal", "vals": vals}}
        d = {"kind": "value", "v": {"t": "list", "v": [dict(rng.choice(vals)) for _ in range(rng.choice([0, 0, 1, 2]))]}}
        return {"name": nm, "ty": t, "default": d}
    if kind in ("choice-str", "choice-nonstr", "choice-mixed"):
        if kind == "choice-str":
            opts = [{"t": "str", "v": s} for s in rng.sample(["a", "b", "bob", "x_y", "0", "None", ""], rng.randint(2, 4))]
            ty = {"k": "str"}
        elif kind == "choice-nonstr":
            which = rng.choice(["int", "float", "bool"])
            opts = {"int": [{"t": "int", "v": str(i)} for i in (1, 2, 3)],
                    "float": [{"t": "float", "v": "0.5"}, {"t": "float", "v": "1.5"}],
                    "bool": [{"t": "bool", "v": True}, {"t": "bool", "v": False}]}[which]
            ty = {"k": which}
        else:
            opts = [{"t": "str", "v": "a"}, {"t": "int", "v": "1"}, {"t": "str", "v": "b"}]
            ty = {"k": "any"}
        dv = dict(rng.choice(opts))
        d = {"kind": "value", "v": dv} if rng.random() < 0.8 else {"kind": "missing"}
        return {"name": nm, "ty": ty, "default": d, "choice": {"kind": "plain", "options": opts}}
    if kind == "choice-dict":
        items = [["one", {"t": "int", "v": "1"}], ["zero", {"t": "int", "v": "0"}], ["two", {"t": "int", "v": "2"}]]
        if rng.random() < 0.5:
            items = [["yes", {"t": "bool", "v": True}], ["no", {"t": "bool", "v": False}], ["empty", {"t": "str", "v": ""}]]
        k = rng.randrange(len(items))
        return {"name": nm, "ty": {"k": "any"}, "default": {"kind": "value", "v": dict(items[k][1])},
                "choice": {"kind": "dict", "items": items, "default_key": items[k][0]}}
    e = dict(rng.choice(G.ENUMS[:4]))
    return {"name": nm, "ty": e, "default": {"kind": "value", "v": {"t": "enum", "cls": e["cls"], "v": rng.choice(e["members"])}},
            "choice": {"kind": "enum", "cls": e["cls"]}}


def gen_fields_ext(rng):
    """1-2 special fields + 0-3 ordinary ones"""
    base = gen_fields(rng, n=rng.choice([1, 2, 3, 4]))
    k = min(len(base), rng.choice([1, 1, 2]))
    fields = [gen_special_field(rng, f["name"]) for f in base[:k]] + base[k:]
    fields.sort(key=lambda f: f["default"]["kind"] != "missing")
    return fields


def gen_special_value(rng, f):
    """(expected value, tokens or None)"""
    ch = f.get("choice")
    if ch is None:
        t = f["ty"]
        if t["k"] == "opt":
            if rng.random() < 0.2:
                return {"t": "none"}, None
            v = dict(rng.choice(t["inner"]["vals"]))
            return v, [G.token(v)]
        vs = [dict(rng.choice(t["item"]["vals"])) for _ in range(rng.choice([0, 1, 2, 3]))]
        return {"t": "list", "v": vs}, [G.token(x) for x in vs]
    if ch["kind"] == "plain":
        v = dict(rng.choice(ch["options"]))
        return v, [G.token(v)]
    if ch["kind"] == "dict":
        key, v = rng.choice(ch["items"])
        return dict(v), [key]
    e = f["ty"]
    m = rng.choice(e["members"])
    return {"t": "enum", "cls": e["cls"], "v": m}, [m]


def enums_of(fields):
    out = {}

    def walk(t):
        if t["k"] == "enum":
            out[t["cls"]] = (t["members"], t.get("values"))
        for key in ("inner", "item"):
            if key in t:
                walk(t[key])
        for key in ("items", "alts"):
            for x in t.get(key, []):
                walk(x)

    for f in fields:
        walk(f["ty"])
    return out


def option_for(nm, cfg=None, alt=False):
    """an option string of field `nm` of a class registered at dest `config` under the parser settings `cfg`"""
    cfg = cfg or DEFAULT_CFG
    gen, dash = cfg.get("gen", "FLAT"), cfg.get("dash", "UNDERSCORE")
    nested = gen == "NESTED" or (gen == "BOTH" and alt)
    base = ("config." + nm) if nested else nm
    if dash == "DASH" or (dash == "UNDERSCORE_AND_DASH" and alt):
        base = base.replace("_", "-")
    return ("-" if len(nm) == 1 else "--") + base


def render(fields, asg, order, eq_flags, toks_of=None, cfg=None, alts=None):
    """canonical argv for assignment asg (name -> value) in the given field order"""
    argv = []
    for i, (nm, eq) in enumerate(zip(order, eq_flags)):
        v = asg[nm]
        toks = toks_of[nm] if toks_of and nm in toks_of else G.tokens(v)
        opt = option_for(nm, cfg, bool(alts and alts[i])) if cfg else ("-" if len(nm) == 1 else "--") + nm
        if toks is None:
            argv.append(opt)  # bare option: only generated for Optional scalars (stores None)
        elif eq and len(toks) == 1:
            argv.append(f"{opt}={toks[0]}")
        else:
            argv += [opt] + toks
    return argv


def expressible(fields, asg):
    for f in fields:
        if f["name"] in asg:
            toks = G.tokens(asg[f["name"]])
            if toks is None:
                t = f["ty"]
                if not (t["k"] == "opt" and t["inner"]["k"] not in ("list", "tuple", "vtuple")):
                    return False
                continue
            if not all(G.expressible_token(t) for t in toks):
                return False
            if f["ty"]["k"] == "tuple" and len(toks) == 0:
                return False
    return True


def make_case(rng, fields, api="parse", cfg=None):
    """(also used by C04: keep the PRNG consumption stable)"""
    asg = {}
    for f in fields:
        must = f["default"]["kind"] == "missing" and f["ty"]["k"] != "opt"
        if must or rng.random() < 0.6:
            asg[f["name"]] = G.literal_expressible(f["ty"], G.gen_value(rng, f["ty"]))
    for _ in range(20):
        if expressible(fields, asg):
            break
        for f in fields:
            if f["name"] in asg:
                asg[f["name"]] = G.literal_expressible(f["ty"], G.gen_value(rng, f["ty"]))
    else:
        asg = {k: v for k, v in asg.items() if False}
    order = list(asg)
    rng.shuffle(order)
    eq = [rng.random() < 0.5 for _ in order]
    return {"op": "fields.parse", "case": {"fields": fields, "asg": asg, "order": order, "eq": eq, "api": api,
                                           "cfg": cfg or dict(DEFAULT_CFG),
                                           "argv": render(fields, asg, order, eq)}}


def make_case_ext(rng, fields):
    """a case over extended fields: oracle only (the Lean model has no choice() / List[Literal] fields)"""
    asg, toks_of = {}, {}
    for f in fields:
        special = "choice" in f or is_wrapped_literal(f["ty"])
        must = f["default"]["kind"] == "missing" and f["ty"]["k"] != "opt"
        if not (must or rng.random() < 0.6):
            continue
        if special:
            v, toks = gen_special_value(rng, f)
            asg[f["name"]] = v
            toks_of[f["name"]] = toks
        else:
            for _ in range(20):
                v = G.literal_expressible(f["ty"], G.gen_value(rng, f["ty"]))
                if expressible([f], {f["name"]: v}):
                    asg[f["name"]] = v
                    break
            else:
                if must:
                    return None
    for f in fields:   # a token argparse lexes as an option is outside the property
        if f["name"] in toks_of and toks_of[f["name"]] and not all(G.expressible_token(t) for t in toks_of[f["name"]]):
            return None
    order = list(asg)
    rng.shuffle(order)
    eq = [rng.random() < 0.5 for _ in order]
    return {"op": "fields.parse", "model": False,
            "case": {"fields": fields, "asg": asg, "order": order, "eq": eq, "api": rng.choice(["parse", "parser"]),
                     "cfg": dict(DEFAULT_CFG), "toks": toks_of, "argv": render(fields, asg, order, eq, toks_of)}}


HELP_ACT = {"opts": ["-h", "--help"], "dest": "help", "kind": "help", "nargs": 0, "conv": {"k": "str"}, "choices": None,
            "required": False, "default": None}


def special_engine_case(rng, f=None):
    """the action the code builds for ONE special field (Props/C02.lean section 9: wrappedLiteralAct / choiceAct), run by
    the Lean engine, against the real parser of the one-field dataclass"""
    nm = "val"
    if f is None:
        while True:
            f = gen_special_field(rng, nm)
            ch = f.get("choice")
            if (ch is None or ch["kind"] == "plain") and f["default"]["kind"] != "missing" and f["ty"]["k"] != "enum":
                break
    ch = f.get("choice")
    if ch is None:
        act = {"opts": ["--" + nm], "dest": "config." + nm, "kind": "store", "nargs": "?" if f["ty"]["k"] == "opt" else "*",
               "conv": {"k": "enum", "cls": "Literal", "members": []}, "choices": None, "required": False,
               "default": f["default"]["v"]}
        vals = (f["ty"].get("inner") or f["ty"].get("item"))["vals"]
        pool = [G.token(v) for v in vals] + ["zz", "", "1"]
    else:
        act = {"opts": ["--" + nm], "dest": "config." + nm, "kind": "store", "nargs": None, "conv": {"k": "str"},
               "choices": [o["v"] for o in ch["options"] if o["t"] == "str"], "required": False, "default": f["default"]["v"]}
        pool = [G.token(o) for o in ch["options"]] + ["zz", "A"]
    r = rng.random()
    if r < 0.15:
        argv = []
    elif r < 0.25:
        argv = ["--" + nm]
    elif r < 0.6 or act["nargs"] != "*":
        t = rng.choice(pool)
        argv = [f"--{nm}={t}"] if rng.random() < 0.4 else ["--" + nm, t]
    else:
        argv = ["--" + nm] + [rng.choice(pool) for _ in range(rng.choice([1, 2, 3]))]
    if not all(G.expressible_token(t) for t in argv[1:]):
        argv = []
    return {"op": "engine.run", "case": {"table": [HELP_ACT, act], "argv": argv, "strict": True, "src": {"fields": [f]}}}


def gen(rng, tier):
    n = 500 if tier == "quick" else 30000
    for i in range(n):
        fields = gen_fields(rng)
        api = rng.choice(["parse", "parser"])
        c = make_case(rng, fields, api=api)
        if api == "parser" and i % 4 == 0:
            # the parser's own spelling settings: the option strings are written accordingly
            cfg = {"dash": rng.choice(["UNDERSCORE", "UNDERSCORE_AND_DASH", "DASH"]), "gen": rng.choice(["FLAT", "NESTED", "BOTH"]),
                   "nest": "DEFAULT"}
            cc = c["case"]
            # names with underscores, so that the dash variants differ
            fields = [dict(f, name=RENAME.get(f["name"], f["name"])) for f in fields]
            cc.update(fields=fields, asg={RENAME.get(k, k): v for k, v in cc["asg"].items()},
                      order=[RENAME.get(k, k) for k in cc["order"]])
            alts = [rng.random() < 0.5 for _ in cc["order"]]
            cc.update(cfg=cfg, alts=alts, argv=render(fields, cc["asg"], cc["order"], cc["eq"], None, cfg, alts))
        # required fields must be present for the round trip to be defined
        yield c
        # a second permutation / spelling of the same assignment (order / spelling independence)
        if i % 3 == 0 and len(c["case"]["order"]) >= 2:
            c2 = dict(c["case"])
            order = list(c2["order"])
            rng.shuffle(order)
            eq = [not e for e in c2["eq"]][: len(order)]
            alts = [not a for a in c2["alts"]] if c2.get("alts") else None
            cfg = c2["cfg"] if c2.get("alts") is not None else None
            c2.update(order=order, eq=eq, argv=render(fields, c2["asg"], order, eq, None, cfg, alts), twin_of=c["case"]["argv"])
            if alts is not None:
                c2["alts"] = alts
            yield {"op": "fields.parse", "case": c2}
    m = 150 if tier == "quick" else 3000
    for _ in range(m):
        yield {"op": "fields.argopts", "case": {"fields": gen_fields(rng)}}
    # the extended kinds: Optional[Literal], List[Literal], choice(...) — a separate stream so that their open findings
    # (which make the WHOLE parse exit) never mask the main stream
    k = 90 if tier == "quick" else 4000
    for _ in range(k):
        c = make_case_ext(rng, gen_fields_ext(rng))
        if c is not None:
            yield c
    for _ in range(60 if tier == "quick" else 1500):
        yield special_engine_case(rng)


# -----------------------------------------------------------------------------------------------


def add_class_ext(u, fields):
    """Universe.add_class has no choice() kind: the same construction with simple_parsing.choice for those fields"""
    import simple_parsing
    from simple_parsing.helpers import field as sp_field

    out = []
    for f in fields:
        d = f["default"]
        ch = f.get("choice")
        if ch is not None:
            kw = {}
            if ch["kind"] == "plain":
                if d["kind"] == "value":
                    kw["default"] = u.val(d["v"])
                fld = simple_parsing.choice(*[u.val(o) for o in ch["options"]], **kw)
            elif ch["kind"] == "dict":
                fld = simple_parsing.choice({k: u.val(v) for k, v in ch["items"]}, default=ch["default_key"])
            else:
                fld = simple_parsing.choice(u.enums[ch["cls"]], default=u.val(d["v"]))
            out.append((f["name"], u.ty(f["ty"]) if f["ty"]["k"] != "any" else object, fld))
            continue
        kw = {}
        if d["kind"] == "value":
            v = u.val(d["v"])
            if isinstance(v, (list, dict, set)):
                kw["default_factory"] = (lambda vv: (lambda: type(vv)(vv)))(v)
            else:
                kw["default"] = v
        extra = {k: f[k] for k in ("help", "metavar") if f.get(k)}
        fld = sp_field(**kw, **extra) if extra else dataclasses.field(**kw)
        out.append((f["name"], u.ty(f["ty"]), fld))
    cls = dataclasses.make_dataclass("C", out)
    u.classes["C"] = cls
    return cls


def build(fields, postponed=False):
    u = Universe(postponed=postponed)
    for cls, (members, values) in enums_of(fields).items():
        u.enum(cls, members, values)
    if any("choice" in f for f in fields):
        return u, add_class_ext(u, fields)
    spec = {"name": "C", "fields": [dict(f) for f in fields]}
    cls = u.add_class("C", spec)
    return u, cls


def exact_type(v):
    """the EXACT Python type (`type(v)`, not isinstance: a str / int subclass is not "the same Python type")"""
    import enum as _enum
    import pathlib

    if isinstance(v, (list, tuple)) and type(v) in (list, tuple):
        return [type(v).__name__] + [exact_type(x) for x in v]
    if isinstance(v, pathlib.PurePath):
        return "path" if type(v) is type(pathlib.Path("x")) else "path-subclass:" + type(v).__name__
    if isinstance(v, _enum.Enum):
        return "enum:" + type(v).__name__
    return type(v).__name__


def expected_type(v):
    t = v["t"]
    if t in ("list", "tuple"):
        return [t] + [expected_type(x) for x in v["v"]]
    if t == "none":
        return "NoneType"
    if t == "enum":
        return "enum:" + v["cls"]
    return t


def run_parse(c, argv, postponed=False):
    import simple_parsing

    u, cls = build(c["fields"], postponed)
    sp.reset_globals()
    if c["api"] == "parse":
        r = sp.run_outcome(lambda: simple_parsing.parse(cls, args=argv, dest="config"))
        inst = r.get("value")
    else:
        parser = sp.make_parser(c["cfg"])
        parser.add_arguments(cls, dest="config")
        sp.decoy(c["cfg"])   # a parser constructed later with other settings must not change this one's options
        r = sp.run_outcome(lambda: parser.parse_args(argv))
        inst = getattr(r["value"], "config") if r["o"] == "ok" else None
    if r["o"] == "ok":
        import json

        # (JSON round trip: sp.cv keeps str / int SUBCLASS instances as they are; the exact types are reported apart)
        return {"o": "ok", "fields": json.loads(json.dumps([[f.name, sp.cv(getattr(inst, f.name))] for f in dataclasses.fields(inst)])),
                "types": {f.name: exact_type(getattr(inst, f.name)) for f in dataclasses.fields(inst)}}
    return {k: v for k, v in r.items() if k != "value"}


TYPE_TAGS = {int: "int", float: "float", str: "str"}


def conv_tag(fn):
    import pathlib

    from simple_parsing.utils import str2bool

    if fn in TYPE_TAGS:
        return TYPE_TAGS[fn]
    if fn is str2bool:
        return "bool"
    if fn is pathlib.Path:
        return "path"
    name = getattr(fn, "__name__", "")
    qual = getattr(fn, "__qualname__", "")
    if "no_op" in name:
        return "noop"
    wrapped = getattr(fn, "__wrapped__", None)
    import enum as _enum

    if wrapped is not None and isinstance(wrapped, type) and issubclass(wrapped, _enum.Enum):
        return "enum:" + wrapped.__name__
    if "_try_functions" in qual:
        return "union"
    if "_parse_tuple" in qual:
        return "tuple"
    return "other:" + name


def impl(case):
    c = case["case"]
    if case["op"] == "fields.parse":
        r = run_parse(c, c["argv"])
        if not any("choice" in f or f["ty"]["k"] == "any" for f in c["fields"]):
            # the same dataclass written as in a module with `from __future__ import annotations` (string annotations,
            # builtin generics, `X | None`): the field types are the same types, so the same argv must give the same result
            t = run_parse(c, c["argv"], postponed=True)
            r["postponed"] = "same" if t == {k: v for k, v in r.items() if k != "postponed"} else t
        return r
    if case["op"] == "engine.run":
        # the REAL parser of the one-field dataclass c["src"], observed as the engine's namespace
        f = c["src"]["fields"][0]
        r = run_parse({"fields": c["src"]["fields"], "api": "parse", "cfg": DEFAULT_CFG}, c["argv"])
        if r["o"] == "ok":
            return {"o": "ok", "ns": [["config." + f["name"], dict(r["fields"])[f["name"]]]]}
        return r
    # fields.argopts: read the real argparse actions
    u, cls = build(c["fields"])
    sp.reset_globals()
    parser = sp.make_parser({})
    parser.add_arguments(cls, dest="config")
    r = sp.run_outcome(lambda: parser._preprocessing(args=[]))
    if r["o"] != "ok":
        return {"setup": {k: v for k, v in r.items() if k != "value"}}
    from simple_parsing.helpers.custom_actions import BooleanOptionalAction

    outs = []
    for f in c["fields"]:
        a = sp.action_for_dest(parser, "config." + f["name"])
        d = a.default
        outs.append({"nargs": a.nargs, "conv": conv_tag(a.type), "choices": list(a.choices) if a.choices is not None else None,
                     "required": bool(a.required), "default": sp.cv(d), "bool_action": isinstance(a, BooleanOptionalAction)})
    return {"opts": outs}


def model_case(case, obs):
    c = case["case"]
    if case["op"] == "fields.parse":
        toks = list(c["argv"])
        for a in c["argv"]:
            if "=" in a:
                toks.append(a.split("=", 1)[1])
        for f in c["fields"]:
            d = f["default"]
            if d["kind"] != "missing" and d["v"]["t"] == "str":
                toks.append(d["v"]["v"])
        return {"cfg": c["cfg"], "dest": "config", "fields": c["fields"], "argv": c["argv"], "floats": G.floats_table(toks)}
    if case["op"] == "engine.run":
        return {"table": c["table"], "argv": c["argv"], "strict": True, "floats": []}
    return {"fields": c["fields"]}


def project(case, obs):
    if case["op"] == "fields.parse":
        if obs["o"] == "ok":
            return {"o": "ok", "fields": obs["fields"]}
        if obs["o"] == "exit":
            return {"o": "exit", "code": obs["code"]}
        return {"o": "raise", "exc": obs["exc"]}
    if case["op"] == "engine.run":
        if obs["o"] == "ok":
            return {"o": "ok", "ns": obs["ns"]}
        if obs["o"] == "exit":
            return {"o": "exit", "code": obs["code"], "kind": obs.get("kind")}
        return {"o": "raise", "exc": obs["exc"]}
    if "setup" in obs:
        return obs
    # the model's union/tuple tags carry the member list; the real closure only reveals its kind
    return obs


def project_model(case, mo):
    if case["op"] == "fields.parse":
        if mo.get("o") == "exit":
            return {"o": "exit", "code": mo["code"]}
        return mo
    if case["op"] == "engine.run":
        if mo.get("o") == "ok":
            return {"o": "ok", "ns": mo["ns"]}
        return mo
    for o in mo.get("opts", []):
        if isinstance(o.get("conv"), str):
            for pre in ("union<", "tuple<"):
                if o["conv"].startswith(pre):
                    o["conv"] = pre[:-1]
            if o["conv"] == "enum:Literal":   # (a model of `type=Literal[…]`, should Model/Fields.lean adopt one)
                o["conv"] = "other:Literal"
    return mo


def model_unmodelled(mo):
    if mo.get("o") == "unmodelled":
        return True
    return any(o.get("unmodelled") for o in mo.get("opts", []) if isinstance(o, dict))


def is_union_field(f):
    return f["ty"]["k"] == "union" or (f["ty"]["k"] == "opt" and f["ty"]["inner"]["k"] == "union")


def oracle(case, obs):
    c = case["case"]
    fails = []
    if case["op"] == "engine.run":
        return fails   # correspondence only (the property itself is evaluated on the fields.parse cases)
    if case["op"] != "fields.parse":
        if "setup" in obs:
            fails.append({"clause": "setup", "detail": str(obs["setup"])})
        return fails
    if not c["asg"] and any(f["default"]["kind"] == "missing" and f["ty"]["k"] != "opt" for f in c["fields"]):
        return fails  # no expressible assignment was found for a required field: nothing to check
    if obs.get("postponed", "same") != "same":
        fails.append({"clause": "postponed-annotations",
                      "detail": f"argv {c['argv']}: the dataclass declared with string annotations gives {obs['postponed']}, "
                                f"declared with evaluated annotations {({k: v for k, v in obs.items() if k != 'postponed'})}"})
    if obs["o"] != "ok":
        fails.append({"clause": "roundtrip", "detail": f"canonical argv {c['argv']} was not accepted: {obs}"})
        return fails
    got = dict((k, v) for k, v in obs["fields"])
    types = obs.get("types", {})
    for f in c["fields"]:
        nm = f["name"]
        if nm in c["asg"]:
            exp = c["asg"][nm]
            if is_union_field(f):
                if not G.value_type_ok(got[nm], f["ty"]):
                    fails.append({"clause": "type", "detail": f"{nm}: {got[nm]} does not conform to {f['ty']}"})
                continue
            if got[nm] != exp:
                fails.append({"clause": "roundtrip", "field": nm,
                              "detail": f"{nm}: wrote {exp} as {(c.get('toks') or {}).get(nm) or G.tokens(exp)}, received {got[nm]} (argv {c['argv']})"})
            elif nm in types and types[nm] != expected_type(exp):
                fails.append({"clause": "same-python-type", "field": nm,
                              "detail": f"{nm}: wrote {exp}, received an equal value of exact type {types[nm]} (argv {c['argv']})"})
        elif is_union_field(f):
            continue  # Union is not in the property's list of supported field types: only conformance is checked
        else:
            d = f["default"]
            exp = d["v"] if d["kind"] != "missing" else {"t": "none"}
            if got[nm] != exp:
                fails.append({"clause": "unmentioned-default", "field": nm,
                              "detail": f"{nm} was not mentioned but is {got[nm]} instead of its default {exp} (argv {c['argv']})"})
    return fails


def nontrivial(case, obs):
    c = case["case"]
    if case["op"] == "engine.run":
        return bool(c["argv"])
    if case["op"] != "fields.parse":
        return len(c["fields"]) >= 2
    return len(c["asg"]) >= 2 or any(v["t"] in ("list", "tuple", "enum", "none") for v in c["asg"].values())


def field_kind(f):
    if "choice" in f:
        ch = f["choice"]
        if ch["kind"] == "plain":
            ts = {o["t"] for o in ch["options"]}
            return "choice-" + ("str" if ts == {"str"} else "mixed" if "str" in ts else "nonstr")
        return "choice-" + ch["kind"]
    t = f["ty"]
    k = t["k"]
    if k == "opt":
        return "opt-" + t["inner"]["k"]
    if k == "list" and t["item"]["k"] == "literal":
        return "list-literal"
    return k


def tags(case, obs):
    c = case["case"]
    t = [f"op:{case['op']}"]
    if case["op"] == "engine.run":
        return t + ["out:" + obs["o"], "special:" + field_kind(c["src"]["fields"][0])]
    if case["op"] == "fields.parse":
        t += [f"set:{len(c['asg'])}", f"fields:{len(c['fields'])}", f"api:{c['api']}", "out:" + obs["o"],
              "cfg:" + c["cfg"]["dash"] + "/" + c["cfg"]["gen"]]
        if c.get("twin_of") is not None:
            t.append("twin")
        if c.get("alts") and any(c["alts"]):
            t.append("alt-option-string")
        for a in c["argv"]:
            if a.startswith("-") and "=" in a and not G.is_plain_negative_number(a):
                t.append("spelling:eq")
                break
        if any(not a.startswith("-") or G.is_plain_negative_number(a) for a in c["argv"]):
            t.append("spelling:spaced")
        if any(G.is_plain_negative_number(a) or ("=" in a and G.is_plain_negative_number(a.split("=", 1)[1])) for a in c["argv"]):
            t.append("negative-number")
        for f in c["fields"]:
            if f["name"] in c["asg"]:
                t.append("ty:" + field_kind(f))
                v = c["asg"][f["name"]]
                if v["t"] in ("list", "tuple") and not v["v"]:
                    t.append("empty-container")
                if v["t"] == "none":
                    t.append("bare-none")
                if v["t"] == "str" and v["v"] == "":
                    t.append("empty-string")
                if f["ty"]["k"] == "literal" and sum(1 for w in f["ty"]["vals"] if G.token(w) == G.token(v)) > 1:
                    t.append("literal-collide")
            else:
                t.append("unset:" + ("missing" if f["default"]["kind"] == "missing" else f["default"]["v"]["t"]))
    return t


def shrink(case):
    if case["op"] != "fields.parse":
        return
    c = case["case"]
    toks_of = c.get("toks")
    cfg = c["cfg"] if c.get("alts") is not None else None

    def mk(fields, asg, order, eq, alts):
        cc = dict(c, fields=fields, asg=asg, order=order, eq=eq, argv=render(fields, asg, order, eq, toks_of, cfg, alts))
        if alts is not None:
            cc["alts"] = alts
        out = {"op": case["op"], "case": cc}
        if case.get("model") is False:
            out["model"] = False
        return out

    def sub(name_out):
        keep = [i for i, o in enumerate(c["order"]) if o != name_out]
        order = [c["order"][i] for i in keep]
        eq = [c["eq"][i] for i in keep]
        alts = [c["alts"][i] for i in keep] if c.get("alts") is not None else None
        return order, eq, alts

    for i, f in enumerate(c["fields"]):
        if len(c["fields"]) > 1 and not (f["name"] in c["asg"] and len(c["asg"]) == 1):
            fields = c["fields"][:i] + c["fields"][i + 1:]
            asg = {k: v for k, v in c["asg"].items() if k != f["name"]}
            order, eq, alts = sub(f["name"])
            yield mk(fields, asg, order, eq, alts)
    for nm in list(c["asg"]):
        f = next(x for x in c["fields"] if x["name"] == nm)
        if f["default"]["kind"] != "missing" or f["ty"]["k"] == "opt":
            asg = {k: v for k, v in c["asg"].items() if k != nm}
            order, eq, alts = sub(nm)
            yield mk(c["fields"], asg, order, eq, alts)


# -- open findings (narrow signatures) ---------------------------------------------------------------------------


def _wrapped_literal_hit(case, obs, fail):
    """Optional[Literal] / List[Literal]: `type=` is the typing object → every token is "invalid Literal value" (exit 2);
    also a STRING default of such a field, which argparse runs through `type=` when the option is absent"""
    if case["op"] != "fields.parse" or fail.get("clause") != "roundtrip" or "field" in fail:
        return False
    if not (obs.get("o") == "exit" and obs.get("code") == 2 and obs.get("kind") == "type"):
        return False
    c = case["case"]
    for f in c["fields"]:
        if "choice" in f or not is_wrapped_literal(f["ty"]):
            continue
        nm = f["name"]
        if nm in c["asg"]:
            toks = (c.get("toks") or {}).get(nm)
            if toks:
                return True
        elif f["default"]["kind"] == "value" and f["default"]["v"]["t"] == "str":
            return True
    return False


def _choice_nonstr_hit(case, obs, fail):
    """choice(1, 2, 3): `type=str` against the VALUES as `choices` → a non-str option can never be written (exit 2)"""
    if case["op"] != "fields.parse" or fail.get("clause") != "roundtrip" or "field" in fail:
        return False
    if not (obs.get("o") == "exit" and obs.get("code") == 2 and obs.get("kind") == "choice"):
        return False
    c = case["case"]
    return any(f.get("choice", {}).get("kind") == "plain" and f["name"] in c["asg"] and c["asg"][f["name"]]["t"] != "str"
               for f in c["fields"])


FINDINGS = {
    "C02-wrapped-literal": _wrapped_literal_hit,
    "C02-choice-nonstr": _choice_nonstr_hit,
}
