"""C03 — every generated option addresses exactly one field of one destination."""
from __future__ import annotations

import itertools
import json

from harness.core import sp
from harness.core.trees import Universe, get_path

PID = "C03"
RULE = ("a case is a forest: dataclasses over the name alphabet {x,y,a,b,a_b,n,nox} (leaf int or bool fields, aliases, nested "
        "members, the same class reused as sibling members / at several depths / at several destinations, field names equal "
        "to destination names) registered at 1-3 destinations with optional user prefixes (plain 'p_' or dotted 'a.'), under "
        "AUTO / EXPLICIT / NONE, ~30% of the random forests under a non-default naming configuration (dash variant x "
        "FLAT/NESTED/BOTH x nested mode). Observed on the real parser: the flat field-wrapper list the resolver receives "
        "(order, parent dest, nesting level, initial prefix and option strings), the number of fix rounds, the error class of "
        "setup, or for every field the set of its option strings (bool leaves: positive and negative strings), then one real "
        "parse per option string (which leaves changed). Enumerated slice, both tiers: <= 2 classes (L with <= 2 leaves incl. "
        "an aliased and a bool leaf, P with <= 2 members of type L), depth <= 2, 1-3 registrations; thorough adds depth 3 (a "
        "class Q holding a member of type P). Directed: a class of 49 / 50 / 51 leaves registered twice under AUTO (the 50-"
        "round limit: ok / ConflictResolutionError / ConflictResolutionError). Random larger forests on top. Non-trivial = at "
        "least one clash exists (two fields share an initial option string); distinct by canonical JSON. ORACLE CLAUSES taken "
        "from the property text: total, unique, exact-leaf, bare, suffix, none-iff. EXTRA clauses (not in the text, kept "
        "because they caught seeded defects; each is a consistency requirement, not a new promise): 'front-end' — "
        "simple_parsing.parse()/parse_known_args() with the same settings resolve like the ArgumentParser; 'no-clash-ok' — "
        "AUTO/EXPLICIT set-up does not fail when no two fields share an option string.")
ASSUMPTIONS = ["argparse exact-match lookup of option strings", "dest names and field names are dot-free identifiers",
               "top-level destinations are pairwise distinct and every wrapper is registered once (the duplicate-wrapper / "
               "duplicate-dest guards at conflicts.py:75,79,142 — RuntimeError / assert — are not modelled and not generated)",
               "bool leaves use the default negative prefix '--no' (no negative_option / negative_prefix overrides) and are not aliased so "
               "that one of their own names is the negative flag of another (`nox: bool` aliased `--x`)"]
TRUSTED = ["stdlib argparse"]
EXHAUSTIVE = {"quick": False, "thorough": False}
MANIFEST = {
    "text": ("Proof (partial: AUTO/EXPLICIT/NONE resolution loop; ALWAYS_MERGE belongs to C11). Lean theorems over the "
             "model of ConflictResolver, each for any forest and any number of rounds: if resolution returns, every offered "
             "option string has exactly one owner and that owner is the field that generated it (c03_unique, "
             "c03_exactly_one, c03_owner_eq: loop exit condition); resolution only rewrites prefixes (c03_frame); a round "
             "touches only owners of the conflicting option (c03_round_untouched) and, under FLAT generation, a field whose "
             "option strings are dot-free and initially unshared is never an owner in any round and keeps its bare name "
             "(c03_bare, via: every rewritten prefix contains a dot, c03_stepDot); under AUTO every prefix stays empty or "
             "'.'-joined last words of the parent destination + '.' (c03_suffix_auto, invariant SufInv over rounds), under "
             "EXPLICIT it is empty or the full parent destination (c03_full_explicit); a successful AUTO round strictly "
             "lengthens prefixes (autoOne_progress, fixAuto_progress, c03_auto_round_progress), with decide-examples of "
             "forests needing 3 rounds / 1 round; NONE raises exactly when a clash exists (c03_none_iff); resolution is "
             "total: it returns or raises ConflictResolutionError (c03_total, full since fix 00d3779). Known findings kept "
             "visible: a field named h/help collides with the built-in help option (c03_setup_total_witness / "
             "c03_setup_total_partial), and the --no<x> flags of a bool leaf are added after resolution and can collide with "
             "a field named no<x> (c03_neg_clash_witness / c03_neg_total_partial); both surface as argparse.ArgumentError. "
             "NOT stated in Lean: what parsing an option string does — 'passing it changes that leaf and nothing else' is "
             "evaluated on the real parser only (one parse per option string). Model tied to the code by comparing the real "
             "flat wrapper list (order, parent dest, level, prefix) with the model's input and the final option-string sets / "
             "error class with its output."),
    "note": ("Trusted: Lean kernel + standard axioms; argparse lookup; harness. Modelled not verified: conflicts.py:65-315, "
             "field_wrapper.py:565-655. The order of equal-length option strings inside one field (a Python set) is modelled "
             "by its canonical order. The negative strings of bool leaves are not part of Model/Conflicts (local definitions "
             "in Props/C03.lean, observed on the real parser, cases with a negative-flag collision are oracle-only)."),
    "technique": "Lean 4 loop-exit/invariant/progress theorems over resolution rounds + differential check on real parsers",
    "design_ref": "DESIGN.md section 5, C03",
}

NAMES = ["x", "y", "a", "b", "a_b", "n", "nox"]
DESTS = ["a", "b", "x", "cfg"]
DEFAULT_CFG = {"dash": "UNDERSCORE", "gen": "FLAT", "nest": "DEFAULT"}
PROBE = {"int": "7", "bool": "false"}
PROBED = {"int": 7, "bool": False}


def leaf(n, al=(), kind="int"):
    return {"name": n, "ty": {"k": kind}, "alias": list(al)}


def mem(n, c):
    return {"name": n, "ty": {"k": "dc", "cls": c}, "default": {"kind": "factory", "v": None}}


def finish(classes):
    i = 0
    for c in classes:
        for f in c["fields"]:
            if f["ty"]["k"] == "int":
                f["default"] = {"kind": "value", "v": {"t": "int", "v": str(100 + i)}}
                i += 1
            elif f["ty"]["k"] == "bool":
                # default True: both `--x false` and the negative flag `--nox` change the leaf
                f["default"] = {"kind": "value", "v": {"t": "bool", "v": True}}
    return classes


def case_of(classes, regs, mode, cfg=None):
    return {"op": "conflicts.resolve", "case": {"classes": finish([dict(c, fields=[dict(f) for f in c["fields"]]) for c in classes]),
                                                 "regs": regs, "mode": mode, "cfg": dict(cfg or DEFAULT_CFG)}}


MODES = ("AUTO", "EXPLICIT", "NONE")


def exhaustive_slice(tier):
    seen = set()

    def emit(classes, regs, mode, cfg=None):
        c = case_of(classes, regs, mode, cfg)
        key = json.dumps(c, sort_keys=True)
        if key in seen:
            return
        seen.add(key)
        yield c

    full = [[leaf("x")], [leaf("y")], [leaf("x"), leaf("y")], [leaf("a")]]
    # an aliased leaf (x also reachable as --y) next to a leaf y; a bool leaf (its --no<x> flags follow the prefix)
    extra = [[leaf("x", ["--y"])], [leaf("x", ["--y"]), leaf("y")], [leaf("x", kind="bool")],
             [leaf("x", kind="bool"), leaf("y")]]
    for li, lf in enumerate(full + extra):
        reduced = li >= len(full)
        L = {"name": "L", "fields": lf}
        own_names = {f["name"] for f in lf}
        # (i) L alone at 1..3 destinations
        for nreg in ((1, 2) if reduced else (1, 2, 3)):
            for dests in itertools.permutations(["a", "b", "x"], nreg):
                pfxs = ([None] * nreg, ["p_"] + [None] * (nreg - 1), ["p_"] * nreg, ["p_", "q_", "r_"][:nreg])
                for pfx in (pfxs[:2] if reduced else pfxs):
                    regs = [{"cls": "L", "dest": d, "prefix": p or ""} for d, p in zip(dests, pfx)]
                    for mode in MODES:
                        yield from emit([L], regs, mode)
        # (ii) parent with one or two members of type L, optional own leaf
        for own in ((None, "y") if reduced else (None, "x", "y")):
            for members in ((["a"], ["a", "x"]) if reduced else (["a"], ["x"], ["a", "b"], ["a", "x"])):
                fields = ([leaf(own)] if own else []) + [mem(m, "L") for m in members]
                if own in members:
                    continue
                P = {"name": "P", "fields": fields}
                reglists = ([{"cls": "P", "dest": "a", "prefix": ""}],
                            [{"cls": "P", "dest": "a", "prefix": ""}, {"cls": "P", "dest": "b", "prefix": ""}],
                            [{"cls": "P", "dest": "a", "prefix": ""}, {"cls": "L", "dest": "b", "prefix": ""}],
                            [{"cls": "L", "dest": "a", "prefix": ""}, {"cls": "P", "dest": "x", "prefix": ""}],
                            [{"cls": "P", "dest": "x", "prefix": "p_"}, {"cls": "L", "dest": "b", "prefix": ""}])
                for regs in (reglists[:3] if reduced else reglists):
                    for mode in MODES:
                        yield from emit([L, P], regs, mode)
                # (iii) thorough: depth 3 — a class Q holding a member of type P (and optionally a leaf / a second member)
                if tier == "thorough" and not reduced:
                    for qown in (None, "x", "y"):
                        for qmem in (["a"], ["b"], ["a", "b"], ["x"]):
                            if qown in qmem:
                                continue
                            Q = {"name": "Q", "fields": ([leaf(qown)] if qown else []) + [mem(m, "P") for m in qmem]}
                            for regs in ([{"cls": "Q", "dest": "a", "prefix": ""}],
                                         [{"cls": "Q", "dest": "a", "prefix": ""}, {"cls": "Q", "dest": "b", "prefix": ""}],
                                         [{"cls": "Q", "dest": "a", "prefix": ""}, {"cls": "P", "dest": "b", "prefix": ""}],
                                         [{"cls": "L", "dest": "a", "prefix": ""}, {"cls": "Q", "dest": "x", "prefix": ""}]):
                                for mode in MODES:
                                    yield from emit([L, P, Q], regs, mode)
    # every naming configuration on two small forests (reuse at two destinations; a member named like a leaf)
    L = {"name": "L", "fields": [leaf("x"), leaf("a_b", ["--y"])]}
    P = {"name": "P", "fields": [leaf("x"), mem("a", "L"), mem("a_b", "L")]}
    for dash in sp.ALL_DASH:
        for g in sp.ALL_GEN:
            for nest in sp.ALL_NEST:
                cfg = {"dash": dash, "gen": g, "nest": nest}
                if cfg == DEFAULT_CFG:
                    continue
                for mode in MODES:
                    yield from emit([L], [{"cls": "L", "dest": "a", "prefix": ""}, {"cls": "L", "dest": "b", "prefix": ""}], mode, cfg)
                    yield from emit([L, P], [{"cls": "P", "dest": "a", "prefix": ""}], mode, cfg)
    # dotted user prefixes (a prefix that looks like a generated one)
    L = {"name": "L", "fields": [leaf("x"), leaf("y")]}
    # (the last rows: user prefixes with MORE dotted words than the destination has - AUTO has no word left to add and
    #  must say so with ConflictResolutionError, fix 00d3779 - and a prefix mixing '_' and '.')
    for pfx in (["a.", ""], ["a.", "a."], ["b.", ""], ["a.", "b."], ["", "a."], ["p.q.", "p.q."], ["p.q.r.", "p.q.r."],
                ["p.q.", ""], ["p.q.", "p."], ["p_q.r.", "p_q.r."], ["p.", "p."], ["p_", "p_"]):
        for mode in MODES:
            yield from emit([L], [{"cls": "L", "dest": d, "prefix": p} for d, p in zip(["a", "b"], pfx)], mode)


def limit_cases():
    """the 50-round limit (conflicts.py:63,107-109): one round per clashing name; the code raises after the 50th fix
    whether or not a conflict is left. A class with n long-named leaves registered at a and b needs n rounds."""
    for n in (49, 50, 51):
        W = {"name": "W", "fields": [leaf(f"f{i:02d}") for i in range(n)]}
        yield case_of([W], [{"cls": "W", "dest": "a", "prefix": ""}, {"cls": "W", "dest": "b", "prefix": ""}], "AUTO")
    W = {"name": "W", "fields": [leaf(f"f{i:02d}") for i in range(51)]}
    yield case_of([W], [{"cls": "W", "dest": "a", "prefix": ""}, {"cls": "W", "dest": "b", "prefix": ""}], "EXPLICIT")


def random_forest(rng):
    n_cls = rng.choice([1, 2, 2, 3, 3, 4])
    classes = []
    for ci in range(n_cls):
        names = rng.sample(NAMES, rng.randint(1, 3))
        fields = []
        for nm in names:
            if classes and rng.random() < 0.5:
                fields.append(mem(nm, rng.choice(classes)["name"]))
            else:
                al = [rng.choice(["-q", "zz", "--x", "y", "--a_b"])] if rng.random() < 0.2 else []
                kind = "bool" if rng.random() < 0.2 else "int"
                if kind == "bool" and any(nm == "no" + a.lstrip("-") for a in al):
                    al = []    # a bool leaf `nox` aliased `--x` negates itself (`--nox` = its name AND x's negative flag): C12's business
                fields.append(leaf(nm, al, kind))
        classes.append({"name": f"K{ci}", "fields": fields})
    nreg = rng.choice([1, 2, 2, 3])
    dests = rng.sample(DESTS, nreg)
    regs = []
    for d in dests:
        cls = rng.choice(classes[-2:] if rng.random() < 0.7 else classes)["name"]
        regs.append({"cls": cls, "dest": d, "prefix": rng.choice(["", "", "", "", "p_", "q_", d + ".", "a.", "p.q.", "p.q.r.", "p.", "p_q."])})
    # keep only reachable classes
    used = set()

    def reach(cn):
        if cn in used:
            return
        used.add(cn)
        for f in next(c for c in classes if c["name"] == cn)["fields"]:
            if f["ty"]["k"] == "dc":
                reach(f["ty"]["cls"])

    for r in regs:
        reach(r["cls"])
    classes = [c for c in classes if c["name"] in used]
    if rng.random() < 0.7:
        cfg = None
    else:
        cfg = {"dash": rng.choice(sp.ALL_DASH), "gen": rng.choice(["FLAT", "FLAT", "BOTH", "NESTED"]), "nest": rng.choice(sp.ALL_NEST)}
    return case_of(classes, regs, rng.choice(["AUTO", "AUTO", "EXPLICIT", "NONE"]), cfg)


def gen(rng, tier):
    yield from limit_cases()
    yield from exhaustive_slice(tier)
    for _ in range(300 if tier == "quick" else 16000):
        yield random_forest(rng)


# -----------------------------------------------------------------------------------------------


def field_recs(c):
    """flat list of field records in `_flatten_wrappers` order (pure function of the case); compared with what the real
    resolver receives (obs['wrappers']) in project()."""
    cls = {k["name"]: k for k in c["classes"]}
    out = []

    def walk(cname, path, level, prefix):
        for f in cls[cname]["fields"]:
            if f["ty"]["k"] != "dc":
                kind = f["ty"]["k"]
                dv = f["default"]["v"]["v"]
                out.append({"name": f["name"], "parent_dest": ".".join(path), "level": level,
                            "aliases": f.get("alias", []), "prefix": prefix, "path": path + [f["name"]],
                            "kind": kind, "default": (int(dv) if kind == "int" else bool(dv))})
        for f in cls[cname]["fields"]:
            if f["ty"]["k"] == "dc":
                walk(f["ty"]["cls"], path + [f["name"]], level + 1, "")

    for r in c["regs"]:
        walk(r["cls"], [r["dest"]], 1, r["prefix"])
    return out


def _build(c):
    u = Universe().add_classes(c["classes"])
    sp.reset_globals()
    parser = sp.make_parser(dict(c["cfg"], cr=c["mode"]))
    for r in c["regs"]:
        parser.add_arguments(u.classes[r["cls"]], dest=r["dest"], prefix=r["prefix"])
    sp.decoy(c["cfg"])   # conflicts must be found and resolved with THIS parser's settings, whatever was constructed later
    return parser


def _instrument(parser, log):
    """observe (on this parser object only) what the resolver is given and how many fix rounds it runs"""
    res = getattr(parser, "_conflict_resolver", None)
    if res is None:
        return
    orig_get = res.get_conflict

    def get_conflict(wrappers):
        if "first" not in log:
            fws = []
            for w in wrappers:
                fws.extend(w.fields if hasattr(w, "fields") else [w])
            log["first"] = [{"name": fw.name, "parent_dest": fw.parent.dest, "level": fw.nesting_level,
                             "aliases": list(fw.aliases), "prefix": fw.prefix, "dest": fw.dest,
                             "opts": sorted(set(fw.option_strings))} for fw in fws]
        return orig_get(wrappers)

    res.get_conflict = get_conflict
    for nm in ("_fix_conflict_auto", "_fix_conflict_explicit"):
        orig = getattr(res, nm, None)
        if orig is None:
            continue

        def wrapped(conflict, _o=orig):
            log["rounds"] = log.get("rounds", 0) + 1
            return _o(conflict)

        setattr(res, nm, wrapped)


def impl(case):
    c = case["case"]
    recs = field_recs(c)
    log = {}

    def setup():
        p = _build(c)
        _instrument(p, log)
        p._preprocessing(args=[])
        return p

    r = sp.run_outcome(setup)
    seen = {"wrappers": log.get("first"), "rounds": log.get("rounds", 0)}
    if r["o"] != "ok":
        return dict(seen, o=r["o"], exc=r.get("exc"), msg=r.get("msg", "")[:200], frontends=_frontends(c, recs, []))
    parser = r["value"]
    sets, negs = [], []
    for rec in recs:
        act = sp.action_for_dest(parser, ".".join(rec["path"]))
        if act is None:
            sets.append(None)
            negs.append(None)
            continue
        # BooleanOptionalAction registers positives + negatives (in this order); the positives are the field's own names
        ng = list(getattr(act, "negative_option_strings", None) or [])
        pos = list(act.option_strings)[: len(act.option_strings) - len(ng)]
        sets.append(sorted(set(pos)))
        negs.append(sorted(set(ng)))
    probes = []
    kinds = {}
    for rec, s, ng in zip(recs, sets, negs):
        for o in s or []:
            kinds.setdefault(o, rec["kind"])
        for o in ng or []:
            kinds.setdefault(o, "neg")
    all_opts = sorted(kinds)
    if len(all_opts) <= 40:
        # one real parse per option string (a fresh parser each); large forests: an evenly spaced sample of 16
        probe_opts = all_opts if len(all_opts) <= 16 else all_opts[:: max(1, len(all_opts) // 16)][:16]
        for opt in probe_opts:
            p2 = _build(c)
            argv = [opt] if kinds[opt] == "neg" else [opt, PROBE[kinds[opt]]]
            res = sp.run_outcome(lambda: p2.parse_args(argv))
            if res["o"] == "ok":
                ns = res["value"]
                changed = []
                for rec in recs:
                    v = get_path(ns, ".".join(rec["path"]))
                    if v != rec["default"] or type(v) is not type(rec["default"]):
                        changed.append([".".join(rec["path"]), v if isinstance(v, int) else repr(v)])
                probes.append({"opt": opt, "argv": argv, "o": "ok", "changed": changed})
            else:
                probes.append({"opt": opt, "argv": argv, "o": res["o"], "code": res.get("code"), "exc": res.get("exc")})
    return dict(seen, o="ok", sets=sets, negs=negs, probes=probes, frontends=_frontends(c, recs, probes))


def _frontends(c, recs, probes):
    """the one-shot helpers simple_parsing.parse / parse_known_args are the same set-up behind another entry point: with
    the same settings they must resolve (or refuse) exactly like the ArgumentParser (single registration only: that is
    all they offer)"""
    import simple_parsing

    if len(c["regs"]) != 1:
        return []
    reg = c["regs"][0]
    u = Universe().add_classes(c["classes"])
    cls = u.classes[reg["cls"]]
    ok = [p for p in probes if p["o"] == "ok"]
    argv = list(ok[0]["argv"]) if ok else []
    kw = dict(dest=reg["dest"], nested_mode=sp.NEST[c["cfg"]["nest"]], conflict_resolution=sp.CR[c["mode"]],
              add_option_string_dash_variants=sp.DASH[c["cfg"]["dash"]], argument_generation_mode=sp.GEN[c["cfg"]["gen"]])
    out = []

    def changed_of(inst):
        ch = []
        for rec in recs:
            v = get_path(inst, ".".join(rec["path"][1:]))
            if v != rec["default"] or type(v) is not type(rec["default"]):
                ch.append([".".join(rec["path"]), v if isinstance(v, int) else repr(v)])
        return ch

    def record(api, res, pick):
        if res["o"] == "ok":
            out.append({"api": api, "argv": argv, "o": "ok", "changed": changed_of(pick(res["value"]))})
        else:
            out.append({"api": api, "argv": argv, "o": res["o"], "code": res.get("code"), "exc": res.get("exc")})

    sp.reset_globals()
    record("parse", sp.run_outcome(lambda: simple_parsing.parse(cls, args=argv, prefix=reg["prefix"], **kw)), lambda v: v)
    if not reg["prefix"]:
        sp.reset_globals()
        record("parse_known_args", sp.run_outcome(lambda: simple_parsing.parse_known_args(cls, args=argv, **kw)), lambda v: v[0])
    return out


REC_KEYS = ("name", "parent_dest", "level", "aliases", "prefix")


def model_case(case, obs):
    c = case["case"]
    return {"cfg": c["cfg"], "mode": c["mode"], "reserved": ["-h", "--help"],
            "recs": [{k: r[k] for k in REC_KEYS} for r in field_recs(c)]}


def _neg_clash_obs(case, obs):
    """narrow signature of the open finding C03-neg-clash on an observation: set-up died in add_argument with
    'conflicting option string(s): …' naming the --no<x> string of a bool leaf x of the case"""
    if obs.get("o") != "raise" or obs.get("exc") != "ArgumentError":
        return False
    msg = obs.get("msg", "")
    if "conflicting option string" not in msg:
        return False
    clashing = [w.strip() for w in msg.split("conflicting option string", 1)[1].lstrip("s").lstrip(":").split(",")]
    bools, names = set(), set()
    for k in case["case"]["classes"]:
        for f in k["fields"]:
            mine = {f["name"]} | {a.lstrip("-") for a in f.get("alias", [])}
            names |= mine
            if f["ty"]["k"] == "bool":
                bools |= mine
    for o in clashing:
        last = o.lstrip("-").split(".")[-1]
        # … and the case does contain a field (or alias) literally spelled no<x>
        if last.startswith("no") and last[2:] in bools and last in names:
            return True
    return False


def skip_model(case, obs):
    """Model/Conflicts does not know the negative flags of bool leaves: a case that dies on a negative-flag collision
    (open finding C03-neg-clash) is judged by the oracle only."""
    return _neg_clash_obs(case, obs)


def project(case, obs):
    # the flat wrapper list the REAL resolver received (order, parent dest, nesting level, aliases, initial prefix) is
    # compared with the list the model was given (project_model), the outcome with the model's outcome
    seen = None if obs.get("wrappers") is None else [{k: w[k] for k in REC_KEYS} for w in obs["wrappers"]]
    if obs["o"] == "ok":
        return {"o": "ok", "sets": obs["sets"], "recs": seen}
    return {"o": obs["o"], "exc": obs["exc"], "recs": seen}


def project_model(case, mo):
    given = [{k: r[k] for k in REC_KEYS} for r in field_recs(case["case"])]
    if mo.get("o") == "ok":
        return {"o": "ok", "sets": mo["sets"], "recs": given}
    return dict(mo, recs=given)


def initial_names(rec, c):
    """initial option bodies under FLAT/UNDERSCORE: prefix+name and prefix+alias"""
    out = {rec["prefix"] + rec["name"]}
    for a in rec["aliases"]:
        out.add(rec["prefix"] + a.lstrip("-"))
    return out


def default_cfg(c):
    return c["cfg"] == DEFAULT_CFG


def clash_exists(c, obs=None):
    """two fields share an initial option string. Default configuration: computed from the case alone (name / alias
    bodies). Other configurations: from the option strings the real field wrappers report before resolution."""
    if not default_cfg(c) and (not obs or not obs.get("wrappers")):
        return None     # unknown: the clash-dependent clauses are skipped
    if default_cfg(c):
        recs = field_recs(c)
        for i in range(len(recs)):
            for j in range(i + 1, len(recs)):
                if initial_names(recs[i], c) & initial_names(recs[j], c):
                    return True
        return False
    ws = obs["wrappers"]
    for i in range(len(ws)):
        for j in range(i + 1, len(ws)):
            if set(ws[i]["opts"]) & set(ws[j]["opts"]):
                return True
    return False


def _clashes_with_other(i, recs, c, obs):
    if default_cfg(c) or not obs.get("wrappers") or len(obs["wrappers"]) != len(recs):
        mine = initial_names(recs[i], c)
        return any(mine & initial_names(o, c) for j, o in enumerate(recs) if j != i)
    ws = obs["wrappers"]
    return any(set(ws[i]["opts"]) & set(w["opts"]) for j, w in enumerate(ws) if j != i)


def oracle(case, obs):
    c = case["case"]
    fails = []
    recs = field_recs(c)
    clash = clash_exists(c, obs)
    if obs["o"] != "ok":
        if not (obs["o"] == "raise" and obs["exc"] == "ConflictResolutionError"):
            fails.append({"clause": "total", "exc": obs.get("exc"),
                          "detail": f"setup neither succeeded nor raised ConflictResolutionError: {obs}"})
        if clash is False:
            if c["mode"] == "NONE":
                fails.append({"clause": "none-iff", "detail": f"NONE failed although no two fields clash: {obs}"})
            else:
                fails.append({"clause": "no-clash-ok", "detail": f"setup failed although no two fields clash: {obs}"})
        for fe in obs.get("frontends", []):
            if not (fe["o"] == obs["o"] and fe.get("exc") == obs.get("exc")):
                fails.append({"clause": "front-end", "api": fe["api"],
                              "detail": f"ArgumentParser set-up gives {obs['o']}/{obs.get('exc')} but simple_parsing.{fe['api']}() with the same settings gives {fe}"})
        return fails
    if c["mode"] == "NONE" and clash:
        fails.append({"clause": "none-iff", "detail": "a clash exists but NONE mode did not raise"})
    owner = {}
    for rec, s, ng in zip(recs, obs["sets"], obs["negs"]):
        key = ".".join(rec["path"])
        if not s:
            fails.append({"clause": "unique", "detail": f"no action for {key}"})
            continue
        for o in list(s) + list(ng or []):
            if o in owner and owner[o] != key:
                fails.append({"clause": "unique", "detail": f"{o} belongs to {owner[o]} and {key}"})
            owner[o] = key
    want_val = {".".join(r["path"]): PROBED[r["kind"]] for r in recs}
    for p in obs["probes"]:
        tgt = owner.get(p["opt"])
        if p["o"] != "ok" or p["changed"] != [[tgt, want_val.get(tgt)]]:
            fails.append({"clause": "exact-leaf", "detail": f"{p['argv']} should change exactly {tgt}: {p}"})
    ref_probe = next((p for p in obs["probes"] if p["o"] == "ok"), None)
    for fe in obs.get("frontends", []):
        want = ref_probe["changed"] if (ref_probe and fe["argv"]) else []
        if fe["o"] != "ok" or fe["changed"] != want:
            fails.append({"clause": "front-end", "api": fe["api"],
                          "detail": f"argv {fe['argv']}: the ArgumentParser changes {want}, simple_parsing.{fe['api']}() with the same settings gives {fe}"})
    no_user_prefix = all(not r["prefix"] for r in c["regs"])
    if no_user_prefix:
        gen, nest = c["cfg"]["gen"], c["cfg"]["nest"]
        for i, (rec, s) in enumerate(zip(recs, obs["sets"])):
            if not s:
                continue
            path = rec["path"]
            # bare: a field that clashes with nothing keeps its bare name (default cfg: -x/--name is still there; any
            # cfg: its option strings are exactly the ones it had before resolution)
            if not _clashes_with_other(i, recs, c, obs):
                if default_cfg(c) and ("--" if len(rec["name"]) > 1 else "-") + rec["name"] not in s:
                    fails.append({"clause": "bare", "detail": f"{'.'.join(path)} clashes with nothing but lost its bare name: {s}"})
                ws = obs.get("wrappers")
                if ws and len(ws) == len(recs) and sorted(set(ws[i]["opts"])) != s:
                    fails.append({"clause": "bare", "detail": f"{'.'.join(path)} clashes with nothing but its option strings changed: {ws[i]['opts']} -> {s}"})
            # suffix: every generated name is a dotted suffix of the destination path (the full path under EXPLICIT);
            # dash variants spell '_' as '-'; NESTED/BOTH add the full path (without its root under WITHOUT_ROOT)
            for o in s:
                body = o.lstrip("-").replace("-", "_")
                ok = False
                for is_name, last in [(True, rec["name"])] + [(False, a.lstrip("-")) for a in rec["aliases"]]:
                    comps = path[:-1] + [last]
                    sufs = [".".join(comps[k:]) for k in range(len(comps))]
                    allowed = [sufs[0], sufs[-1]] if c["mode"] == "EXPLICIT" else list(sufs)
                    if gen != "FLAT" and is_name:
                        allowed.append(sufs[1] if nest == "WITHOUT_ROOT" else sufs[0])
                    if gen == "NESTED" and is_name:
                        allowed = [sufs[1] if nest == "WITHOUT_ROOT" else sufs[0]]
                    if body in allowed:
                        ok = True
                if not ok:
                    fails.append({"clause": "suffix", "detail": f"option {o} of {'.'.join(path)} is not a dotted suffix of its destination path"})
    return fails


def nontrivial(case, obs):
    return bool(clash_exists(case["case"], obs))


def tags(case, obs):
    c = case["case"]
    recs = field_recs(c)
    pf = [r["prefix"] for r in c["regs"] if r["prefix"]]
    t = [f"mode:{c['mode']}", f"regs:{len(c['regs'])}", f"classes:{len(c['classes'])}",
         f"fields:{len(recs) if len(recs) < 10 else '10+'}",
         "out:" + (obs["o"] if obs["o"] == "ok" else str(obs.get("exc"))), f"clash:{clash_exists(c, obs)}",
         "userprefix:" + ("none" if not pf else "dotted" if any("." in p for p in pf) else "plain"),
         f"defaultcfg:{default_cfg(c)}", f"gen:{c['cfg']['gen']}", f"dash:{c['cfg']['dash']}",
         f"alias:{any(r['aliases'] for r in recs)}", f"bool:{any(r['kind'] == 'bool' for r in recs)}",
         f"depth:{max((r['level'] for r in recs), default=0)}",
         "rounds:" + (str(obs.get("rounds", 0)) if obs.get("rounds", 0) < 5 else "5-48" if obs.get("rounds", 0) < 49 else str(obs.get("rounds")))]
    if obs["o"] == "ok":
        t.append(f"maxdots:{max((o.count('.') for s in obs['sets'] if s for o in s), default=0)}")
        n = len(obs["probes"])
        t.append("probes:" + ("none" if n == 0 else str(n) if n < 4 else "4-9" if n < 10 else "10+"))
    return t


def shrink(case):
    c = case["case"]
    if len(c["regs"]) > 1:
        for i in range(len(c["regs"])):
            yield {"op": case["op"], "case": dict(c, regs=c["regs"][:i] + c["regs"][i + 1:])}
    for ci, cl in enumerate(c["classes"]):
        for fi in range(len(cl["fields"])):
            if len(cl["fields"]) <= 1:
                continue
            nc = [dict(x, fields=list(x["fields"])) for x in c["classes"]]
            del nc[ci]["fields"][fi]
            yield {"op": case["op"], "case": dict(c, classes=nc)}
    for i, r in enumerate(c["regs"]):
        if r["prefix"]:
            regs = [dict(x) for x in c["regs"]]
            regs[i]["prefix"] = ""
            yield {"op": case["op"], "case": dict(c, regs=regs)}
    if not default_cfg(c):
        yield {"op": case["op"], "case": dict(c, cfg=dict(DEFAULT_CFG))}


def _help_clash(case, obs, fail):
    """D20: a field (or alias) spelled like the built-in -h/--help: setup raises argparse.ArgumentError
    ('conflicting option string: -h/--help') instead of ConflictResolutionError."""
    if fail.get("clause") not in ("total", "none-iff", "no-clash-ok") or obs.get("exc") != "ArgumentError":
        return False
    msg = obs.get("msg", "")
    if not (msg.endswith("conflicting option string: -h") or msg.endswith("conflicting option string: --help")):
        return False
    names = {f["name"] for k in case["case"]["classes"] for f in k["fields"]}
    names |= {a.lstrip("-") for k in case["case"]["classes"] for f in k["fields"] for a in f.get("alias", [])}
    return bool(names & {"h", "help"})


def _neg_clash(case, obs, fail):
    """the --no<x> flags of a bool leaf x are added by BooleanOptionalAction at add_argument time, after conflict
    resolution: a field (or alias) spelled no<x> collides with them and setup raises argparse.ArgumentError
    ('conflicting option string: --…no<x>') instead of ConflictResolutionError / a resolved parser."""
    if fail.get("clause") not in ("total", "none-iff", "no-clash-ok"):
        return False
    return _neg_clash_obs(case, obs)


FINDINGS = {"C03-help-clash": _help_clash, "C03-neg-clash": _neg_clash}
