"""C03 — every generated option addresses exactly one field of one destination."""
from __future__ import annotations

import itertools

from harness.core import sp
from harness.core.trees import Universe, get_path

PID = "C03"
RULE = ("a case is a forest: dataclasses over the name alphabet {x,y,a,b,a_b,n} (leaf int fields, nested members, the same "
        "class reused as sibling members / at several depths / at several destinations, field names equal to destination "
        "names) registered at 1-3 destinations with optional user prefixes, under AUTO / EXPLICIT / NONE. Observed on the "
        "real parser: error class of setup, or for every field the set of its option strings, then one real parse per "
        "option string (which leaves changed). A small slice (<= 2 classes) is enumerated exhaustively in both tiers; "
        "random larger forests on top. Non-trivial = at least one clash exists (two fields share an initial option "
        "string); distinct by canonical JSON.")
ASSUMPTIONS = ["argparse exact-match lookup of option strings", "dest names and field names are dot-free identifiers"]
TRUSTED = ["stdlib argparse"]
EXHAUSTIVE = {"quick": False, "thorough": False}
MANIFEST = {
    "text": ("Proof (partial: AUTO/EXPLICIT/NONE resolution loop; ALWAYS_MERGE belongs to C11). Lean theorems over the "
             "model of ConflictResolver: if resolution returns, no option string has two owners (exit condition of the "
             "loop, for any forest, any mode, any user prefixes); resolution only rewrites prefixes (names, destinations, "
             "aliases and order are untouched, so every option string keeps addressing its own field's destination); a "
             "field that is not an owner of the conflicting option is not touched by a round; NONE raises exactly when a "
             "clash exists; AUTO prefixes stay dotted suffixes of the parent destination (invariant over rounds, without "
             "user prefixes); resolution is total: it returns or raises ConflictResolutionError, never another error "
             "(c03_total, full since fix 00d3779 for equal user prefixes under AUTO). Known finding kept visible: a field "
             "named h/help collides with the built-in help option and setup fails with argparse.ArgumentError (witness "
             "c03_setup_total_witness, partial theorem c03_setup_total_partial for option sets that avoid -h/--help). Model tied to the code by comparing final option-string sets / "
             "error class on generated forests; the property's clauses (unique owner, exactly-one-leaf effect by a real "
             "parse per option, bare name, dotted suffix, NONE iff clash) are evaluated on the real parser."),
    "note": ("Trusted: Lean kernel + standard axioms; argparse lookup; harness incl. the computation of the flat field "
             "list from the class spec. Modelled not verified: conflicts.py:65-315, field_wrapper.py:565-655. The order "
             "of equal-length option strings inside one field (a Python set) is modelled by its canonical order."),
    "technique": "Lean 4 loop-exit/invariant theorems over resolution rounds + differential check on real parsers",
    "design_ref": "DESIGN.md section 5, C03",
}

NAMES = ["x", "y", "a", "b", "a_b", "n"]
DESTS = ["a", "b", "x", "cfg"]


def leaf(n, al=()):
    return {"name": n, "ty": {"k": "int"}, "alias": list(al)}


def mem(n, c):
    return {"name": n, "ty": {"k": "dc", "cls": c}, "default": {"kind": "factory", "v": None}}


def finish(classes):
    i = 0
    for c in classes:
        for f in c["fields"]:
            if f["ty"]["k"] == "int":
                f["default"] = {"kind": "value", "v": {"t": "int", "v": str(100 + i)}}
                i += 1
    return classes


def case_of(classes, regs, mode, cfg=None):
    return {"op": "conflicts.resolve", "case": {"classes": finish([dict(c, fields=[dict(f) for f in c["fields"]]) for c in classes]),
                                                 "regs": regs, "mode": mode,
                                                 "cfg": cfg or {"dash": "UNDERSCORE", "gen": "FLAT", "nest": "DEFAULT"}}}


def exhaustive_slice():
    leafsets = [["x"], ["y"], ["x", "y"], ["a"]]
    for lf in leafsets:
        L = {"name": "L", "fields": [leaf(n) for n in lf]}
        # (i) L alone at 1..3 destinations
        for nreg in (1, 2, 3):
            for dests in itertools.permutations(["a", "b", "x"], nreg):
                for pfx in ([None] * nreg, ["p_"] + [None] * (nreg - 1), ["p_"] * nreg, ["p_", "q_", "r_"][:nreg]):
                    regs = [{"cls": "L", "dest": d, "prefix": p or ""} for d, p in zip(dests, pfx)]
                    for mode in ("AUTO", "EXPLICIT", "NONE"):
                        yield case_of([L], regs, mode)
        # (ii) parent with one or two members of type L, optional own leaf
        for own in (None, "x", "y"):
            for members in (["a"], ["x"], ["a", "b"], ["a", "x"]):
                fields = ([leaf(own)] if own else []) + [mem(m, "L") for m in members]
                if own in members:
                    continue
                P = {"name": "P", "fields": fields}
                for regs in ([{"cls": "P", "dest": "a", "prefix": ""}],
                             [{"cls": "P", "dest": "a", "prefix": ""}, {"cls": "P", "dest": "b", "prefix": ""}],
                             [{"cls": "P", "dest": "a", "prefix": ""}, {"cls": "L", "dest": "b", "prefix": ""}],
                             [{"cls": "L", "dest": "a", "prefix": ""}, {"cls": "P", "dest": "x", "prefix": ""}],
                             [{"cls": "P", "dest": "x", "prefix": "p_"}, {"cls": "L", "dest": "b", "prefix": ""}]):
                    for mode in ("AUTO", "EXPLICIT", "NONE"):
                        yield case_of([L, P], regs, mode)


def random_forest(rng):
    n_cls = rng.choice([1, 2, 2, 3, 3, 4])
    classes = []
    for ci in range(n_cls):
        names = rng.sample(NAMES, rng.randint(1, 3))
        fields = []
        for nm in names:
            if classes and rng.random() < 0.5:
                fields.append(mem(nm, rng.choice(classes)["name"]))
            else:
                al = [rng.choice(["-q", "zz", "--x", "y", "--a_b"])] if rng.random() < 0.15 else []
                fields.append(leaf(nm, al))
        classes.append({"name": f"K{ci}", "fields": fields})
    nreg = rng.choice([1, 2, 2, 3])
    dests = rng.sample(DESTS, nreg)
    regs = []
    for d in dests:
        cls = rng.choice(classes[-2:] if rng.random() < 0.7 else classes)["name"]
        regs.append({"cls": cls, "dest": d, "prefix": rng.choice(["", "", "", "p_", "q_"])})
    # keep only reachable classes
    used = set()

    def reach(cn):
        if cn in used:
            return
        used.add(cn)
        for f in next(c for c in classes if c["name"] == cn)["fields"]:
            if f["ty"]["k"] == "dc":
                reach(f["ty"]["cls"])

    for r in regs:
        reach(r["cls"])
    classes = [c for c in classes if c["name"] in used]
    if rng.random() < 0.8:
        cfg = None
    else:
        cfg = {"dash": rng.choice(sp.ALL_DASH), "gen": rng.choice(["FLAT", "FLAT", "BOTH"]), "nest": rng.choice(sp.ALL_NEST)}
    return case_of(classes, regs, rng.choice(["AUTO", "AUTO", "EXPLICIT", "NONE"]), cfg)


def gen(rng, tier):
    yield from exhaustive_slice()
    for _ in range(400 if tier == "quick" else 20000):
        yield random_forest(rng)


# -----------------------------------------------------------------------------------------------


def field_recs(c):
    """flat list of field records in `_flatten_wrappers` order (pure function of the case)."""
    cls = {k["name"]: k for k in c["classes"]}
    out = []

    def walk(cname, path, level, prefix):
        for f in cls[cname]["fields"]:
            if f["ty"]["k"] != "dc":
                out.append({"name": f["name"], "parent_dest": ".".join(path), "level": level,
                            "aliases": f.get("alias", []), "prefix": prefix, "path": path + [f["name"]],
                            "default": int(f["default"]["v"]["v"])})
        for f in cls[cname]["fields"]:
            if f["ty"]["k"] == "dc":
                walk(f["ty"]["cls"], path + [f["name"]], level + 1, "")

    for r in c["regs"]:
        walk(r["cls"], [r["dest"]], 1, r["prefix"])
    return out


def _build(c):
    u = Universe().add_classes(c["classes"])
    sp.reset_globals()
    parser = sp.make_parser(dict(c["cfg"], cr=c["mode"]))
    for r in c["regs"]:
        parser.add_arguments(u.classes[r["cls"]], dest=r["dest"], prefix=r["prefix"])
    sp.decoy(c["cfg"])   # conflicts must be found and resolved with THIS parser's settings, whatever was constructed later
    return parser


def impl(case):
    c = case["case"]
    recs = field_recs(c)

    def setup():
        p = _build(c)
        p._preprocessing(args=[])
        return p

    r = sp.run_outcome(setup)
    if r["o"] != "ok":
        return {"o": r["o"], "exc": r.get("exc"), "msg": r.get("msg", "")[:200], "frontends": _frontends(c, recs, [])}
    parser = r["value"]
    sets = []
    for rec in recs:
        act = sp.action_for_dest(parser, ".".join(rec["path"]))
        sets.append(sorted(set(act.option_strings)) if act is not None else None)
    probes = []
    all_opts = sorted({o for s in sets if s for o in s})
    if len(all_opts) <= 40:
        # one real parse per option string (a fresh parser each); large forests: an evenly spaced sample of 16
        probe_opts = all_opts if len(all_opts) <= 16 else all_opts[:: max(1, len(all_opts) // 16)][:16]
        for opt in probe_opts:
            p2 = _build(c)
            res = sp.run_outcome(lambda: p2.parse_args([opt, "7"]))
            if res["o"] == "ok":
                ns = res["value"]
                changed = []
                for rec in recs:
                    v = get_path(ns, ".".join(rec["path"]))
                    if v != rec["default"]:
                        changed.append([".".join(rec["path"]), v if isinstance(v, int) else repr(v)])
                probes.append({"opt": opt, "o": "ok", "changed": changed})
            else:
                probes.append({"opt": opt, "o": res["o"], "code": res.get("code"), "exc": res.get("exc")})
    return {"o": "ok", "sets": sets, "probes": probes, "frontends": _frontends(c, recs, probes)}


def _frontends(c, recs, probes):
    """the one-shot helpers simple_parsing.parse / parse_known_args are the same set-up behind another entry point: with
    the same settings they must resolve (or refuse) exactly like the ArgumentParser (single registration only: that is
    all they offer)"""
    import simple_parsing

    if len(c["regs"]) != 1:
        return []
    reg = c["regs"][0]
    u = Universe().add_classes(c["classes"])
    cls = u.classes[reg["cls"]]
    ok = [p for p in probes if p["o"] == "ok"]
    argv = [ok[0]["opt"], "7"] if ok else []
    kw = dict(dest=reg["dest"], nested_mode=sp.NEST[c["cfg"]["nest"]], conflict_resolution=sp.CR[c["mode"]],
              add_option_string_dash_variants=sp.DASH[c["cfg"]["dash"]], argument_generation_mode=sp.GEN[c["cfg"]["gen"]])
    out = []

    def changed_of(inst):
        ch = []
        for rec in recs:
            v = get_path(inst, ".".join(rec["path"][1:]))
            if v != rec["default"]:
                ch.append([".".join(rec["path"]), v if isinstance(v, int) else repr(v)])
        return ch

    def record(api, res, pick):
        if res["o"] == "ok":
            out.append({"api": api, "argv": argv, "o": "ok", "changed": changed_of(pick(res["value"]))})
        else:
            out.append({"api": api, "argv": argv, "o": res["o"], "code": res.get("code"), "exc": res.get("exc")})

    sp.reset_globals()
    record("parse", sp.run_outcome(lambda: simple_parsing.parse(cls, args=argv, prefix=reg["prefix"], **kw)), lambda v: v)
    if not reg["prefix"]:
        sp.reset_globals()
        record("parse_known_args", sp.run_outcome(lambda: simple_parsing.parse_known_args(cls, args=argv, **kw)), lambda v: v[0])
    return out


def model_case(case, obs):
    c = case["case"]
    return {"cfg": c["cfg"], "mode": c["mode"], "reserved": ["-h", "--help"],
            "recs": [{k: r[k] for k in ("name", "parent_dest", "level", "aliases", "prefix")} for r in field_recs(c)]}


def project(case, obs):
    if obs["o"] == "ok":
        return {"o": "ok", "sets": obs["sets"]}
    return {"o": obs["o"], "exc": obs["exc"]}


def project_model(case, mo):
    if mo.get("o") == "ok":
        return {"o": "ok", "sets": mo["sets"]}
    return mo


def initial_names(rec, c):
    """initial option bodies under FLAT/UNDERSCORE: prefix+name and prefix+alias"""
    out = {rec["prefix"] + rec["name"]}
    for a in rec["aliases"]:
        out.add(rec["prefix"] + a.lstrip("-"))
    return out


def default_cfg(c):
    return c["cfg"] == {"dash": "UNDERSCORE", "gen": "FLAT", "nest": "DEFAULT"}


def clash_exists(c):
    recs = field_recs(c)
    for i in range(len(recs)):
        for j in range(i + 1, len(recs)):
            if initial_names(recs[i], c) & initial_names(recs[j], c):
                return True
    return False


def oracle(case, obs):
    c = case["case"]
    fails = []
    recs = field_recs(c)
    if obs["o"] != "ok":
        if not (obs["o"] == "raise" and obs["exc"] == "ConflictResolutionError"):
            fails.append({"clause": "total", "exc": obs.get("exc"),
                          "detail": f"setup neither succeeded nor raised ConflictResolutionError: {obs}"})
        if default_cfg(c) and c["mode"] == "NONE" and obs.get("exc") == "ConflictResolutionError" and not clash_exists(c):
            fails.append({"clause": "none-iff", "detail": "NONE raised although no two fields clash"})
        if default_cfg(c) and not clash_exists(c):
            fails.append({"clause": "none-iff", "detail": f"setup failed although no two fields clash: {obs}"})
        for fe in obs.get("frontends", []):
            if not (fe["o"] == obs["o"] and fe.get("exc") == obs.get("exc")):
                fails.append({"clause": "front-end", "api": fe["api"],
                              "detail": f"ArgumentParser set-up gives {obs['o']}/{obs.get('exc')} but simple_parsing.{fe['api']}() with the same settings gives {fe}"})
        return fails
    if default_cfg(c) and c["mode"] == "NONE" and clash_exists(c):
        fails.append({"clause": "none-iff", "detail": "a clash exists but NONE mode did not raise"})
    owner = {}
    for rec, s in zip(recs, obs["sets"]):
        key = ".".join(rec["path"])
        if not s:
            fails.append({"clause": "unique", "detail": f"no action for {key}"})
            continue
        for o in s:
            if o in owner:
                fails.append({"clause": "unique", "detail": f"{o} belongs to {owner[o]} and {key}"})
            owner[o] = key
    for p in obs["probes"]:
        if p["o"] != "ok" or p["changed"] != [[owner[p["opt"]], 7]]:
            fails.append({"clause": "exact-leaf", "detail": f"[{p['opt']} 7] should change exactly {owner[p['opt']]}: {p}"})
    ref_probe = next((p for p in obs["probes"] if p["o"] == "ok"), None)
    for fe in obs.get("frontends", []):
        want = ref_probe["changed"] if (ref_probe and fe["argv"]) else []
        if fe["o"] != "ok" or fe["changed"] != want:
            fails.append({"clause": "front-end", "api": fe["api"],
                          "detail": f"argv {fe['argv']}: the ArgumentParser changes {want}, simple_parsing.{fe['api']}() with the same settings gives {fe}"})
    no_user_prefix = all(not r["prefix"] for r in c["regs"])
    if no_user_prefix and default_cfg(c):
        for i, (rec, s) in enumerate(zip(recs, obs["sets"])):
            if not s:
                continue
            mine = initial_names(rec, c)
            clashes = any(mine & initial_names(o, c) for j, o in enumerate(recs) if j != i)
            if not clashes and ("--" if len(rec["name"]) > 1 else "-") + rec["name"] not in s:
                fails.append({"clause": "bare", "detail": f"{'.'.join(rec['path'])} clashes with nothing but lost its bare name: {s}"})
            path = rec["path"]
            for o in s:
                body = o.lstrip("-")
                ok = False
                for last in [rec["name"]] + [a.lstrip("-") for a in rec["aliases"]]:
                    comps = path[:-1] + [last]
                    sufs = [".".join(comps[k:]) for k in range(len(comps))]
                    if c["mode"] == "EXPLICIT":
                        sufs = [sufs[0], sufs[-1]]
                    if body in sufs:
                        ok = True
                if not ok:
                    fails.append({"clause": "suffix", "detail": f"option {o} of {'.'.join(path)} is not a dotted suffix of its destination path"})
    return fails


def nontrivial(case, obs):
    return clash_exists(case["case"])


def tags(case, obs):
    c = case["case"]
    t = [f"mode:{c['mode']}", f"regs:{len(c['regs'])}", f"classes:{len(c['classes'])}", f"fields:{len(field_recs(c))}",
         "out:" + (obs["o"] if obs["o"] == "ok" else str(obs.get("exc"))), f"clash:{clash_exists(c)}",
         f"userprefix:{any(r['prefix'] for r in c['regs'])}", f"defaultcfg:{default_cfg(c)}"]
    if obs["o"] == "ok":
        t.append(f"maxdots:{max((o.count('.') for s in obs['sets'] if s for o in s), default=0)}")
    return t


def shrink(case):
    c = case["case"]
    if len(c["regs"]) > 1:
        for i in range(len(c["regs"])):
            yield {"op": case["op"], "case": dict(c, regs=c["regs"][:i] + c["regs"][i + 1:])}
    for ci, cl in enumerate(c["classes"]):
        for fi in range(len(cl["fields"])):
            if len(cl["fields"]) <= 1:
                continue
            nc = [dict(x, fields=list(x["fields"])) for x in c["classes"]]
            del nc[ci]["fields"][fi]
            yield {"op": case["op"], "case": dict(c, classes=nc)}
    for i, r in enumerate(c["regs"]):
        if r["prefix"]:
            regs = [dict(x) for x in c["regs"]]
            regs[i]["prefix"] = ""
            yield {"op": case["op"], "case": dict(c, regs=regs)}


def _help_clash(case, obs, fail):
    """D20: a field (or alias) spelled like the built-in -h/--help: setup raises argparse.ArgumentError
    ('conflicting option string: -h/--help') instead of ConflictResolutionError."""
    if fail.get("clause") not in ("total", "none-iff") or obs.get("exc") != "ArgumentError":
        return False
    msg = obs.get("msg", "")
    if not (msg.endswith("conflicting option string: -h") or msg.endswith("conflicting option string: --help")):
        return False
    names = {f["name"] for k in case["case"]["classes"] for f in k["fields"]}
    names |= {a.lstrip("-") for k in case["case"]["classes"] for f in k["fields"] for a in f.get("alias", [])}
    return bool(names & {"h", "help"})


FINDINGS = {"C03-help-clash": _help_clash}
