"""C17 — how a dataclass is written does not change its command line.

Source-level cases: every abstract dataclass tree is rendered to *real modules* in 5 annotation styles
(typing generics / builtin generics / PEP 604 unions / postponed typing text / postponed PEP 604 text — the
property's fourth style, "postponed string annotations", is exercised with both kinds of text)
x {flat, split across a 2-3 level inheritance chain} x {module scope, function scope with every parse performed
inside the defining call}.  Modules are written into ${TMPDIR:-/tmp}/spverif.<pid>/<fresh dir>/ under unique module
names, imported with importlib, observed, and removed again before `impl` returns.
"""
from __future__ import annotations

import dataclasses
import enum
import hashlib
import importlib.util
import itertools
import json
import os
import pathlib
import shutil
import sys
import tempfile
import types
import typing

from harness.core import sp

PID = "C17"
RULE = ("cases: (a) end-to-end: abstract dataclass trees (1-5 fields, optional nested dataclass child, types from the CLI "
        "grammar int/float/str/bool/Path/Enum, List[atom | Union | Optional], Tuple fixed/variadic, Union, Optional of those; defaults "
        "missing/None/value) each rendered in 6 annotation styles (typing, builtin, PEP 604, postponed text of each) x {flat, 2-3 level chain "
        "(sometimes re-declaring a field)} x {module scope, function scope with the parse inside the defining call}, plus "
        "the chain split over TWO modules (bases in one, the derived class and the classes only it mentions in the other) "
        "and over ONE MODULE PER CLASS (2-3 modules, each enum / nested class defined in the root-most, middle or leaf "
        "module that first needs it) "
        "= 30 real module sets; enums are the framework's gen_types universe (incl. str / int mix-ins), parsed "
        "with the empty command line, 3-4 valid and 2-3 invalid command lines (bad token, wrong arity, unknown option), "
        "all compared with the typing-style flat module-scope rendering; the nested member is required, default_factory or "
        "Optional[Child] / Union[Child, None] / Child | None = None; Enum and nested classes live in the same scope as the "
        "outer class; function-scope modules also define module-level globals of the same names with different contents, "
        "and the defining function is executed 3 times (every call's parses are compared, and every enum member / "
        "dataclass instance returned must belong to the classes created by that very call); dense regression streams for the two repaired "
        "defects (lists of unions; unions over variadic tuples) and a stream for the open finding (lists of containers); (b) unit ops on annotation objects built directly (typing / builtin / UnionType mixes, "
        "arbitrary nesting): the utils.py classifiers, _replace_UnionType_with_typing_Union, the get_arg_options "
        "digest of a one-field dataclass; (c) the `A | B` text rewriter on generated and mangled texts; (d) string "
        "resolution through get_field_type_from_annotations; (e) field order of inheritance chains with overrides. "
        "Non-trivial = an end-to-end case with >= 2 fields of which one is a container/Optional/Union and at least one "
        "non-empty command line, or a unit case whose annotation has depth >= 2; distinct by canonical JSON.")
ASSUMPTIONS = [
    "typing.get_type_hints / eval evaluate well-formed annotation text, in the namespaces they are given, to the object "
    "the same text yields when it is not postponed (the model's evaluator parameter; the table is passed to the model)",
    "CPython 3.12 representation facts: X | None is types.UnionType, list[int] is types.GenericAlias forwarding __mro__, "
    "typing aliases forward .mro() but not __mro__, typing.Union and UnionType compare their members as sets",
    "dataclasses builds __dataclass_fields__ base-first with dict-update semantics",
    "dict / set / Literal annotations, bare containers and dataclasses inside containers are outside the modelled fragment",
    "a typing container with PEP 604 members (List[int | str]) is not rendered: typing caches aliases by ==/hash of the "
    "arguments and int | str == Union[int, str], so the object would be handed out for later List[Union[int, str]] of the "
    "same process (CPython trait; would make cases depend on process history)",
]
TRUSTED = ["CPython importlib / typing.get_type_hints / frame objects", "stdlib argparse"]
EXHAUSTIVE = {"quick": False, "thorough": False}
SERIAL = False

N_AGAIN = 2          # further executions of the defining function per function-scope rendering
STYLES = ["typing", "builtin", "pep604", "post_typing", "post_builtin", "post_604"]
LAYOUTS = ["flat", "chain"]
SCOPES = ["module", "function"]
REF = ("typing", "flat", "module")
from harness.core import gen_types as _gt          # noqa: E402
from harness.core.trees import ENUM_MIXINS          # noqa: E402

# the framework's enum universe (gen_types.ENUMS): plain enums, member names that look like values / vocabulary words,
# values that are other members' names, a str mix-in (Level, with a falsy member) and an int mix-in (Prio)
ENUM_SPECS = {e["cls"]: e for e in _gt.ENUMS}
ENUMS = {n: list(e["members"]) for n, e in ENUM_SPECS.items()}


def enum_src(name, ind="", decoy=False, as_name=None):
    """functional-API definition (member names need not be identifiers); a decoy has the same name, other members.
    `as_name`: the name the class is given in the generated source (see `rename_tree`)."""
    e = ENUM_SPECS[name]
    cn = as_name or name
    if decoy:
        return f'{ind}{cn} = enum.Enum("{cn}", {{"DECOY_A": "a", "DECOY_B": "b"}})'
    vals = e.get("values") or list(range(len(e["members"])))
    body = ", ".join(f"{m!r}: {v!r}" for m, v in zip(e["members"], vals))
    mix = ENUM_MIXINS.get(name)
    return f'{ind}{cn} = enum.Enum("{cn}", {{{body}}}' + (f", type={mix.__name__}" if mix else "") + ")"


def enum_names(tree):
    """{name in the generated source: enum of the universe}"""
    al = tree.get("alias") or {}
    return {al.get(n, n): n for n in ENUMS}


def base_name(tree, i):
    return (tree.get("alias") or {}).get("Base", "Base") + str(i)


RESERVED = {"List", "Tuple", "Optional", "Union", "Path", "dataclass", "field", "enum", "run", "cb", "kid"}


def name_variant(rng, n):
    """legal, unambiguous spellings of a class name: public, private (leading underscore), trailing underscore, lower-case
    private, a single letter.  (No double leading underscore: inside a class body such a name is mangled.)"""
    p = rng.random()
    if p < 0.45:
        return n
    if p < 0.70:
        return "_" + n
    if p < 0.80:
        return n + "_"
    if p < 0.90:
        return "_" + n.lower() + "1"
    return n[0].upper() if rng.random() < 0.5 else "_" + n[0]


def rename_tree(rng, case):
    """give every generated class (enums, nested dataclass, root, bases) its own spelling; names are data for the model"""
    tree = case["tree"]
    abstract = list(ENUMS) + [c["name"] for c in tree["classes"]] + ["Base"]
    alias, used = {}, set(RESERVED)
    for n in abstract:
        v = name_variant(rng, n)
        while v in used or any(v == f["name"] for c in tree["classes"] for f in c["fields"]):
            v = v + "x"
        used.add(v)
        alias[n] = v

    def ty(t):
        t = dict(t)
        if t["k"] in ("enum", "dc"):
            t["cls"] = alias[t["cls"]]
        for key in ("item", "inner"):
            if key in t:
                t[key] = ty(t[key])
        for key in ("items", "alts"):
            if key in t:
                t[key] = [ty(x) for x in t[key]]
        return t

    def default(src):
        if src is None:
            return None
        for n in sorted(alias, key=len, reverse=True):
            src = src.replace(n + "[", alias[n] + "[").replace("default_factory=" + n + ")", "default_factory=" + alias[n] + ")")
        return src

    classes = [{"name": alias[c["name"]], "fields": [dict(f, ty=ty(f["ty"]), default=default(f["default"])) for f in c["fields"]]}
               for c in tree["classes"]]
    case["tree"] = dict(tree, classes=classes, root=alias[tree["root"]], alias=alias)
    return case
ATOMS = ["int", "float", "str", "bool", "path", "enum"]


# ------------------------------------------------------------------------------------------------
# the abstract type grammar


def t_atom(rng, allow_bool=True):
    k = rng.choice([a for a in ATOMS if allow_bool or a != "bool"])
    if k == "enum":
        return {"k": "enum", "cls": rng.choice(sorted(ENUMS))}
    return {"k": k}


def _ckey(j):
    return json.dumps(j, sort_keys=True)


def distinct_atoms(rng, n):
    out, seen = [], set()
    while len(out) < n:
        a = t_atom(rng)
        key = json.dumps(a, sort_keys=True)
        if key not in seen:
            seen.add(key)
            out.append(a)
    return out


def t_union(rng, rich=False):
    alts = distinct_atoms(rng, rng.choice([2, 2, 3]))
    if rich and rng.random() < 0.35:
        alts[rng.randrange(len(alts))] = rng.choice([
            {"k": "list", "item": t_atom(rng)}, {"k": "tuple", "items": [t_atom(rng), t_atom(rng)]}])
    # typing caches Union[...] by *set* of members (Union[a, b] == Union[b, a]): the first spelling seen in a process
    # wins, so one canonical member order is used everywhere to keep cases independent of process history
    alts.sort(key=_ckey)
    return {"k": "union", "alts": alts}


def t_nonopt(rng):
    p = rng.random()
    if p < 0.26:
        return t_atom(rng)
    if p < 0.44:
        if rng.random() < 0.3:       # a list of unions / optionals, in every style
            return {"k": "list", "item": rng.choice([t_union(rng), {"k": "opt", "inner": t_atom(rng)}])}
        return {"k": "list", "item": t_atom(rng)}
    if p < 0.62:
        items = [t_atom(rng) for _ in range(rng.choice([1, 2, 2, 3]))]
        if rng.random() < 0.2:
            items[rng.randrange(len(items))] = rng.choice([t_union(rng), {"k": "opt", "inner": t_atom(rng)}])
        return {"k": "tuple", "items": items}
    if p < 0.74:
        return {"k": "vtuple", "item": t_atom(rng)}
    return t_union(rng, rich=True)


def t_field(rng):
    """a field type of the CLI grammar"""
    t = t_nonopt(rng)
    if rng.random() < 0.35:
        return {"k": "opt", "inner": t}
    return t


def t_d18(rng):
    """a list whose item type is a union / optional (defect D18, repaired: kept as a dense regression stream)"""
    item = rng.choice([t_union(rng), {"k": "opt", "inner": t_atom(rng)}])
    t = {"k": "list", "item": item}
    return {"k": "opt", "inner": t} if rng.random() < 0.4 else t


def t_vt(rng):
    """an Optional / Union with a variadic tuple below it (postponed `tuple[X, ...] | None`, repaired: regression stream)"""
    vt = {"k": "vtuple", "item": t_atom(rng)}
    p = rng.random()
    if p < 0.6:
        return {"k": "opt", "inner": vt}
    if p < 0.8:
        return {"k": "union", "alts": sorted([t_atom(rng, allow_bool=False), vt], key=_ckey)}
    return {"k": "opt", "inner": {"k": "tuple", "items": [t_atom(rng), vt]}}


def t_loc(rng):
    """a list whose items are themselves containers (open finding C17-list-of-containers)"""
    item = rng.choice([{"k": "list", "item": t_atom(rng, allow_bool=False)},
                       {"k": "tuple", "items": [t_atom(rng, allow_bool=False), t_atom(rng, allow_bool=False)]},
                       {"k": "vtuple", "item": t_atom(rng, allow_bool=False)}])
    t = {"k": "list", "item": item}
    return {"k": "opt", "inner": t} if rng.random() < 0.3 else t


def is_loc(t):
    if t["k"] == "opt":
        t = t["inner"]
    return t["k"] == "list" and t["item"]["k"] in ("list", "tuple", "vtuple")


def has_kind(t, kind):
    if t["k"] == kind:
        return True
    return any(has_kind(s, kind) for s in subterms(t))


def subterms(t):
    k = t["k"]
    if k in ("list", "vtuple"):
        return [t["item"]]
    if k == "opt":
        return [t["inner"]]
    if k == "tuple":
        return t["items"]
    if k == "union":
        return t["alts"]
    return []


def depth(t):
    return 1 + max([depth(s) for s in subterms(t)], default=0)


# tokens ------------------------------------------------------------------------------------------

GOOD = {"int": ["0", "12", "7", "-3"], "float": ["1.5", "2", "1e3", "-0.25"], "str": ["abc", "x_y", "12", "None"],
        "bool": ["true", "False", "1", "no", "Y"], "path": ["a/b.txt", "out", "/tmp/x"]}
BAD = {"int": ["zz", "1.5x"], "float": ["zz", "1,5"], "bool": ["maybe", "2"], "enum": ["PURPLE", "red", "low"]}


def good_tokens(rng, t):
    k = t["k"]
    if k in GOOD:
        return [rng.choice(GOOD[k])]
    if k == "enum":
        return [rng.choice(ENUMS[t["cls"]])]
    if k == "list":
        if t["item"]["k"] in ("list", "tuple", "vtuple"):
            return [rng.choice(["12", "34", "7"]) for _ in range(rng.choice([1, 2]))]
        return [tok for _ in range(rng.choice([0, 1, 2, 3])) for tok in good_tokens(rng, t["item"])[:1]]
    if k == "vtuple":
        return [tok for _ in range(rng.choice([1, 2, 3])) for tok in good_tokens(rng, t["item"])[:1]]
    if k == "tuple":
        return [(good_tokens(rng, it) or ["1"])[0] for it in t["items"]]
    if k == "opt":
        return good_tokens(rng, t["inner"])
    if k == "union":
        return (good_tokens(rng, rng.choice(t["alts"])) or ["1"])[:1]
    return ["1"]


def bad_tokens(rng, t):
    """tokens that should not be accepted for t (best effort; the oracle only compares renderings)"""
    k = t["k"]
    if k in BAD:
        return [rng.choice(BAD[k])]
    if k == "enum":
        return [rng.choice(BAD["enum"])]
    if k in ("list", "vtuple"):
        return good_tokens(rng, t["item"])[:1] + bad_tokens(rng, t["item"])
    if k == "tuple":
        toks = good_tokens(rng, t)
        return toks[:-1] if rng.random() < 0.5 and len(toks) > 1 else toks + ["extra"]
    if k == "opt":
        return bad_tokens(rng, t["inner"])
    if k == "union":
        return ["@@"]
    return ["zz"]


# defaults: python source expressions --------------------------------------------------------------

def default_src(rng, t):
    k = t["k"]
    if k == "int":
        return rng.choice(["0", "3", "-2"])
    if k == "float":
        return rng.choice(["0.5", "2.0"])
    if k == "str":
        return rng.choice(['"s"', '"a b"', '""'])
    if k == "bool":
        return rng.choice(["True", "False"])
    if k == "path":
        return 'Path("p/q")'
    if k == "enum":
        return f'{t["cls"]}[{rng.choice(ENUMS[t["cls"]])!r}]'
    if k == "list":
        inner = ", ".join(default_src(rng, item_for_default(t["item"])) for _ in range(rng.choice([0, 1, 2])))
        return f"field(default_factory=lambda: [{inner}])"
    if k == "vtuple":
        n = rng.choice([1, 2])
        return "(" + "".join(default_src(rng, item_for_default(t["item"])) + ", " for _ in range(n)) + ")"
    if k == "tuple":
        return "(" + "".join(default_src(rng, item_for_default(it)) + ", " for it in t["items"]) + ")"
    if k == "opt":
        return "None" if rng.random() < 0.6 else default_src(rng, t["inner"])
    if k == "union":
        return default_src(rng, item_for_default(t["alts"][0]))
    raise ValueError(k)


def item_for_default(t):
    while t["k"] in ("opt",):
        t = t["inner"]
    if t["k"] == "union":
        return item_for_default(t["alts"][0])
    if t["k"] in ("list", "tuple", "vtuple"):
        return {"k": "int"}          # only reached with lists of unions; any literal will do
    return t


# ------------------------------------------------------------------------------------------------
# trees


def mk_field(rng, name, ty, required_ok):
    p = rng.random()
    if is_loc(ty):
        if ty["k"] == "opt":
            return {"name": name, "ty": ty, "dflt": "none", "default": "None"}
        return {"name": name, "ty": ty, "dflt": "value", "default": "field(default_factory=list)"}
    if required_ok and p < 0.3:
        return {"name": name, "ty": ty, "dflt": "missing", "default": None}
    if ty["k"] not in ("opt", "bool") and p < 0.36 and ty["k"] in ("int", "str", "float", "list", "enum"):
        return {"name": name, "ty": ty, "dflt": "none", "default": "None"}
    src = default_src(rng, ty)
    return {"name": name, "ty": ty, "dflt": "none" if src == "None" else "value", "default": src}


def order_fields(fields):
    return [f for f in fields if f["dflt"] == "missing"] + [f for f in fields if f["dflt"] != "missing"]


def mk_tree_mod3(rng):
    """a 3-level chain whose MIDDLE (or leaf) class is the first to mention an enum / the nested dataclass: with one
    module per class the definition then lives in the middle (leaf) module; every class of the chain has a field"""
    def with_default(name, ty):
        f = mk_field(rng, name, ty, False)
        return f

    plain = lambda: rng.choice([{"k": "int"}, {"k": "str"}, {"k": "list", "item": {"k": "float"}}, {"k": "opt", "inner": {"k": "int"}}])  # noqa: E731
    en = lambda: {"k": "enum", "cls": rng.choice(sorted(ENUMS))}  # noqa: E731
    enumish = lambda: rng.choice([en(), {"k": "opt", "inner": en()}, {"k": "list", "item": en()},  # noqa: E731
                                  {"k": "tuple", "items": [en(), {"k": "int"}]}])
    classes = []
    mid_kind = rng.choice(["enum", "enum", "child"])
    f0 = with_default("f0", plain() if rng.random() < 0.7 else enumish())
    if mid_kind == "child":
        cf = order_fields([mk_field(rng, f"g{i}", rng.choice([plain(), enumish()]), False) for i in range(rng.choice([1, 2]))])
        classes.append({"name": "Child", "fields": cf})
        f1 = rng.choice([
            {"name": "kid", "ty": {"k": "dc", "cls": "Child"}, "dflt": "value", "default": "field(default_factory=Child)"},
            {"name": "kid", "ty": {"k": "opt", "inner": {"k": "dc", "cls": "Child"}, "spell": "optional"}, "dflt": "none",
             "default": "None"}])
    else:
        f1 = with_default("f1", enumish())
    rest = [with_default(f"f{i}", rng.choice([plain(), enumish(), t_field(rng)])) for i in range(2, 2 + rng.choice([1, 2]))]
    fields = [f0, f1] + rest
    segs = [[f0["name"]], [f1["name"]], [f["name"] for f in rest]]
    if rng.random() < 0.3:                      # the leaf class is the first user instead: swap middle and leaf
        segs = [segs[0], segs[2], segs[1]]
        fields = [f0] + rest + [f1]
    classes.append({"name": "Root", "fields": fields})
    return {"classes": classes, "root": "Root", "chain": segs, "redeclare": [], "stream": "mod3"}


def mk_tree(rng, stream="grammar"):
    if stream == "mod3":
        return mk_tree_mod3(rng)
    n = rng.choice([1, 2, 2, 3, 3, 4, 5])
    counter = itertools.count()
    fields = []
    for _ in range(n):
        if stream == "d18" and not fields:
            ty = t_d18(rng)
        elif stream == "vt" and not fields:
            ty = t_vt(rng)
        elif stream == "loc" and not fields:
            ty = t_loc(rng)
        else:
            ty = t_field(rng)
        fields.append(mk_field(rng, f"f{next(counter)}", ty, True))
    classes = []
    if rng.random() < 0.35:
        cf = [mk_field(rng, f"g{i}", t_field(rng), True) for i in range(rng.choice([1, 2, 3]))]
        cf = order_fields(cf)
        classes.append({"name": "Child", "fields": cf})
        all_default = all(f["dflt"] != "missing" for f in cf)
        child = {"name": "kid", "ty": {"k": "dc", "cls": "Child"},
                 "dflt": "value" if all_default and rng.random() < 0.7 else "missing",
                 "default": None}
        if child["dflt"] == "value":
            child["default"] = "field(default_factory=Child)"
        if rng.random() < 0.45:
            # an optional nested dataclass member: Optional[Child] / Union[Child, None] / Child | None, default None
            child = {"name": "kid", "ty": {"k": "opt", "inner": {"k": "dc", "cls": "Child"},
                                           "spell": rng.choice(["optional", "union"])}, "dflt": "none",
                     "default": "None"}
        fields.insert(rng.randrange(len(fields) + 1), child)
    fields = order_fields(fields)
    # chain: contiguous split of the root's fields into 2-3 classes; optionally one defaulted field of an earlier
    # segment is declared again (identically) in the most derived class
    cuts = sorted(rng.sample(range(0, len(fields) + 1), rng.choice([1, 2])))
    segs, prev = [], 0
    for c in cuts + [len(fields)]:
        segs.append([f["name"] for f in fields[prev:c]])
        prev = c
    redeclare = []
    early = [f["name"] for f in fields if f["dflt"] != "missing" and f["name"] not in segs[-1]]
    if early and rng.random() < 0.3 and all(f["dflt"] != "missing" for f in fields if f["name"] in segs[-1]):
        redeclare = [rng.choice(early)]
    classes.append({"name": "Root", "fields": fields})
    return {"classes": classes, "root": "Root", "chain": segs, "redeclare": redeclare, "stream": stream}


def all_leaf_fields(tree):
    """[(option name, field)] for every non-dataclass field reachable from the root"""
    by = {c["name"]: c for c in tree["classes"]}
    out = []

    def walk(cn):
        for f in by[cn]["fields"]:
            if dc_of(f["ty"]):
                walk(dc_of(f["ty"]))
            else:
                out.append(f)
    walk(tree["root"])
    return out


def dc_of(t):
    """class name when t is a nested dataclass member (plain or optional)"""
    if t["k"] == "dc":
        return t["cls"]
    if t["k"] == "opt" and t["inner"]["k"] == "dc":
        return t["inner"]["cls"]
    return None


def mk_argvs(rng, tree):
    leaves = all_leaf_fields(tree)
    argvs = [[]]

    def seg(f, toks):
        if len(toks) == 1 and rng.random() < 0.3 and not toks[0].startswith("-"):
            return [f"--{f['name']}={toks[0]}"]
        return [f"--{f['name']}"] + toks

    def valid(subset):
        av = []
        for f in subset:
            if f["ty"]["k"] == "bool" and rng.random() < 0.4:
                av += [rng.choice([f"--{f['name']}", f"--no{f['name']}"])]
            else:
                av += seg(f, good_tokens(rng, f["ty"]))
        return av

    argvs.append(valid(leaves))                                       # everything given
    for _ in range(2):
        req = [f for f in leaves if f["dflt"] == "missing"]
        opt = [f for f in leaves if f["dflt"] != "missing" and rng.random() < 0.5]
        sub = req + opt
        rng.shuffle(sub)
        argvs.append(valid(sub))
    # invalid: one bad segment among valid ones / unknown option / arity
    f = rng.choice(leaves)
    argvs.append(valid([g for g in leaves if g is not f]) + [f"--{f['name']}"] + bad_tokens(rng, f["ty"]))
    argvs.append(valid(leaves) + ["--nope", "1"])
    f = rng.choice(leaves)
    argvs.append([f"--{f['name']}"] + bad_tokens(rng, f["ty"]))
    return argvs


def e2e_case(rng, stream="grammar"):
    tree = mk_tree(rng, stream)
    case = {"tree": tree, "argvs": mk_argvs(rng, tree)}
    return {"op": "annot.e2e", "case": rename_tree(rng, case)}


# ------------------------------------------------------------------------------------------------
# annotation objects (unit ops): Ann JSON <-> real objects


def ann_cls(c, name=None):
    d = {"k": "cls", "c": c}
    if name:
        d["name"] = name
    return d


def rand_ann(rng, d=0, style=None):
    """annotation objects of arbitrary nesting.  Styles: typing (typing aliases only), builtin (builtin containers, typing
    unions), pep604 (builtin containers, X | Y unions), mixed (typing and builtin containers mixed, typing unions).
    A types.UnionType is never put below a typing alias: typing caches its aliases by `==`/hash of the arguments, and
    `int | str == Union[int, str]`, so `typing.List[int | str]` built once would be handed out for every later
    `List[Union[int, str]]` of the process (a CPython trait that would leak between cases)."""
    style = style or rng.choice(["typing", "builtin", "pep604", "mixed"])
    p = rng.random()
    if d >= 3 or p < 0.3:
        c = rng.choice(["int", "float", "str", "bool", "path", "enum", "enum"] + (["dc"] if d == 0 else []))
        if c == "enum":
            return ann_cls("enum", rng.choice(sorted(ENUMS)))
        if c == "dc":
            return ann_cls("dc", "Child")
        return ann_cls(c)

    def gen_rep():
        if style == "mixed":
            return rng.choice(["typing", "builtin"])
        return "typing" if style == "typing" else "builtin"

    if p < 0.5:
        return {"k": gen_rep(), "o": "list", "args": [rand_ann(rng, d + 1, style)]}
    if p < 0.68:
        n = rng.choice([1, 2, 2, 3])
        args = [rand_ann(rng, d + 1, style) for _ in range(n)]
        if rng.random() < 0.25:
            args = [args[0], {"k": "ellipsis"}]
        if rng.random() < 0.2:
            args = [args[0]] * rng.choice([2, 3])
        return {"k": gen_rep(), "o": "tuple", "args": args}
    # unions: members distinct, no nested union (python would flatten / dedupe)
    n = rng.choice([2, 2, 3])
    members, seen = [], set()
    for _ in range(n * 3):
        m = rand_ann(rng, d + 1, style)
        if m["k"] in ("uniontype",) or (m["k"] == "typing" and m.get("o") == "union"):
            continue
        key = json.dumps(m, sort_keys=True)
        if key in seen:
            continue
        seen.add(key)
        members.append(m)
        if len(members) == n:
            break
    if len(members) < 2:
        members = [ann_cls("int"), ann_cls("str")]
    members.sort(key=_ckey)               # see t_union: typing's Union cache is keyed by the member *set*
    if rng.random() < 0.45:
        members.append(ann_cls("none"))
    if style == "pep604":
        return {"k": "uniontype", "args": members}
    return {"k": "typing", "o": "union", "args": members}


class _Ns:
    """the classes annotation objects refer to"""
    pass

    @dataclasses.dataclass
    class Child:
        g0: int = 0


for _n, _e in ENUM_SPECS.items():
    setattr(_Ns, _n, enum.Enum(_n, dict(zip(_e["members"], _e.get("values") or range(len(_e["members"])))),
                               type=ENUM_MIXINS.get(_n)))

_CLS = {"int": int, "float": float, "str": str, "bool": bool, "path": pathlib.Path, "none": type(None)}


class Unbuildable(Exception):
    pass


def build_ann(j):
    k = j["k"]
    if k == "cls":
        if j["c"] == "enum":
            return getattr(_Ns, j["name"])
        if j["c"] == "dc":
            return _Ns.Child
        return _CLS[j["c"]]
    if k == "ellipsis":
        return Ellipsis
    if k == "str":
        return j["text"]
    args = tuple(build_ann(a) for a in j["args"])
    if k == "typing":
        if j["o"] == "list":
            return typing.List[args[0]]
        if j["o"] == "tuple":
            return typing.Tuple[args]
        return typing.Union[args]
    if k == "builtin":
        return list[args[0]] if j["o"] == "list" else tuple[args]
    if k == "uniontype":
        out = args[0]
        for a in args[1:]:
            out = out | a
        return out
    raise ValueError(k)


def buildable(j):
    """python builds exactly this object (no flattening / de-duplication / typing.Union fallback for `|`)"""
    try:
        return json.dumps(reflect(build_ann(j)), sort_keys=True) == json.dumps(j, sort_keys=True)
    except Unbuildable:
        return False


def reflect(t):
    if t is Ellipsis:
        return {"k": "ellipsis"}
    if isinstance(t, str):
        return {"k": "str", "text": t}
    if isinstance(t, types.UnionType):
        return {"k": "uniontype", "args": [reflect(a) for a in typing.get_args(t)]}
    if isinstance(t, types.GenericAlias):
        o = typing.get_origin(t)
        if o in (list, tuple):
            return {"k": "builtin", "o": o.__name__, "args": [reflect(a) for a in typing.get_args(t)]}
        return {"k": "raw", "repr": repr(t)}
    o = typing.get_origin(t)
    if o is typing.Union:
        return {"k": "typing", "o": "union", "args": [reflect(a) for a in typing.get_args(t)]}
    if o in (list, tuple) and isinstance(t, typing._GenericAlias):
        return {"k": "typing", "o": o.__name__, "args": [reflect(a) for a in typing.get_args(t)]}
    if isinstance(t, type):
        for name, c in _CLS.items():
            if t is c:
                return ann_cls(name)
        if issubclass(t, enum.Enum):
            return ann_cls("enum", t.__name__)
        if dataclasses.is_dataclass(t):
            return ann_cls("dc", t.__name__)
    return {"k": "raw", "repr": repr(t)[:80]}


def describe_conv(fn, d=0):
    from simple_parsing.utils import str2bool
    from simple_parsing.wrappers.field_parsing import get_parsing_fn

    if d > 8:
        return {"f": "deep"}
    if fn is str2bool:
        return {"f": "str2bool"}
    if fn is Ellipsis:
        return {"f": "ellipsis"}
    if isinstance(fn, str):
        return {"f": "strobj"}
    if isinstance(fn, types.UnionType):
        return {"f": "uniontype"}
    if isinstance(fn, types.GenericAlias):
        return {"f": "builtin_alias", "o": typing.get_origin(fn).__name__}
    if isinstance(fn, type):
        r = reflect(fn)
        if r["k"] == "cls":
            return {"f": "ctor", **{k: v for k, v in r.items() if k != "k"}}
        return {"f": "raw", "repr": repr(fn)[:60]}
    o = typing.get_origin(fn)
    if o is typing.Union:
        return {"f": "typing_alias", "o": "union"}
    if o in (list, tuple) and isinstance(fn, typing._GenericAlias):
        return {"f": "typing_alias", "o": o.__name__}
    code = getattr(fn, "__code__", None)
    if code is not None:
        fv = dict(zip(code.co_freevars, [c.cell_contents for c in (fn.__closure__ or ())]))
        if code.co_name == "_try_functions":
            return {"f": "try", "fs": [describe_conv(f, d + 1) for f in fv["funcs"]]}
        if code.co_name == "_parse_optional":
            return {"f": "optwrap", "g": describe_conv(fv["parse"], d + 1)}
        if code.co_name == "_parse_enum":
            return {"f": "enum", "name": fv["enum_type"].__name__}
        if code.co_name == "_parse_tuple":
            return {"f": "tupleseq", "fs": [{"f": "ellipsis"} if t is Ellipsis else describe_conv(get_parsing_fn(t), d + 1)
                                            for t in fv["tuple_item_types"]]}
    return {"f": "raw", "repr": repr(fn)[:60]}


def post_digest(fw):
    """what FieldWrapper.postprocess does to a list, a tuple and a str (type of the result, or the exception)"""
    out = []
    for probe in (["1"], ("1",), "zz"):
        r = sp.run_outcome(lambda: fw.postprocess(probe))
        out.append(type(r["value"]).__name__ if r["o"] == "ok" else "raise:" + str(r.get("exc")))
    return out


# the model's postprocess arm -> the same three observations
POST_TABLE = {"enum": ["list", "tuple", "raise:KeyError"], "to_tuple": ["tuple", "tuple", "tuple"],
              "same": ["list", "tuple", "str"], "to_list": ["list", "list", "str"], "opt_tuple": ["tuple", "tuple", "str"],
              "call_cls": ["list", "tuple", "PosixPath"], "call_fails": ["list", "tuple", "str"]}


def kind_digest(fw):
    from simple_parsing.helpers.custom_actions import BooleanOptionalAction

    ao = fw.arg_options
    ch = ao.get("choices")
    if ch is not None:
        t = fw.type
        if isinstance(t, type) and issubclass(t, enum.Enum) and list(ch) == [e.name for e in t]:
            ch = t.__name__
        else:
            ch = list(ch)
    nargs = ao.get("nargs")
    tf = ao.get("type")
    return {"nested": False, "required": bool(ao.get("required")), "nargs": nargs, "post": post_digest(fw),
            "conv": None if tf is None else describe_conv(tf), "choices": ch,
            "bool_action": ao.get("action") is BooleanOptionalAction,
            "callable": tf is None or callable(tf)}


# ------------------------------------------------------------------------------------------------
# rendering to source

HEADER = """from dataclasses import dataclass, field
from typing import List, Tuple, Optional, Union
from pathlib import Path
import enum
"""


def live_of(style):
    return {"typing": "typing", "builtin": "builtin", "pep604": "pep604", "post_typing": "typing",
            "post_builtin": "builtin", "post_604": "pep604"}[style]


def render_ty(t, live, canonical=False):
    k = t["k"]
    if k in ("int", "float", "str", "bool"):
        return k
    if k == "path":
        return "Path"
    if k in ("enum", "dc"):
        return t["cls"]
    L, T = ("List", "Tuple") if live == "typing" else ("list", "tuple")
    if k == "list":
        return f"{L}[{render_ty(t['item'], live)}]"
    if k == "vtuple":
        return f"{T}[{render_ty(t['item'], live)}, ...]"
    if k == "tuple":
        return f"{T}[{', '.join(render_ty(i, live) for i in t['items'])}]"
    if k == "union":
        parts = [render_ty(a, live) for a in t["alts"]]
        return " | ".join(parts) if live == "pep604" else f"Union[{', '.join(parts)}]"
    if k == "opt":
        inner = render_ty(t["inner"], live)
        if live != "pep604" and t["inner"]["k"] == "dc" and t.get("spell") == "union" and not canonical:
            return f"Union[{inner}, None]"
        return f"{inner} | None" if live == "pep604" else f"Optional[{inner}]"
    raise ValueError(k)


def render_class(name, base, fields, live, ind):
    lines = [f"{ind}@dataclass", f"{ind}class {name}" + (f"({base})" if base else "") + ":"]
    if not fields:
        lines.append(f"{ind}    pass")
    for f in fields:
        line = f"{ind}    {f['name']}: {render_ty(f['ty'], live)}"
        if f["default"] is not None:
            line += f" = {f['default']}"
        lines.append(line)
    return lines


def render_module(tree, style, layout, scope):
    live = live_of(style)
    ind = "    " if scope == "function" else ""
    body = []
    for cn, en in enum_names(tree).items():
        body.append(enum_src(en, ind, as_name=cn))
    by = {c["name"]: c for c in tree["classes"]}
    for c in tree["classes"]:
        if c["name"] != tree["root"] or layout == "flat":
            body += render_class(c["name"], None, c["fields"], live, ind)
        else:
            fmap = {f["name"]: f for f in c["fields"]}
            segs = tree["chain"]
            base = None
            for i, seg in enumerate(segs):
                last = i == len(segs) - 1
                cname = c["name"] if last else base_name(tree, i)
                names = list(seg) + (tree["redeclare"] if last else [])
                body += render_class(cname, base, [fmap[n] for n in names], live, ind)
                base = cname
    root = tree["root"]
    names = sorted(enum_names(tree)) + [c["name"] for c in tree["classes"]]
    ns = "dict(" + ", ".join(f"{n}={n}" for n in names) + ")"
    src = ("from __future__ import annotations\n" if style.startswith("post_") else "") + HEADER
    if scope == "module":
        src += "\n".join(body) + f"\n\ndef run(cb):\n    return cb({root}, {ns})\n"
    else:
        # module-level globals with the SAME NAMES as the function-local classes but different contents: the
        # function-local ones must win when the postponed annotations are evaluated
        src += "".join(enum_src(en, decoy=True, as_name=cn) + "\n" for cn, en in enum_names(tree).items())
        src += "".join(f"@dataclass\nclass {c['name']}:\n    decoy_{i}: int = 0\n"
                               for i, c in enumerate(tree["classes"]))
        src += "def run(cb):\n" + "\n".join(body) + f"\n    return cb({root}, {ns})\n"
    _ = by
    return src


def names_in(t):
    """class names (enums, nested dataclass) an annotation mentions"""
    if t["k"] in ("enum", "dc"):
        return {t["cls"]}
    out = set()
    for sub in subterms(t):
        out |= names_in(sub)
    return out


def two_module_split(tree):
    """which generated classes live in the base module (needed by a base segment) and which only in the derived one"""
    root = [c for c in tree["classes"] if c["name"] == tree["root"]][0]
    fmap = {f["name"]: f for f in root["fields"]}
    base_names = [n for seg in tree["chain"][:-1] for n in seg]
    in_a = set()
    for n in base_names:
        in_a |= names_in(fmap[n]["ty"])
    by = {c["name"]: c for c in tree["classes"]}
    for cn in list(in_a):
        if cn in by:                                   # the nested class's own annotations come along
            for f in by[cn]["fields"]:
                in_a |= names_in(f["ty"])
    everything = set(enum_names(tree)) | {c["name"] for c in tree["classes"] if c["name"] != tree["root"]}
    derived_fields = list(tree["chain"][-1]) + list(tree["redeclare"])
    used_b = set()
    for n in derived_fields:
        used_b |= names_in(fmap[n]["ty"])
    return {"a": sorted(in_a), "b": sorted(everything - in_a), "base_fields": base_names,
            "b_only_used": sorted((everything - in_a) & used_b)}


def render_two_modules(tree, style, name_a):
    """base classes of the chain in one module, the most derived class in another that imports them; classes that only
    the derived class's annotations mention are defined in the derived module only"""
    live = live_of(style)
    sp_ = two_module_split(tree)
    by = {c["name"]: c for c in tree["classes"]}
    root = by[tree["root"]]
    fmap = {f["name"]: f for f in root["fields"]}
    fut = "from __future__ import annotations\n" if style.startswith("post_") else ""

    en_map = enum_names(tree)

    def defs(names):
        out = []
        for n in names:
            if n in en_map:
                out.append(enum_src(en_map[n], as_name=n))
        for c in tree["classes"]:
            if c["name"] in names and c["name"] != tree["root"]:
                out += render_class(c["name"], None, c["fields"], live, "")
        return out

    a = defs(sp_["a"])
    segs = tree["chain"]
    base = None
    for i, seg in enumerate(segs[:-1]):
        a += render_class(base_name(tree, i), base, [fmap[n] for n in seg], live, "")
        base = base_name(tree, i)
    src_a = fut + HEADER + "\n".join(a) + "\n"
    imported = sp_["a"] + [base_name(tree, i) for i in range(len(segs) - 1)]
    b = [f"from {name_a} import {', '.join(imported)}"] + defs(sp_["b"])
    b += render_class(tree["root"], base, [fmap[n] for n in list(segs[-1]) + list(tree["redeclare"])], live, "")
    names = sorted(en_map) + [c["name"] for c in tree["classes"]]
    ns = "dict(" + ", ".join(f"{n}={n}" for n in names) + ")"
    src_b = fut + HEADER + "\n".join(b) + f"\n\ndef run(cb):\n    return cb({tree['root']}, {ns})\n"
    return src_a, src_b


def render_chain_modules(tree, style, mod_names):
    """one module PER CLASS of the chain (2 or 3 modules): module i defines the i-th class of the chain and imports
    what it needs from module i-1; every enum / nested dataclass is defined in the module of the FIRST chain class whose
    annotations mention it (root-most, middle or leaf module), unused ones in the last"""
    live = live_of(style)
    by = {c["name"]: c for c in tree["classes"]}
    root = by[tree["root"]]
    fmap = {f["name"]: f for f in root["fields"]}
    fut = "from __future__ import annotations\n" if style.startswith("post_") else ""
    en_map = enum_names(tree)
    segs = [list(seg) for seg in tree["chain"]]
    segs[-1] = segs[-1] + list(tree["redeclare"])
    everything = list(en_map) + [c["name"] for c in tree["classes"] if c["name"] != tree["root"]]
    placed = {}
    for i, seg in enumerate(segs):
        need = set()
        for n in seg:
            need |= names_in(fmap[n]["ty"])
        for cn in list(need):
            if cn in by:
                for f in by[cn]["fields"]:
                    need |= names_in(f["ty"])
        for n in need:
            placed.setdefault(n, i)
    for n in everything:
        placed.setdefault(n, len(segs) - 1)
    srcs, base = [], None
    need_of = []
    for i, seg in enumerate(segs):
        need = set()
        for n in seg:
            need |= names_in(fmap[n]["ty"])
        need_of.append(need)
    for i, seg in enumerate(segs):
        last = i == len(segs) - 1
        lines = []
        here = [n for n in everything if placed[n] == i]
        # a module imports ONLY what its own class needs: the base class and the earlier-defined names its annotations
        # mention (a name defined in the middle module is therefore unknown in the leaf module unless the leaf uses it)
        wanted = set(need_of[i])
        for cn in here:
            if cn in by:
                for f in by[cn]["fields"]:
                    wanted |= names_in(f["ty"])
        if i > 0:
            lines.append(f"from {mod_names[i - 1]} import {base}")
        for n in sorted(wanted):
            if placed[n] < i:
                lines.append(f"from {mod_names[placed[n]]} import {n}")
        for n in here:
            if n in en_map:
                lines.append(enum_src(en_map[n], as_name=n))
        for c in tree["classes"]:
            if c["name"] in here:
                lines += render_class(c["name"], None, c["fields"], live, "")
        cname = tree["root"] if last else base_name(tree, i)
        lines += render_class(cname, base, [fmap[n] for n in seg], live, "")
        base = cname
        src = fut + HEADER + "\n".join(lines) + "\n"
        if last:
            names = sorted(en_map) + [c["name"] for c in tree["classes"]]
            src += ("\ndef run(cb):\n    import sys as _sys\n    _ns = {}\n"
                    f"    for _m in {mod_names!r}:\n"
                    f"        _ns.update({{k: v for k, v in vars(_sys.modules[_m]).items() if k in {names!r}}})\n"
                    f"    return cb({tree['root']}, _ns)\n")
        srcs.append(src)
    return srcs


DECOYS = "".join(enum_src(n, decoy=True) + "\n" for n in ENUMS)


# ------------------------------------------------------------------------------------------------
# real code

_counter = itertools.count()


def _proc_dir():
    d = os.path.join(os.environ.get("TMPDIR") or "/tmp", f"spverif.{os.getpid()}")
    os.makedirs(d, exist_ok=True)
    return d


class CaseDir:
    """a fresh directory for the modules of one case; everything is removed again on exit"""

    def __enter__(self):
        import linecache

        self._linecache = linecache
        self.parent = _proc_dir()
        self.dir = tempfile.mkdtemp(prefix="c17_", dir=self.parent)
        self.names, self.paths = [], []
        return self

    def fresh_name(self):
        return f"spverif_c17_{os.getpid()}_{next(_counter)}_m"

    def load(self, text, name=None):
        tag = hashlib.sha256(text.encode()).hexdigest()[:8]
        name = name or f"spverif_c17_{os.getpid()}_{next(_counter)}_{tag}"
        path = os.path.join(self.dir, name + ".py")
        with open(path, "w") as f:
            f.write(text)
        old = sys.dont_write_bytecode
        sys.dont_write_bytecode = True
        try:
            spec = importlib.util.spec_from_file_location(name, path)
            mod = importlib.util.module_from_spec(spec)
            sys.modules[name] = mod
            self.names.append(name)
            self.paths.append(path)
            spec.loader.exec_module(mod)
        finally:
            sys.dont_write_bytecode = old
        return mod

    def __exit__(self, *a):
        for n in self.names:
            sys.modules.pop(n, None)
        for p in self.paths:
            self._linecache.cache.pop(p, None)
        shutil.rmtree(self.dir, ignore_errors=True)
        try:
            os.rmdir(self.parent)
        except OSError:
            pass
        return False


def _strip(res):
    return {k: v for k, v in res.items() if k not in ("value", "msg", "stderr_nonempty", "stdout_nonempty", "kind")}


def _observe_class(wrapper):
    """per dataclass field, in `_get_dataclass_fields` order: resolved type and arg-option digest"""
    from simple_parsing.wrappers.dataclass_wrapper import _get_dataclass_fields

    fws = {fw.field.name: fw for fw in wrapper.fields}
    kids = {ch.name: ch for ch in wrapper._children}
    out, nested = [], []
    for f in _get_dataclass_fields(wrapper.dataclass):
        if f.name in kids:
            out.append({"name": f.name, "type": reflect(f.type), "kind": {"nested": True}})
            nested.append(kids[f.name])
        elif f.name in fws:
            fw = fws[f.name]
            out.append({"name": f.name, "type": reflect(fw.type), "kind": kind_digest(fw)})
        else:
            out.append({"name": f.name, "type": reflect(f.type), "kind": {"absent": True}})
    res = [{"name": wrapper.dataclass.__name__, "fields": out}]
    for ch in nested:
        res += _observe_class(ch)
    return res


def _foreign(v, ns, path="cfg"):
    """paths of enum members / dataclass instances inside v whose class is not the one defined in THIS call"""
    bad = []
    if isinstance(v, enum.Enum) or (dataclasses.is_dataclass(v) and not isinstance(v, type)):
        if ns.get(type(v).__name__) is not type(v):
            bad.append(f"{path}:{type(v).__name__}")
        if isinstance(v, enum.Enum):
            if getattr(ns.get(type(v).__name__), "__members__", {}).get(v.name) is not v:
                bad.append(f"{path}:{type(v).__name__}.{v.name}")
        else:
            for f in dataclasses.fields(v):
                bad += _foreign(getattr(v, f.name, None), ns, f"{path}.{f.name}")
    elif isinstance(v, (list, tuple)):
        for i, x in enumerate(v):
            bad += _foreign(x, ns, f"{path}[{i}]")
    return sorted(set(bad))


def _run_rendering(tree, argvs, cls, ns, observe=True):
    """called INSIDE the module's `run` (so the defining frame is live for function-scope renderings)"""
    import simple_parsing

    obs = {"raw_types": None, "setup": None, "classes": None, "parses": []}
    if not observe:
        return _run_parses(obs, argvs, cls, ns)
    obs["raw_types"] = {f.name: (f.type if isinstance(f.type, str) else None) for f in dataclasses.fields(cls)}

    def setup():
        sp.reset_globals()
        p = simple_parsing.ArgumentParser()
        p.add_arguments(cls, dest="cfg")
        classes = _observe_class(p._wrappers[0])
        p._preprocessing(args=[])
        return classes

    r = sp.run_outcome(setup)
    if r["o"] == "ok":
        obs["setup"] = "ok"
        obs["classes"] = r["value"]
    else:
        obs["setup"] = "raise:" + r.get("exc", "?") if r["o"] == "raise" else f"exit:{r.get('code')}"
        # still describe what can be described (types resolved so far) for the correspondence

        def partial():
            sp.reset_globals()
            p = simple_parsing.ArgumentParser()
            p.add_arguments(cls, dest="cfg")
            return _observe_class(p._wrappers[0])

        r2 = sp.run_outcome(partial)
        obs["classes"] = r2["value"] if r2["o"] == "ok" else None
    return _run_parses(obs, argvs, cls, ns)


def _run_parses(obs, argvs, cls, ns):
    import simple_parsing

    for argv in argvs:
        def parse():
            sp.reset_globals()
            p = simple_parsing.ArgumentParser()
            p.add_arguments(cls, dest="cfg")
            return p.parse_args(list(argv))

        r = sp.run_outcome(parse)
        if r["o"] == "ok":
            obs["parses"].append({"o": "ok", "v": sp.cv(r["value"].cfg), "foreign": _foreign(r["value"].cfg, ns)})
        else:
            obs["parses"].append(_strip(r))
    return obs


def rkey(style, layout, scope):
    return f"{style}/{layout}/{scope}"


def impl_e2e(c):
    tree, argvs = c["tree"], c["argvs"]
    out = {"renderings": {}}
    with CaseDir() as cd:
        for style in STYLES:
            for layout in LAYOUTS:
                for scope in SCOPES:
                    src = render_module(tree, style, layout, scope)
                    try:
                        mod = cd.load(src)
                    except BaseException as e:  # noqa: BLE001 - a rendering that cannot be imported is an observation
                        out["renderings"][rkey(style, layout, scope)] = {"import_error": type(e).__name__, "msg": str(e)[:200]}
                        continue
                    try:
                        obs = mod.run(lambda cls, ns: _run_rendering(tree, argvs, cls, ns))
                        if scope == "function":
                            # the defining function is executed again (fresh classes each time): every call's parses
                            # are compared like the first one's
                            obs["again"] = [mod.run(lambda cls, ns: _run_rendering(tree, argvs, cls, ns, observe=False))["parses"]
                                            for _ in range(N_AGAIN)]
                    except BaseException as e:  # noqa: BLE001
                        obs = {"import_error": "run:" + type(e).__name__, "msg": str(e)[:200]}
                    out["renderings"][rkey(style, layout, scope)] = obs
        # the chain split over TWO modules (module scope only; compared by the oracle, not by the model)
        for style in STYLES:
            name_a = cd.fresh_name()
            src_a, src_b = render_two_modules(tree, style, name_a)
            key = rkey(style, "chain2mod", "module")
            try:
                cd.load(src_a, name_a)
                mod = cd.load(src_b)
            except BaseException as e:  # noqa: BLE001
                out["renderings"][key] = {"import_error": type(e).__name__, "msg": str(e)[:200]}
                continue
            try:
                out["renderings"][key] = mod.run(lambda cls, ns: _run_rendering(tree, argvs, cls, ns))
            except BaseException as e:  # noqa: BLE001
                out["renderings"][key] = {"import_error": "run:" + type(e).__name__, "msg": str(e)[:200]}
        # the chain with ONE MODULE PER CLASS (2 or 3 modules), definitions in the module that first needs them
        for style in STYLES:
            key = rkey(style, "chainNmod", "module")
            mod_names = [cd.fresh_name() for _ in tree["chain"]]
            try:
                mod = None
                for src, mn in zip(render_chain_modules(tree, style, mod_names), mod_names):
                    mod = cd.load(src, mn)
            except BaseException as e:  # noqa: BLE001
                out["renderings"][key] = {"import_error": type(e).__name__, "msg": str(e)[:200]}
                continue
            try:
                out["renderings"][key] = mod.run(lambda cls, ns: _run_rendering(tree, argvs, cls, ns))
            except BaseException as e:  # noqa: BLE001
                out["renderings"][key] = {"import_error": "run:" + type(e).__name__, "msg": str(e)[:200]}
        out["texts"] = {st: {cl["name"]: [render_ty(f["ty"], live_of(st), canonical=True) for f in cl["fields"]]
                             for cl in tree["classes"]} for st in STYLES}
        # what the dataclass Field must hold before anything is resolved (root class, postponed styles)
        root = [cl for cl in tree["classes"] if cl["name"] == tree["root"]][0]
        out["raw_expected"] = {st: {f["name"]: render_ty(f["ty"], live_of(st)) for f in root["fields"]}
                               for st in STYLES if st.startswith("post_")}
    return out


def _module_for_text(cd, text, postponed=True):
    src = ("from __future__ import annotations\n" if postponed else "") + HEADER
    for en in ENUMS:
        src += enum_src(en) + "\n"
    src += "@dataclass\nclass Child:\n    g0: int = 0\n"
    src += f"@dataclass\nclass C:\n    x: {text}\n"
    return cd.load(src)


def _ev_entry(mod, text):
    # (the names of typing are the lowest-priority base of the namespace, the module's own names win: fix 2754edb)
    ns = {"typing": typing, **vars(typing), "list": list, "tuple": tuple}
    class _T:
        pass

    _T.__annotations__ = {"x": text}
    try:
        v = typing.get_type_hints(_T, globalns={**ns, **vars(mod)}, localns={})["x"]
    except TypeError:
        return {"o": "typeError"}
    except BaseException:  # noqa: BLE001
        return {"o": "other"}
    if isinstance(v, str):
        return {"o": "other"}
    r = reflect(v)
    if has_raw(r):
        return {"o": "other"}
    return {"o": "ok", "ann": r}


def has_raw(r):
    if r.get("k") == "raw":
        return True
    return any(has_raw(a) for a in r.get("args", []))


def impl(case):
    op, c = case["op"], case["case"]
    if op == "annot.e2e":
        return impl_e2e(c)
    if op == "annot.rewrite":
        from simple_parsing.annotation_utils.get_field_annotations import _get_old_style_annotation

        r = sp.run_outcome(lambda: _get_old_style_annotation(c["text"]))
        if r["o"] == "ok":
            return {"o": "ok", "text": r["value"]}
        return {"o": "raise", "exc": r.get("exc")}
    if op == "annot.fields":
        from simple_parsing.wrappers.dataclass_wrapper import _get_dataclass_fields

        base, classes = (), []
        for i, names in enumerate(c["chain"]):
            cls = dataclasses.make_dataclass(f"K{i}", [(n, int, dataclasses.field(default=i)) for n in names], bases=base)
            classes.append(cls)
            base = (cls,)
        fs = _get_dataclass_fields(classes[-1])
        return {"fields": [[f.name, f.default] for f in fs]}
    if op == "annot.resolve":
        from simple_parsing.annotation_utils.get_field_annotations import (
            _get_old_style_annotation,
            get_field_type_from_annotations,
        )

        with CaseDir() as cd:
            try:
                mod = _module_for_text(cd, c["text"])
            except BaseException as e:  # noqa: BLE001
                return {"import_error": type(e).__name__}
            ev = [{"text": c["text"], "r": _ev_entry(mod, c["text"])}]
            try:
                t2 = _get_old_style_annotation(c["text"])
                if t2 != c["text"]:
                    ev.append({"text": t2, "r": _ev_entry(mod, t2)})
            except BaseException:  # noqa: BLE001
                pass
            r = sp.run_outcome(lambda: get_field_type_from_annotations(mod.C, "x"))
            if r["o"] == "ok":
                return {"ev": ev, "res": {"o": "ok", "ann": reflect(r["value"])}}
            return {"ev": ev, "res": {"o": "raise", "exc": r.get("exc")}}
    # ops on annotation objects: the object python actually builds is what both sides talk about
    t = build_ann(c["ann"])
    used = reflect(t)
    if has_raw(used):
        return {"ann_used": ann_cls("int"), "skipped": True}
    res = _impl_ann(op, c, t)
    res["ann_used"] = used
    return res


def _impl_ann(op, c, t):
    if op == "annot.classify":
        from simple_parsing import utils

        return {"is_list": utils.is_list(t), "is_tuple": utils.is_tuple(t), "is_bool": utils.is_bool(t),
                "is_enum": utils.is_enum(t), "is_union": utils.is_union(t), "is_optional": utils.is_optional(t),
                "is_dataclass": dataclasses.is_dataclass(t), "n_args": len(utils.get_type_arguments(t))}
    if op == "annot.replace":
        from simple_parsing.annotation_utils.get_field_annotations import _replace_UnionType_with_typing_Union

        r = sp.run_outcome(lambda: _replace_UnionType_with_typing_Union(t))
        if r["o"] == "ok":
            return {"o": "ok", "ann": reflect(r["value"])}
        return {"o": "raise", "exc": r.get("exc")}
    if op == "annot.kind":
        import simple_parsing

        d = c["dflt"]
        fld = dataclasses.field() if d == "missing" else dataclasses.field(default=None if d == "none" else _some_default(t))
        if d == "value" and dataclasses.is_dataclass(t):
            fld = dataclasses.field(default_factory=t)
        K = dataclasses.make_dataclass("K", [("x0", t, fld)])

        def go():
            sp.reset_globals()
            p = simple_parsing.ArgumentParser()
            p.add_arguments(K, dest="cfg")
            w = p._wrappers[0]
            if w._children:
                return {"nested": True}
            return kind_digest(w.fields[0])

        r = sp.run_outcome(go)
        if r["o"] == "ok":
            return {"o": "ok", "kind": r["value"]}
        return {"o": "raise", "exc": r.get("exc")}
    raise ValueError(op)


class _Sentinel:
    def __repr__(self):
        return "<dflt>"


_SENT = _Sentinel()


def _some_default(t):
    return _SENT


# ------------------------------------------------------------------------------------------------
# model side


def tree_for_model(tree):
    return [{"name": c["name"], "fields": [{"name": f["name"], "ty": {k: v for k, v in f["ty"].items() if k != "spell"},
                                            "dflt": f["dflt"]} for f in c["fields"]]}
            for c in tree["classes"]]


def _optdc_fields(tree):
    return {(c["name"], f["name"]) for c in tree["classes"] for f in c["fields"] if f["ty"]["k"] == "opt" and dc_of(f["ty"])}


def _mask_optdc(tree, classes):
    skip = _optdc_fields(tree)
    # inside an optional member nothing is required (the wrapper's own `required` is overridden by its parent): the
    # model's `required` is the top-level rule, so it is not compared there
    optional_classes = {dc_of(f["ty"]) for c in tree["classes"] for f in c["fields"] if f["ty"]["k"] == "opt" and dc_of(f["ty"])}
    for cl in classes or []:
        for f in cl["fields"]:
            if cl["name"] in optional_classes and isinstance(f.get("kind"), dict) and "required" in f["kind"]:
                f["kind"]["required"] = "not-compared"
    _ = skip


def model_case(case, obs):
    op, c = case["op"], case["case"]
    if op == "annot.e2e":
        return {"styles": STYLES, "classes": tree_for_model(c["tree"]),
                "chain": [seg + (c["tree"]["redeclare"] if i == len(c["tree"]["chain"]) - 1 else [])
                          for i, seg in enumerate(c["tree"]["chain"])]}
    if op == "annot.resolve":
        return {"text": c["text"], "ev": obs.get("ev", [])}
    if op in ("annot.classify", "annot.replace", "annot.kind"):
        return dict(c, ann=obs["ann_used"])
    return c


def _norm_kind(k):
    """model kind JSON -> the digest observable on the real side"""
    if k is None:
        return None
    if k.get("branch") == "nested":
        return {"nested": True}
    return {"nested": False, "required": k["required"], "nargs": k["nargs"], "conv": k["conv"], "choices": k["choices"],
            "post": POST_TABLE.get(k.get("post"), k.get("post")),
            "bool_action": k["branch"] == "bool", "callable": k["callable"]}


def _real_style_view(obs, style):
    """the observation of one style; all layouts and scopes of that style must agree with flat/module"""
    ref = obs["renderings"][rkey(style, "flat", "module")]
    if "import_error" in ref:
        return {"import_error": ref["import_error"]}
    view = {"setup": ref["setup"], "classes": ref["classes"], "raw_ok": True}
    for layout in LAYOUTS:
        for scope in SCOPES:
            o = obs["renderings"][rkey(style, layout, scope)]
            if "import_error" in o:
                return {"divergent": rkey(style, layout, scope), "import_error": o["import_error"]}
            # the Field really holds the rendered text (postponed) / a live object (otherwise) before resolution
            exp = obs.get("raw_expected", {}).get(style)
            raw = o.get("raw_types") or {}
            if exp is not None and raw != exp:
                view["raw_ok"] = {"rendering": rkey(style, layout, scope), "raw": raw, "expected": exp}
            if exp is None and any(v is not None for v in raw.values()):
                view["raw_ok"] = {"rendering": rkey(style, layout, scope), "raw": raw, "expected": "live objects"}
            if o["setup"] != ref["setup"] or json.dumps(o["classes"], sort_keys=True) != json.dumps(ref["classes"], sort_keys=True):
                return {"divergent": rkey(style, layout, scope)}
    # annotation text as the dataclass Field holds it (postponed styles) must be the rendered text
    return view


def project(case, obs):
    op, c = case["op"], case["case"]
    if op == "annot.e2e":
        out = {}
        for st in STYLES:
            v = _real_style_view(obs, st)
            if v.get("classes") is not None:
                for cl in v["classes"]:
                    texts = obs["texts"][st].get(cl["name"], [])
                    for f, tx in zip(cl["fields"], texts):
                        f["text"] = tx
                _mask_optdc(c["tree"], v["classes"])
                # when set-up raised inside DataclassWrapper.__init__ nothing can be observed per field
            out[st] = v
        chain_obs = obs["renderings"][rkey("typing", "chain", "module")]
        order = None
        if chain_obs.get("classes"):
            order = [f["name"] for f in chain_obs["classes"][0]["fields"]]
        return {"styles": out, "order": order}
    if op == "annot.resolve":
        return obs.get("res", obs)
    if op == "annot.fields":
        return {"fields": obs["fields"]}
    if op in ("annot.classify", "annot.replace", "annot.kind"):
        return {k: v for k, v in obs.items() if k != "ann_used"}
    return obs


def project_model(case, mo):
    op = case["op"]
    if op == "annot.e2e":
        out = {}
        for st, v in mo["styles"].items():
            if v["setup"].startswith("raise:") and v["setup"] != "raise:ValueError":
                out[st] = {"setup": v["setup"], "classes": None, "raw_ok": True}      # DataclassWrapper.__init__ raised
                continue
            classes = []
            # real order: root first, then nested classes in field order; the model lists classes as given
            by = {cl["name"]: cl for cl in v["classes"]}
            order = _class_order(case["case"]["tree"])
            for cn in order:
                cl = by[cn]
                classes.append({"name": cn, "fields": [{"name": f["name"], "type": f["type"]["ann"] if f["type"]["o"] == "ok" else f["type"],
                                                        "kind": _norm_kind(f["kind"]), "text": f["text"]} for f in cl["fields"]]})
            _mask_optdc(case["case"]["tree"], classes)
            out[st] = {"setup": v["setup"], "classes": classes, "raw_ok": True}
        return {"styles": out, "order": mo["order"]}
    if op == "annot.kind":
        return {"o": "ok", "kind": _norm_kind(mo)}
    return mo


def _class_order(tree):
    by = {c["name"]: c for c in tree["classes"]}
    out = []

    def walk(cn):
        out.append(cn)
        for f in by[cn]["fields"]:
            if dc_of(f["ty"]):
                walk(dc_of(f["ty"]))
    walk(tree["root"])
    return out


def model_unmodelled(mo):
    return False


# ------------------------------------------------------------------------------------------------
# the property itself


def _outcome_key(p):
    if p["o"] == "ok":
        return ("ok", json.dumps(p["v"], sort_keys=True))
    if p["o"] == "exit":
        return ("exit", p.get("code"))
    return ("raise", p.get("exc"))


def oracle(case, obs):
    op, c = case["op"], case["case"]
    if op != "annot.e2e":
        return oracle_unit(case, obs)
    fails = []
    ref = obs["renderings"][rkey(*REF)]
    if "import_error" in ref:
        return [{"clause": "reference-import", "detail": f"the reference rendering cannot be imported: {ref}"}]
    for key, o in sorted(obs["renderings"].items()):
        if key == rkey(*REF):
            continue
        style, layout, scope = key.split("/")
        if "import_error" in o:
            fails.append({"clause": "style-invariance", "rendering": key, "style": style, "layout": layout, "scope": scope,
                          "argv_i": -1, "got": ["import_error", o["import_error"]], "ref": ["ok", None],
                          "detail": f"{key}: module cannot be imported/run: {o}"})
            continue
        fails += _compare_call(c, ref, key, o["parses"], 0)
        for n, parses in enumerate(o.get("again", []), start=1):
            fails += _compare_call(c, ref, key, parses, n)
    for i, pr in enumerate(ref["parses"]):
        if pr.get("foreign"):
            fails.append({"clause": "same-call-identity", "rendering": rkey(*REF), "style": REF[0], "layout": REF[1],
                          "scope": REF[2], "argv_i": i, "call": 0, "got": pr["foreign"], "ref": [],
                          "detail": f"argv {c['argvs'][i]}: reference rendering returns objects of foreign classes {pr['foreign']}"})
    return fails


def _compare_call(c, ref, key, parses, call):
    style, layout, scope = key.split("/")
    fails = []
    for i, (pr, po) in enumerate(zip(ref["parses"], parses)):
        kr, ko = _outcome_key(pr), _outcome_key(po)
        if kr != ko:
            fails.append({"clause": "style-invariance", "rendering": key, "style": style, "layout": layout, "scope": scope,
                          "argv_i": i, "call": call, "got": list(ko), "ref": list(kr),
                          "detail": f"argv {c['argvs'][i]} (call #{call} of the defining scope): {key} gives {ko}, "
                                    f"typing/flat/module gives {kr}"})
        if po.get("foreign"):
            fails.append({"clause": "same-call-identity", "rendering": key, "style": style, "layout": layout, "scope": scope,
                          "argv_i": i, "call": call, "got": po["foreign"], "ref": [],
                          "detail": f"argv {c['argvs'][i]} (call #{call} of the defining scope): {key} returns enum members / "
                                    f"dataclass instances whose classes are not the ones defined in that call: {po['foreign']}"})
    return fails


def oracle_unit(case, obs):
    op, c = case["op"], case["case"]
    if op == "annot.fields":
        # the most derived class has every declared name once, in first-declaration order, with the last definition
        names, last = [], {}
        for i, seg in enumerate(c["chain"]):
            for n in seg:
                if n not in names:
                    names.append(n)
                last[n] = i
        exp = [[n, last[n]] for n in names]
        if obs["fields"] != exp:
            return [{"clause": "inherited-fields", "detail": f"chain {c['chain']}: fields {obs['fields']}, expected {exp}"}]
    if op == "annot.classify" and not obs.get("skipped"):
        a = obs["ann_used"]
        exp_list = a["k"] in ("typing", "builtin") and a.get("o") == "list"
        exp_tuple = a["k"] in ("typing", "builtin") and a.get("o") == "tuple"
        exp_union = a["k"] == "uniontype" or (a["k"] == "typing" and a.get("o") == "union")
        exp_opt = exp_union and any(m == ann_cls("none") for m in a["args"])
        got = (obs["is_list"], obs["is_tuple"], obs["is_union"], obs["is_optional"])
        if got != (exp_list, exp_tuple, exp_union, exp_opt):
            return [{"clause": "classifier", "detail": f"{a}: (list,tuple,union,optional) = {got}, "
                                                       f"expected {(exp_list, exp_tuple, exp_union, exp_opt)}"}]
    return []


def nontrivial(case, obs):
    op, c = case["op"], case["case"]
    if op == "annot.e2e":
        leaves = all_leaf_fields(c["tree"])
        return len(leaves) >= 2 and any(f["ty"]["k"] not in ATOMS for f in leaves) and any(c["argvs"])
    if op in ("annot.classify", "annot.replace", "annot.kind"):
        return ann_depth(c["ann"]) >= 2 and not obs.get("unbuildable")
    if op == "annot.fields":
        return len(c["chain"]) >= 2
    return "|" in c.get("text", "")


def _is_atom(t):
    return t["k"] in ATOMS


def _robust(t):
    """mirror of Props/C17.lean `robust` (which field types the theorem covers), returns a reason when outside"""
    k = t["k"]
    if _is_atom(t):
        return None
    if k == "dc":
        return "dc-inside"
    if k in ("list", "vtuple"):
        return _robust(t["item"])
    if k == "tuple":
        return None if all(_is_atom(i) for i in t["items"]) else "TupleItemsAtomic"
    if k == "union":
        for a in t["alts"]:
            if a["k"] in ("union", "opt"):
                return "not-normal"
            r = _robust(a)
            if r:
                return r
        return None
    if k == "opt":
        i = t["inner"]
        if i["k"] == "union":
            return None if all(_is_atom(a) for a in i["alts"]) else "OptionalUnionMembersAtomic"
        if i["k"] == "opt":
            return "not-normal"
        return _robust(i)
    return "?"


def theorem_scope(t):
    """'in' when c17_style_invariant_partial speaks about this field type, else the named restriction that excludes it"""
    if t["k"] == "dc" or (t["k"] == "opt" and t["inner"]["k"] == "dc"):
        return "in"
    r = _robust(t)
    if r:
        return r
    lst = t["inner"] if t["k"] == "opt" else t
    if lst["k"] == "list" and not (_is_atom(lst["item"]) or lst["item"]["k"] in ("union", "opt")):
        return "ListItemsNotContainers"
    return "in"


def ann_depth(a):
    return 1 + max([ann_depth(x) for x in a.get("args", [])], default=0)


def tags(case, obs):
    op, c = case["op"], case["case"]
    t = [f"op:{op}"]
    if op == "annot.e2e":
        t.append(f"stream:{c['tree']['stream']}")
        t.append(f"fields:{len(all_leaf_fields(c['tree']))}")
        t.append("child:" + str(len(c["tree"]["classes"]) > 1))
        t.append(f"chain:{len(c['tree']['chain'])}" + ("+redeclare" if c["tree"]["redeclare"] else ""))
        for f in all_leaf_fields(c["tree"]):
            t.append("ty:" + f["ty"]["k"] + (":" + f["ty"]["inner"]["k"] if f["ty"]["k"] == "opt" else ""))
            t.append("dflt:" + f["dflt"])
            t.append("thm:" + theorem_scope(f["ty"]))
        ref = obs["renderings"].get(rkey(*REF), {})
        for p in ref.get("parses", []):
            t.append("ref-out:" + (p["o"] if p["o"] != "exit" else f"exit{p.get('code')}"))
        if ref.get("classes"):
            for cl in ref["classes"]:
                for f in cl["fields"]:
                    k = f["kind"]
                    t.append("kind:" + ("nested" if k.get("nested") else f"nargs={k.get('nargs')}"))
        for key, o in obs["renderings"].items():
            if o.get("setup", "ok") != "ok":
                t.append("setup:" + key.split("/")[0] + ":" + o["setup"])
    elif op in ("annot.classify", "annot.replace", "annot.kind"):
        t.append("unbuildable" if obs.get("unbuildable") else "top:" + c["ann"]["k"] + ":" + c["ann"].get("o", c["ann"].get("c", "")))
        if op != "annot.classify" and not obs.get("unbuildable"):
            t.append("out:" + obs.get("o", "?") + (":" + str(obs.get("exc")) if obs.get("o") == "raise" else ""))
    elif op in ("annot.rewrite", "annot.resolve"):
        r = obs.get("res", obs)
        t.append("out:" + str(r.get("o")) + (":" + str(r.get("exc")) if r.get("o") == "raise" else ""))
        if op == "annot.resolve" and obs.get("ev"):
            t.append("ev:" + obs["ev"][0]["r"]["o"])
    return t


# ------------------------------------------------------------------------------------------------
# generator


def ty_to_text_variants(rng, t):
    live = rng.choice(["typing", "builtin", "pep604", "pep604"])
    return render_ty(t, live)


def mangle(rng, text):
    ops = rng.choice(["space", "suffix", "prefix", "nest", "comma", "none"])
    if ops == "space":
        return text.replace(" | ", rng.choice(["|", "  |  ", " |"]))
    if ops == "suffix":
        return text + rng.choice([" | None", " | int", "[int]"])
    if ops == "prefix":
        return rng.choice(["None | ", "int | "]) + text
    if ops == "nest":
        return rng.choice(["list[", "Optional[", "dict[str, "]) + text + "]"
    if ops == "comma":
        return "tuple[" + text + ", " + rng.choice(["int | str", "list[int | None]", "str"]) + "]"
    return text


FIXED_TEXTS = ["int | None", "int|str", " int | str ", "list[int | str]", "list[int] | None", "int | list[int]",
               "tuple[int | str, float]", "tuple[int | None, str | None]", "dict[str, int | None]",
               "tuple[dict[str, int | None], int]", "list[list[int | str]]", "Optional[int]", "int", "a] | b",
               "list[int | str", "x | y | z", "tuple[int, ...] | None", "list[int | str] | None", "|", "[|]", "a[b|c]d",
               "tuple[int | str, list[int | float]]", "Union[int, str] | None", "list[ int | str ]"]


def gen(rng, tier):
    quick = tier == "quick"
    # (e) inheritance chains
    for _ in range(60 if quick else 1500):
        pool = [f"n{i}" for i in range(6)]
        chain = []
        for _ in range(rng.choice([1, 2, 2, 3, 3, 4])):
            chain.append(rng.sample(pool, rng.choice([0, 1, 2, 3])))
        yield {"op": "annot.fields", "case": {"chain": chain}}
    # (c) rewriter
    for tx in FIXED_TEXTS:
        yield {"op": "annot.rewrite", "case": {"text": tx}}
    for _ in range(150 if quick else 5000):
        t = rng.choice([t_field, t_field, t_d18, t_vt])(rng)
        yield {"op": "annot.rewrite", "case": {"text": mangle(rng, ty_to_text_variants(rng, t))}}
    # (d) string resolution
    for tx in ["int | None", "list[int | str]", "list[int | str] | None", "tuple[int, ...] | None", "Optional[int]",
               '"int" | None', "List[int]", "Color | None", "Child", "Optional[Child]", "NoSuchName", "list[int] | None",
               "tuple[int | None, str] | None", '"Color" | None', "list[Optional[int]] | None", "List[int] | None",
               "Union[int, str] | None"]:
        yield {"op": "annot.resolve", "case": {"text": tx}}
    for _ in range(60 if quick else 2500):
        t = rng.choice([t_field, t_field, t_d18, t_vt])(rng)
        yield {"op": "annot.resolve", "case": {"text": render_ty(t, rng.choice(["typing", "builtin", "pep604", "pep604"]))}}
    # (b) annotation objects
    for _ in range(250 if quick else 8000):
        a = rand_ann(rng)
        if not buildable(a):
            continue
        yield {"op": "annot.classify", "case": {"ann": a}}
        yield {"op": "annot.replace", "case": {"ann": a}}
        yield {"op": "annot.kind", "case": {"ann": a, "dflt": rng.choice(["missing", "value", "value", "none"])}}
    # (a) end to end
    n = 60 if quick else 500
    for i in range(n):
        stream = "grammar"
        if i % 10 == 3:
            stream = "d18"
        elif i % 10 == 7:
            stream = "vt"
        elif i % 10 == 5:
            stream = "loc"
        elif i % 10 in (1, 8):
            stream = "mod3"
        yield e2e_case(rng, stream)


# ------------------------------------------------------------------------------------------------
# shrinking / neighbours


def shrink(case):
    if case["op"] != "annot.e2e":
        return
    c = case["case"]
    tree = c["tree"]
    root = [cl for cl in tree["classes"] if cl["name"] == tree["root"]][0]

    def with_root_fields(fields):
        names = [f["name"] for f in fields]
        classes = [cl if cl["name"] != tree["root"] else dict(cl, fields=fields) for cl in tree["classes"]]
        if not any(dc_of(f["ty"]) for f in fields):
            classes = [cl for cl in classes if cl["name"] == tree["root"]]
        chain = [[n for n in seg if n in names] for seg in tree["chain"]]
        red = [n for n in tree["redeclare"] if n in names]
        t2 = dict(tree, classes=classes, chain=chain, redeclare=red)
        argvs = [av for av in c["argvs"] if _argv_ok(av, t2)]
        return {"op": case["op"], "case": {"tree": t2, "argvs": argvs or [[]]}}

    if len(root["fields"]) > 1:
        for i in range(len(root["fields"])):
            yield with_root_fields(root["fields"][:i] + root["fields"][i + 1:])
    for i in range(len(c["argvs"])):
        if len(c["argvs"]) > 1:
            yield {"op": case["op"], "case": dict(c, argvs=c["argvs"][:i] + c["argvs"][i + 1:])}
    if tree["redeclare"]:
        yield {"op": case["op"], "case": dict(c, tree=dict(tree, redeclare=[]))}


def _argv_ok(av, tree):
    names = {f["name"] for f in all_leaf_fields(tree)}
    for tok in av:
        if tok.startswith("--"):
            n = tok[2:].split("=")[0]
            if n != "nope" and n not in names and not (n.startswith("no") and n[2:] in names):
                return False
    return True


def neighbours(case, rng):
    for _ in range(30):
        yield e2e_case(rng, rng.choice(["grammar", "grammar", "d18", "vt", "loc", "mod3"]))


# ------------------------------------------------------------------------------------------------
# open findings


def _sig_loc(case, obs, fail):
    """list of containers: the builtin spellings accept the option (and return characters), typing exits 2"""
    if case["op"] != "annot.e2e" or fail.get("clause") != "style-invariance":
        return False
    if fail.get("style") not in ("builtin", "pep604", "post_builtin", "post_604"):
        return False
    if fail.get("ref") != ["exit", 2] or (fail.get("got") or [None])[0] != "ok":
        return False
    argv = case["case"]["argvs"][fail["argv_i"]]
    used = {tok[2:].split("=")[0] for tok in argv if tok.startswith("--")}
    return any(is_loc(f["ty"]) and f["name"] in used for f in all_leaf_fields(case["case"]["tree"]))


FINDINGS = {
    "C17-list-of-containers": _sig_loc,
}

MANIFEST = {
    "text": ("Proof, partial (named gap: ListItemsNotContainers = open finding C17-list-of-containers). Lean theorems over a "
             "model of the annotation objects CPython hands to simple_parsing (plain class, typing alias, builtin alias, "
             "types.UnionType, postponed text) and of simple_parsing's code that looks at them (utils.py classifiers, "
             "get_parsing_fn / get_argparse_type_for_container, contains_dataclass_type_arg, "
             "_replace_UnionType_with_typing_Union, the string resolution of get_field_type_from_annotations, the type-"
             "dependent part of get_arg_options, and the annotation-dependent arms of FieldWrapper.postprocess): "
             "c17_style_invariant_partial — for every field type of InCliGrammar in CPython's normal form, all six renderings "
             "(typing, builtin, PEP 604, and the postponed text of each) give a field the same add_argument options "
             "(branch, required, nargs, type= callable) AND the same postprocess arm, under the evaluator assumption; "
             "c17_post_live proves the postprocess arm equal for EVERY type expression. InCliGrammar allows unbounded nesting "
             "of lists, variadic tuples, unions, optionals, Optional[dataclass]; its restrictions are named: "
             "ListItemsNotContainers (the gap: List[List[int]] vs list[list[int]] genuinely differ — witness "
             "c17_list_of_containers_witness, FullStatement refuted) and, for the proof only, TupleItemsAtomic and "
             "OptionalUnionMembersAtomic (fixed-tuple items / Optional[Union] members are atoms; about 10% of generated fields "
             "fall outside and are covered by the differential check only). Further: the recursive UnionType replacement "
             "yields exactly the builtin-style object (replace_denote); resolution is idempotent on the grammar; the field "
             "list of ANY linear chain, re-declared fields included, is first-declaration order with the last definition in "
             "force (c17_inherit_order, c17_inherit_last_wins). The rewriter theorems (identity on |-free text, flat unions, "
             "Optional of a builtin atom) are separate: on Python 3.12 the text rewriter is reached only through the TypeError "
             "arm of the resolution, never by the six renderings. SAMPLED ONLY, not modelled: the namespace logic of "
             "get_field_type_from_annotations (layering of typing names / frame locals / MRO-ordered module globals, the frame "
             "walk) — the model takes CPython's evaluation as a parameter (EvalOk) whose table the driver builds itself, so "
             "'function still executing', 'inherited x postponed' and 'base in another module' are checked by the oracle on "
             "real modules (function scope executed 3 times with same-call class identity, colliding module-level names, "
             "a two-module chain layout), not by a theorem."),
    "note": ("Trusted: Lean kernel + propext/Classical.choice/Quot.sound; CPython's evaluation of annotation text and its "
             "typing representations (observed; the evaluator table of the e2e op is built by the model from its own "
             "renderer, whose text is compared with the harness renderer and with the real Field.type strings); stdlib "
             "argparse (equal add_argument keywords give equal parses); the harness. Modelled not verified: utils.py:134-611, "
             "get_field_annotations.py:69-252, field_parsing.py:70-249, field_wrapper.py:267-398,460-533, "
             "dataclass_wrapper.py:81-92,133-166,448-460. default= and metavar are not part of the modelled options (they are "
             "covered by the end-to-end comparison of results only)."),
    "technique": "Lean 4 mutual structural induction over type expressions + differential correspondence on real rendered modules",
    "design_ref": "DESIGN.md section 5, C17",
}
