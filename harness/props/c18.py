"""C18 — replace() applies exactly the requested nested changes and nothing else; replace_subgroups."""
from __future__ import annotations

import copy
import dataclasses
import json
from typing import Dict, List, Optional, Union

from harness.core import sp

PID = "C18"
RULE = ("cases: random dataclass forests (depth <= 4, frozen / Optional / Union members, init=False fields) with an "
        "instance and a list of intended edits (path, new value); the edits are rendered as a change set choosing the "
        "dotted or the nested form per subtree and the positional-dict or keyword form at the top; bad edits "
        "(init=False target, unknown field, dotted path through None / a non-dataclass value) and a malformed stream "
        "(conflicting keys, both argument forms, empty sub-dicts, reserved keyword names) are tagged; unit cases for "
        "unflatten_split and _unflatten_selection_dict on random key sets; replace_subgroups on forests with subgroup / "
        "Optional / Union / nested-subgroup fields and selections by key, type, instance, None in dotted and nested "
        "form. Non-trivial = at least one edit at depth >= 2 or >= 2 edits (replace), a selection that changes a member "
        "(subgroups), a dotted key (unit ops); distinct by canonical JSON of the case.")
ASSUMPTIONS = [
    "change-set / selection mappings are dicts or dict subclasses (OrderedDict, defaultdict) - a mapping is a mapping for the "
    "model; non-dict Mappings are outside the signature",
    "init=False fields: the result is what dataclasses.replace builds (they are re-created from the class default on every "
    "rebuilt level); theorems c18_empty / c18_frame assume AtDefault / initPath accordingly, the oracle expects the reset",
    "dataclasses.replace / dataclass __init__ / __eq__ (stdlib) behave as documented; classes have no __post_init__",
    "str.split('.') is modelled on the generated ASCII keys",
    "change values and instances are JSON-representable trees without sharing (aliasing between change dicts is not modelled)",
]
TRUSTED = ["stdlib dataclasses (construction, replace, fields)"]
EXHAUSTIVE = {"quick": False, "thorough": False}
THOROUGH_ROUNDS = 6   # thorough tier: this many generator passes with derived PRNG states (vcheck)

RESERVED = ("obj", "changes_dict")
KW = "__key__"

# ------------------------------------------------------------------------------------------------
# value helpers (canonical value trees, DESIGN Appendix A)


def I(n):
    return {"t": "int", "v": str(n)}


def S(s):
    return {"t": "str", "v": s}


NONE = {"t": "none"}


def D(items):
    return {"t": "dict", "v": [[S(k), v] for k, v in items]}


def as_subclass(rng, d):
    """the same mapping, to be built as a dict SUBCLASS (collections.OrderedDict / defaultdict(dict)) by the adapter:
    what json.load(object_pairs_hook=OrderedDict), yaml loaders or a defaultdict tree hand to replace()"""
    k = rng.choice([None, None, "ordered", "default"])
    return d if k is None else dict(d, sub=k)


def ditems(d):
    return [(kv[0]["v"], kv[1]) for kv in d["v"]]


def canon(x):
    return json.dumps(x, sort_keys=True, ensure_ascii=False, separators=(",", ":"))


def cls_by_name(classes):
    return {c["name"]: c for c in classes}


def default_inst(classes, name):
    c = cls_by_name(classes)[name]
    return {"t": "inst", "cls": name, "v": [[f["name"], f["default"]] for f in c["fields"]]}


def alt_cls(a):
    return a["inst"]["cls"] if "inst" in a else (a.get("type") or a.get("partial") or a.get("func"))


def alt_member(classes, a):
    """the INSTANCE a subgroup choice builds: type() / partial() / factory() / the frozen instance itself"""
    if "inst" in a:
        return a["inst"]
    d = default_inst(classes, alt_cls(a))
    over = dict((n, v) for n, v in a.get("kw", []))
    return {"t": "inst", "cls": d["cls"], "v": [[n, over.get(n, v)] for n, v in d["v"]]}


# ------------------------------------------------------------------------------------------------
# generators


LEAF_NAMES = ["a", "b", "c", "v", "w", "x_y", "k", "z", "n1", "lr"]
MEMBER_NAMES = ["m", "ol", "sub", "inner", "cfg", "u", "opt_m"]


def gen_leaf_value(rng, kind):
    if kind == "int":
        return I(rng.choice([0, 1, -3, 7, 42, 10**12]))
    if kind == "str":
        return S(rng.choice(["", "w", "bob", "a.b", "x y"]))
    if kind == "bool":
        return {"t": "bool", "v": rng.random() < 0.5}
    if kind == "optint":
        return NONE if rng.random() < 0.5 else I(rng.randrange(5))
    if kind == "list":
        return {"t": "list", "v": [I(rng.randrange(4)) for _ in range(rng.randrange(3))]}
    if kind == "dict":
        return D([(k, I(rng.randrange(9))) for k in rng.sample(["k", "x.y", "q"], rng.randrange(3))])
    raise ValueError(kind)


def gen_forest(rng, depth, with_sg=False, reserved=False):
    """classes in creation order (members before users); returns (classes, root name)."""
    classes = []
    by_level: dict[int, list[str]] = {}
    counter = [0]

    def new_class(level):
        name = f"C{counter[0]}"
        counter[0] += 1
        fields = []
        used = set()
        nf = rng.randrange(1, 5)
        lower = [n for lv in range(level) for n in by_level.get(lv, [])]
        below = by_level.get(level - 1, [])
        for i in range(nf):
            want_member = lower and (i == 0 or rng.random() < 0.35)
            if want_member:
                fname = rng.choice([n for n in MEMBER_NAMES if n not in used] or ["mm%d" % i])
                used.add(fname)
                first = rng.choice(below) if (i == 0 and below) else rng.choice(lower)
                r = rng.random()
                if with_sg and r < 0.45:
                    alts = {}
                    keys = rng.sample(["a", "b", "c_d", "odd"], rng.randrange(2, 4))
                    used_types = set()
                    for j, key in enumerate(keys):
                        cn = first if j == 0 else rng.choice(lower)
                        r2 = rng.random()
                        if j > 0 and cls_by_name(classes)[cn]["frozen"] and r2 < 0.35:
                            alts[key] = {"inst": gen_inst(rng, classes, cn)}
                        elif j > 0 and r2 < 0.8:
                            leafs = [g for g in cls_by_name(classes)[cn]["fields"] if g["init"] and not g["cls"]]
                            kw = [[g["name"], gen_leaf_value(rng, g["kind"])] for g in leafs if rng.random() < 0.6]
                            alts[key] = {("partial" if r2 < 0.6 else "func"): cn, "kw": kw}
                        elif cn not in used_types:
                            alts[key] = {"type": cn}
                            used_types.add(cn)
                    fields.append({"name": fname, "kind": "sg", "cls": sorted({alt_cls(a) for a in alts.values()}),
                                   "alts": alts, "init": True, "factory": True,
                                   "default": default_inst(classes, alts[keys[0]]["type"])})
                elif r < 0.6:
                    dflt_none = rng.random() < 0.6
                    fields.append({"name": fname, "kind": "opt", "cls": [first], "init": True, "factory": not dflt_none,
                                   "default": NONE if dflt_none else default_inst(classes, first)})
                elif r < 0.75:
                    other = rng.choice(lower)
                    fac = rng.random() < 0.7
                    fields.append({"name": fname, "kind": "union", "cls": [first, other], "init": True, "factory": fac,
                                   "default": default_inst(classes, first) if fac else NONE})
                else:
                    fac = rng.random() < 0.85
                    fields.append({"name": fname, "kind": "dc", "cls": [first], "factory": fac,
                                   "init": not (fac and not with_sg and rng.random() < 0.1),
                                   "default": default_inst(classes, first) if fac else NONE})
            else:
                pool = [n for n in LEAF_NAMES if n not in used]
                if reserved and rng.random() < 0.5:
                    pool = [n for n in RESERVED if n not in used] or pool
                fname = rng.choice(pool or ["f%d" % i])
                used.add(fname)
                kind = rng.choice(["int", "int", "str", "bool", "optint", "list", "dict"])
                init = not (kind in ("int", "str", "list") and rng.random() < 0.12)
                fields.append({"name": fname, "kind": kind, "cls": [], "init": init, "factory": kind in ("list", "dict"),
                               "default": gen_leaf_value(rng, kind)})
        c = {"name": name, "frozen": rng.random() < 0.3, "fields": fields}
        classes.append(c)
        by_level.setdefault(level, []).append(name)
        return name

    for level in range(depth):
        for _ in range(1 if level == depth - 1 else rng.randrange(1, 3)):
            new_class(level)
    return classes, classes[-1]["name"]


def off_default(rng, classes, f):
    """a value of an init=False field that is NOT the class default (set after construction)"""
    d = f["default"]
    if f["kind"] == "int":
        return I(int(d["v"]) + rng.choice([1, 5]))
    if f["kind"] == "str":
        return S(d["v"] + "_set")
    if f["kind"] == "list":
        return {"t": "list", "v": d["v"] + [I(9)]}
    if f["kind"] == "dc":
        for _ in range(4):
            v = gen_inst(rng, classes, f["cls"][0], 0.0)
            if v != d:
                return v
    return d


def gen_inst(rng, classes, name, p_default=0.25, p_mut=0.0):
    c = cls_by_name(classes)[name]
    vals = []
    for f in c["fields"]:
        if not f["init"]:
            vals.append([f["name"], off_default(rng, classes, f) if rng.random() < p_mut else f["default"]])
        elif rng.random() < p_default:
            vals.append([f["name"], f["default"]])
        elif f["kind"] in ("dc", "union", "sg", "opt"):
            if f["kind"] == "opt" and rng.random() < 0.4:
                vals.append([f["name"], NONE])
            else:
                vals.append([f["name"], gen_inst(rng, classes, rng.choice(f["cls"]), p_default, p_mut)])
        else:
            vals.append([f["name"], gen_leaf_value(rng, f["kind"])])
    return {"t": "inst", "cls": name, "v": vals}


def field_of(classes, cls, fname):
    for f in cls_by_name(classes)[cls]["fields"]:
        if f["name"] == fname:
            return f
    return None


def tree_get(v, path):
    for k in path:
        if v.get("t") != "inst":
            return None
        nxt = [x for n, x in v["v"] if n == k]
        if not nxt:
            return None
        v = nxt[0]
    return v


def gen_edit(rng, classes, obj, kind):
    """one intended edit {"path", "v", "kind"}; kind in ok|noninit|unknown|through"""
    path = []
    cur = obj
    while True:
        c = cls_by_name(classes)[cur["cls"]]
        members = [(n, v) for n, v in cur["v"] if v.get("t") == "inst" and field_of(classes, cur["cls"], n)["init"]]
        if members and rng.random() < 0.65:
            n, v = rng.choice(members)
            path.append(n)
            cur = v
            continue
        break
    c = cls_by_name(classes)[cur["cls"]]
    if kind == "ok":
        cands = [f for f in c["fields"] if f["init"]]
        if not cands:
            return None
        f = rng.choice(cands)
        curv = tree_get(cur, [f["name"]])
        for _try in range(6):
            v = _new_value(rng, classes, f, curv)
            if v != curv or rng.random() < 0.05:
                break
        return {"path": path + [f["name"]], "v": v, "kind": "ok"}
    if kind == "noninit":
        cands = [f for f in c["fields"] if not f["init"]]
        if not cands:
            return None
        f = rng.choice(cands)
        sub = tree_get(cur, [f["name"]])
        if sub.get("t") == "inst" and rng.random() < 0.6:      # init=False member at an intermediate position
            return {"path": path + [f["name"], rng.choice(sub["v"])[0]], "v": I(99), "kind": "noninit"}
        return {"path": path + [f["name"]], "v": I(99), "kind": "noninit"}
    if kind == "unknown":
        return {"path": path + [rng.choice(["qq", "zz_unknown", ""])], "v": I(99), "kind": "unknown"}
    if kind == "through":
        cands = [n for n, v in cur["v"] if v.get("t") != "inst" and field_of(classes, cur["cls"], n)["init"]]
        if not cands:
            return None
        return {"path": path + [rng.choice(cands), rng.choice(["v", "q", "a"])], "v": I(3), "kind": "through"}
    raise ValueError(kind)


def _new_value(rng, classes, f, curv):
    r = rng.random()
    if f["kind"] in ("dc", "union", "sg", "opt"):
        if r < 0.5:
            v = gen_inst(rng, classes, rng.choice(f["cls"]))
        elif r < 0.75:
            v = NONE
        else:
            v = I(5)
    elif r < 0.8:
        v = gen_leaf_value(rng, f["kind"])
    else:
        v = gen_leaf_value(rng, rng.choice(["int", "str", "list", "dict"]))
    if v["t"] == "dict" and curv.get("t") == "inst":
        v = NONE
    return v


def inst_paths(classes, v, pre=()):
    """paths (through init fields) to every dataclass-valued init field of the instance tree v"""
    out = []
    if v.get("t") == "inst":
        for n, x in v["v"]:
            if x.get("t") == "inst" and field_of(classes, v["cls"], n)["init"]:
                out.append(list(pre) + [n])
                out += inst_paths(classes, x, tuple(pre) + (n,))
    return out


def is_prefix(p, q):
    return len(p) <= len(q) and q[: len(p)] == p


def render(rng, edits, mode="mixed"):
    """change-set dict for edits [(path, V)]; one form (dotted / nested) per top-level subtree."""
    heads = []
    for p, _ in edits:
        if p[0] not in heads:
            heads.append(p[0])
    items = []
    for h in heads:
        sub = [(p[1:], v) for p, v in edits if p[0] == h]
        if any(len(p) == 0 for p, _ in sub):
            items.append((h, sub[0][1]))
            continue
        form = mode if mode != "mixed" else rng.choice(["dotted", "nested"])
        if form == "dotted":
            for p, v in sub:
                items.append((".".join([h] + p), v))
        else:
            items.append((h, as_subclass(rng, render(rng, sub, mode))))
    if mode == "mixed":
        rng.shuffle(items)
    return D(items)


def gen_replace_case(rng, tier, bad=None, reserved=False, touch=False):
    for _ in range(30):
        c = _gen_replace_case(rng, tier, bad, reserved, touch)
        want = bad or ("touch" if touch else None)
        if want is None or any(e["kind"] == want for e in c["case"]["edits"]):
            break
    return c


def _gen_replace_case(rng, tier, bad=None, reserved=False, touch=False):
    depth = rng.choice([1, 2, 2, 3, 3, 4])
    classes, root = gen_forest(rng, depth, reserved=reserved)
    obj = gen_inst(rng, classes, root, p_default=0.2, p_mut=rng.choice([0.0, 0.0, 0.5]))
    n = rng.choice([0, 0, 1, 2]) if touch else rng.choice([0, 1, 1, 2, 2, 3, 4])
    edits = []
    for _ in range(n):
        e = gen_edit(rng, classes, obj, "ok")
        if e is None:
            continue
        if any(is_prefix(e["path"], x["path"]) or is_prefix(x["path"], e["path"]) for x in edits):
            continue
        edits.append(e)
    if touch:
        ips = inst_paths(classes, obj)
        rng.shuffle(ips)
        for pth in ips[: rng.choice([1, 1, 2, 3])]:
            if not any(is_prefix(pth, x["path"]) or is_prefix(x["path"], pth) for x in edits):
                edits.insert(rng.randrange(len(edits) + 1), {"path": pth, "v": D([]), "kind": "touch"})
    if bad:
        e = gen_edit(rng, classes, obj, bad)
        if e is not None and not any(is_prefix(e["path"], x["path"]) or is_prefix(x["path"], e["path"]) for x in edits):
            edits.insert(rng.randrange(len(edits) + 1), e)
    has_through = any(e["kind"] == "through" for e in edits)
    ch = render(rng, [(e["path"], e["v"]) for e in edits], "dotted" if has_through else "mixed")
    form = rng.choice(["dict", "dict", "kw"])
    if form == "kw" and any(k in RESERVED for k, _ in ditems(ch)):
        form = "dict"
    case = {"classes": classes, "obj": obj, "edits": edits, "stream": "edits",
            "cd": as_subclass(rng, ch) if form == "dict" else None, "kw": ch if form == "kw" else D([])}
    return {"op": "replace.e2e", "case": case}


def gen_malformed_case(rng, tier):
    base = gen_replace_case(rng, tier)["case"]
    ch = base["cd"] or base["kw"]
    items = ditems(ch)
    kind = rng.choice(["both", "conflict", "conflict_rev", "touch", "mix_same_head", "deep_dotted_in_nested", "nonfield_dict"])
    cd, kw = base["cd"], base["kw"]
    obj = base["obj"]
    members = [n for n, v in obj["v"] if v.get("t") == "inst" and field_of(base["classes"], obj["cls"], n)["init"]]
    leafs = [n for n, v in obj["v"] if v.get("t") != "inst"]
    if kind == "both":
        cd = ch
        kw = D([(rng.choice(leafs + members + ["zz"]), I(1))]) if rng.random() < 0.8 else D([])
    elif kind in ("conflict", "conflict_rev") and (members or leafs):
        h = rng.choice(members + leafs)
        extra = [(h, I(1)), (h + ".a", I(2))]
        if kind == "conflict_rev":
            extra.reverse()
        cd, kw = D([kv for kv in items if kv[0].split(".")[0] != h] + extra), D([])
    elif kind == "touch" and members:
        h = rng.choice(members)
        cd, kw = D([kv for kv in items if kv[0].split(".")[0] != h] + [(h, D([]))]), D([])
    elif kind == "mix_same_head" and members:
        h = rng.choice(members)
        sub = tree_get(obj, [h])
        fn = [n for n, _ in sub["v"]]
        extra = [(h, D([(rng.choice(fn), I(11))])), (h + "." + rng.choice(fn), I(12))]
        if rng.random() < 0.5:
            extra.reverse()
        cd, kw = D([kv for kv in items if kv[0].split(".")[0] != h] + extra), D([])
    elif kind == "deep_dotted_in_nested" and members:
        h = rng.choice(members)
        sub = tree_get(obj, [h])
        fn = [n for n, _ in sub["v"]]
        cd, kw = D([(h, D([(rng.choice(fn) + ".x", I(1)), (rng.choice(fn), I(2))]))]), D([])
    elif kind == "nonfield_dict":
        cd, kw = D(items + [("zz", D([("a", I(1))]))]), D([])
    case = dict(base, cd=cd, kw=kw, stream="malformed:" + kind, edits=[])
    return {"op": "replace.e2e", "case": case}


def gen_unflatten_case(rng):
    parts = ["a", "b", "c", "", "x_y"]
    items = []
    seen = set()
    for _ in range(rng.randrange(0, 6)):
        k = ".".join(rng.choice(parts) for _ in range(rng.choice([1, 1, 2, 2, 3, 4])))
        if k in seen:
            continue
        seen.add(k)
        r = rng.random()
        v = I(rng.randrange(9)) if r < 0.7 else (D([(rng.choice(["a", "b", "a.b"]), I(1))]) if r < 0.9 else D([]))
        items.append((k, v))
    return items


SEL_PARTS = ["a", "b", "m", KW]


def gen_unflatten_sel_case(rng):
    items = []
    seen = set()
    for _ in range(rng.randrange(0, 6)):
        k = ".".join(rng.choice(SEL_PARTS) for _ in range(rng.choice([1, 1, 2, 2, 3])))
        if k in seen:
            continue
        seen.add(k)
        r = rng.random()
        v = S(rng.choice(["x", "y"])) if r < 0.7 else (D([(rng.choice(["a", KW, "a.b"]), S("k"))]) if r < 0.9 else NONE)
        items.append((k, v))
    return items


def gen_sel_value(rng, classes, f, valid):
    """(selection value V, expected member V or None when the selection is not one the oracle judges)"""
    lower = [c["name"] for c in classes]
    if f["kind"] == "sg":
        keys = list(f["alts"])
        r = rng.random()
        if valid or r < 0.6:
            if rng.random() < 0.75:
                k = rng.choice(keys)
                a = f["alts"][k]
                return S(k), alt_member(classes, a)
            cn = rng.choice(f["cls"])
            if rng.random() < 0.5:
                return {"t": "type", "cls": cn}, default_inst(classes, cn)
            v = gen_inst(rng, classes, cn)
            return v, v
        return rng.choice([S("nokey"), NONE, I(3)]), None
    if f["kind"] in ("dc", "union", "opt"):
        r = rng.random()
        if valid or r < 0.7:
            cn = rng.choice(f["cls"])
            if rng.random() < 0.5:
                return {"t": "type", "cls": cn}, default_inst(classes, cn)
            v = gen_inst(rng, classes, cn)
            return v, v
        return rng.choice([NONE, NONE, S("a"), I(1)]), None
    return rng.choice([I(4), NONE, S("a"), {"t": "type", "cls": rng.choice(lower)}]), None


DCISH = ("sg", "dc", "union", "opt")


def gen_sel_tree(rng, classes, cur, path, valid, depth, sels, top=False):
    """intended selections below the instance tree `cur` (the value that will sit at `path`): each chosen field is
    either selected itself (by key / type / instance; children then address the NEW member) or only passed through
    (children address the current value)."""
    c = cls_by_name(classes)[cur["cls"]]
    cand = [f for f in c["fields"] if f["kind"] in DCISH] if (valid or not top) else list(c["fields"])
    rng.shuffle(cand)
    n = rng.choice([0, 1, 1, 2, 3]) if top else rng.choice([1, 1, 2])
    for f in cand[:n]:
        curv = tree_get(cur, [f["name"]])
        can_pass = f["kind"] in DCISH and curv is not None and curv.get("t") == "inst" and depth > 1
        if can_pass and rng.random() < 0.3:
            before = len(sels)
            gen_sel_tree(rng, classes, curv, path + [f["name"]], valid, depth - 1, sels)
            for s_ in sels[before:]:
                s_["passthrough"] = True
            continue
        v, member = gen_sel_value(rng, classes, f, valid)
        sels.append({"path": path + [f["name"]], "v": v, "member": member})
        if member is not None and member.get("t") == "inst" and depth > 1 and rng.random() < 0.55:
            mc = cls_by_name(classes)[member["cls"]]
            if any(g["kind"] in DCISH for g in mc["fields"]):
                gen_sel_tree(rng, classes, member, path + [f["name"]], valid, depth - 1, sels)


def render_sel(rng, sels, form=None):
    """selection dict for [(path, value)]: per head the flat (dotted, any depth) or the nested (`__key__`) form;
    the items of every level are shuffled, so a parent entry may come before, between or after its children."""
    heads = []
    for p_, _ in sels:
        if p_[0] not in heads:
            heads.append(p_[0])
    items = []
    for h in heads:
        own = [v for p_, v in sels if p_ == [h]]
        kids = [(p_[1:], v) for p_, v in sels if len(p_) >= 2 and p_[0] == h]
        if not kids:
            # a lone selection may also be written in the nested form {"h": {"__key__": v}}
            items.append((h, as_subclass(rng, D([(KW, own[0])]))) if (form is None and rng.random() < 0.3) else (h, own[0]))
            continue
        f = form or rng.choice(["flat", "nested"])
        if f == "flat":
            if own:
                items.append((h, own[0]))
            for p_, v in kids:
                items.append((".".join([h] + p_), v))
        else:
            sub = ditems(render_sel(rng, kids, form))
            if own:
                sub.insert(rng.randrange(len(sub) + 1), (KW, own[0]))
            items.append((h, as_subclass(rng, D(sub))))
    rng.shuffle(items)
    return D(items)


def gen_subgroups_case(rng, tier):
    depth = rng.choice([2, 3, 3, 4, 4])
    classes, root = gen_forest(rng, depth, with_sg=True)
    if rng.random() < 0.85:       # replace_subgroups rejects any class with an init=False field
        for c in classes:
            for f in c["fields"]:
                f["init"] = True
    obj = gen_inst(rng, classes, root, p_default=0.2)
    valid = rng.random() < 0.65
    sels = []         # intended selections: {"path", "v", "member"}
    gen_sel_tree(rng, classes, obj, [], valid, rng.choice([1, 2, 2, 3, 3]), sels, top=True)
    if valid and rng.random() < 0.12:
        # a key that names no field (at the top, or below a member that is selected / passed through)
        hosts = [[]] + [s_["path"] for s_ in sels if (s_["member"] or {}).get("t") == "inst"]
        hosts += [s_["path"][:-1] for s_ in sels if len(s_["path"]) >= 2]
        sels.append({"path": rng.choice(hosts) + ["zz_unknown"], "v": S("b"), "member": None, "unknown": True})
    items = ditems(render_sel(rng, [(s_["path"], s_["v"]) for s_ in sels]))
    if not valid and rng.random() < 0.3:
        items.insert(rng.randrange(len(items) + 1), ("zz_unknown", S("a")))
    sel = None if (not items and rng.random() < 0.5) else as_subclass(rng, D(items))
    return {"op": "replace.subgroups", "case": {"classes": classes, "obj": obj, "sel": sel, "sels": sels, "valid": valid}}


def gen(rng, tier):
    q = tier == "quick"
    for _ in range(400 if q else 1500):
        yield {"op": "replace.unflatten", "case": {"ch": D(gen_unflatten_case(rng))}}
    for _ in range(300 if q else 1000):
        yield {"op": "replace.unflatten_sel", "case": {"sel": D(gen_unflatten_sel_case(rng))}}
    for _ in range(1500 if q else 5000):
        yield gen_replace_case(rng, tier)
    for _ in range(250 if q else 1200):
        yield gen_replace_case(rng, tier, touch=True)
    for bad in ("noninit", "unknown", "through"):
        for _ in range(200 if q else 600):
            yield gen_replace_case(rng, tier, bad=bad)
    for _ in range(400 if q else 1200):
        yield gen_malformed_case(rng, tier)
    for _ in range(100 if q else 300):
        yield gen_replace_case(rng, tier, reserved=True)
    for _ in range(1200 if q else 5000):
        yield gen_subgroups_case(rng, tier)
    for _ in range(200 if q else 600):
        c = gen_replace_case(rng, tier)["case"]
        ok = [e for e in c["edits"] if e["kind"] == "ok"]
        if ok:
            e = rng.choice(ok)
            yield {"op": "replace.ref", "case": {"classes": c["classes"], "obj": c["obj"], "path": e["path"], "v": e["v"]}}


# ------------------------------------------------------------------------------------------------
# real code


def build_classes(classes):
    from simple_parsing import subgroups

    real: dict[str, type] = {}

    def ann(f):
        k = f["kind"]
        if k == "int":
            return int
        if k == "str":
            return str
        if k == "bool":
            return bool
        if k == "optint":
            return Optional[int]
        if k == "list":
            return List[int]
        if k == "dict":
            return Dict[str, int]
        cs = [real[n] for n in f["cls"]]
        if k == "dc":
            return cs[0]
        if k == "opt":
            return Optional[cs[0]]
        u = cs[0]
        for c in cs[1:]:
            u = Union[u, c]
        return u

    for c in classes:
        specs = []
        for f in c["fields"]:
            kw = {} if f["init"] else {"init": False}
            dv = f["default"]
            if f["kind"] == "sg":
                alts = {k: build_alt(a, real) for k, a in f["alts"].items()}
                first = next(iter(f["alts"].values()))
                fld = subgroups(alts, default_factory=real[first["type"]])
            elif f.get("factory"):
                fld = dataclasses.field(default_factory=(lambda dv=dv: build_value(dv, real)), **kw)
            else:
                fld = dataclasses.field(default=build_value(dv, real), **kw)
            specs.append((f["name"], ann(f), fld))
        real[c["name"]] = dataclasses.make_dataclass(c["name"], specs, frozen=c["frozen"])
    return real


def build_alt(a, real):
    """a subgroup choice as the user would write it (helpers/subgroups.py allows all four kinds)"""
    import functools

    if "type" in a:
        return real[a["type"]]
    if "inst" in a:
        return build_value(a["inst"], real)
    cls = real[alt_cls(a)]
    kw = {n: build_value(v, real) for n, v in a["kw"]}
    if "partial" in a:
        return functools.partial(cls, **kw)

    def factory():
        return cls(**kw)

    factory.__name__ = factory.__qualname__ = "make_" + cls.__name__
    factory.__annotations__["return"] = cls
    return factory


def build_value(v, real):
    t = v["t"]
    if t == "int":
        return int(v["v"])
    if t in ("str", "bool"):
        return v["v"]
    if t == "none":
        return None
    if t == "list":
        return [build_value(x, real) for x in v["v"]]
    if t == "dict":
        d = {build_value(k, real): build_value(x, real) for k, x in v["v"]}
        if v.get("sub") == "ordered":
            import collections

            return collections.OrderedDict(d)
        if v.get("sub") == "default":
            import collections

            return collections.defaultdict(dict, d)
        return d
    if t == "type":
        return real[v["cls"]]
    if t == "inst":
        cls = real[v["cls"]]
        init = {f.name for f in dataclasses.fields(cls) if f.init}
        o = cls(**{n: build_value(x, real) for n, x in v["v"] if n in init})
        for n, x in v["v"]:
            if n not in init:
                bx = build_value(x, real)
                if getattr(o, n) != bx:
                    object.__setattr__(o, n, bx)
        return o
    raise ValueError(t)


def outcome(fn):
    try:
        return {"o": "ok", "value": fn()}
    except BaseException as e:  # noqa: BLE001 - exceptions of the code under test are observations
        return {"o": "raise", "exc": type(e).__name__, "msg": str(e)[:200]}


TOUCH = object()


def ref_apply(obj, edits):
    """dataclasses.replace applied level by level (the reference the property names)."""
    kwargs = {}
    heads = []
    for p, _ in edits:
        if p[0] not in heads:
            heads.append(p[0])
    for h in heads:
        sub = [(p[1:], v) for p, v in edits if p[0] == h]
        if any(len(p) == 0 for p, _ in sub):
            # TOUCH = empty nested change set: the reference is dataclasses.replace(member) with no changes
            kwargs[h] = dataclasses.replace(getattr(obj, h)) if sub[0][1] is TOUCH else sub[0][1]
        else:
            kwargs[h] = ref_apply(getattr(obj, h), sub)
    return dataclasses.replace(obj, **kwargs)


def _slim(a, mainv=None):
    """observations are kept small: a value equal to the one it is compared with is recorded as `same: True`"""
    ru = a.get("reuse")
    if ru is not None and ru["o"] == "ok" and a["o"] == "ok" and ru["v"] == a["v"]:
        a["reuse"] = {"o": "ok", "same": True}
    if mainv is not None and a["o"] == "ok" and a["v"] == mainv:
        del a["v"]
        a["same"] = True
    return a


def _val(a, mainv):
    return mainv if a.get("same") else a.get("v")


def impl(case):
    op, c = case["op"], case["case"]
    if op == "replace.unflatten":
        from simple_parsing.utils import unflatten_split

        r = outcome(lambda: unflatten_split(build_value(c["ch"], {})))
        return {"o": "ok", "v": sp.cv(r["value"])} if r["o"] == "ok" else {"o": "raise", "exc": r["exc"]}
    if op == "replace.unflatten_sel":
        from simple_parsing.replace import _unflatten_selection_dict

        r = outcome(lambda: _unflatten_selection_dict(build_value(c["sel"], {}), KW, recursive=False))
        return {"o": "ok", "v": sp.cv(r["value"])} if r["o"] == "ok" else {"o": "raise", "exc": r["exc"]}
    real = build_classes(c["classes"])
    for cl in c["classes"]:     # harness self-check: the spec's default instance is what cls() builds
        assert sp.cv(real[cl["name"]]()) == default_inst(c["classes"], cl["name"]), cl["name"]
    obj = build_value(c["obj"], real)
    before = sp.cv(obj)
    assert before == c["obj"], "instance builder disagrees with the case"
    keep = copy.deepcopy(obj)
    if op == "replace.ref":
        r = outcome(lambda: ref_apply(obj, [(c["path"], build_value(c["v"], real))]))
        return {"o": "ok", "v": sp.cv(r["value"])} if r["o"] == "ok" else {"o": "raise"}
    if op == "replace.e2e":
        from simple_parsing import replace

        def call(cd, kw):
            cdv = None if cd is None else build_value(cd, real)
            kwv = build_value(kw, real)
            arg_before = None if cdv is None else sp.cv(cdv)
            r = outcome(lambda: replace(obj, cdv, **kwv) if cd is not None else replace(obj, **kwv))
            extra = {}
            if cdv is not None:
                # the caller's dict after the call, and the SAME dict object applied a second time
                extra["arg_unchanged"] = sp.cv(cdv) == arg_before
                r2 = outcome(lambda: replace(obj, cdv, **kwv))
                extra["reuse"] = ({"o": "ok", "v": sp.cv(r2["value"])} if r2["o"] == "ok"
                                  else {"o": "raise", "exc": r2["exc"]})
            if r["o"] == "ok":
                v = r["value"]
                return dict({"o": "ok", "v": sp.cv(v), "same_type": type(v) is type(obj), "is_new": v is not obj,
                             "eq_obj": bool(v == obj)}, **extra), v
            return dict({"o": "raise", "exc": r["exc"]}, **extra), None

        res, val = call(c["cd"], c["kw"])
        _slim(res)
        after = sp.cv(obj)
        obs = {"out": res, "before": before, "unchanged": bool(obj == keep)}
        if after != before:
            obs["after"] = after
        edits = c.get("edits") or []
        if c["stream"] == "edits" and all(e["kind"] in ("ok", "touch") for e in edits):
            pe = [(e["path"], e["v"]) for e in edits]
            alts = {}
            import random

            r0 = random.Random(0)
            for name, (cd, kw) in {
                "dotted": (render(r0, pe, "dotted"), D([])),
                "nested": (render(r0, pe, "nested"), D([])),
                "kw": (None, render(r0, pe, "nested")),
                "dotted_rev": (D(ditems(render(r0, pe, "dotted"))[::-1]), D([])),
                "mixed_shuffled": (render(random.Random(len(pe) + 17), pe, "mixed"), D([])),
            }.items():
                if name == "kw" and any(k in RESERVED for k, _ in ditems(kw)):
                    continue
                a, aval = call(cd, kw)
                alts[name] = _slim(a, res.get("v"))
                if val is not None and aval is not None:
                    alts[name]["py_eq"] = bool(aval == val)
            obs["alts"] = alts
            rr = outcome(lambda: ref_apply(obj, [(e["path"], TOUCH if e["kind"] == "touch" else build_value(e["v"], real)) for e in edits]))
            obs["ref"] = (_slim({"o": "ok", "v": sp.cv(rr["value"]), "py_eq": bool(val is not None and rr["value"] == val)}, res.get("v"))
                          if rr["o"] == "ok" else {"o": "raise", "exc": rr["exc"]})
            after = sp.cv(obj)
            if after != before:
                obs["after"] = after
            obs["unchanged"] = bool(obj == keep)
        return obs
    if op == "replace.subgroups":
        from simple_parsing.replace import replace_subgroups

        sel = None if c["sel"] is None else build_value(c["sel"], real)
        sel_before = None if sel is None else sp.cv(sel)
        r = outcome(lambda: replace_subgroups(obj, sel))
        if r["o"] == "ok":
            v = r["value"]
            out = {"o": "ok", "v": sp.cv(v), "same_type": type(v) is type(obj), "is_same": v is obj}
        else:
            out = {"o": "raise", "exc": r["exc"]}
        if sel is not None:
            out["arg_unchanged"] = sp.cv(sel) == sel_before
            r2 = outcome(lambda: replace_subgroups(obj, sel))       # the SAME dict object applied again
            out["reuse"] = {"o": "ok", "v": sp.cv(r2["value"])} if r2["o"] == "ok" else {"o": "raise", "exc": r2["exc"]}
            _slim(out)
        obs = {"out": out, "before": before, "unchanged": bool(obj == keep)}
        after = sp.cv(obj)
        if after != before:
            obs["after"] = after
        return obs
    raise ValueError(op)


# ------------------------------------------------------------------------------------------------
# model side


def annotate(v, classes):
    t = v["t"]
    if t == "list":
        return {"t": "list", "v": [annotate(x, classes) for x in v["v"]]}
    if t == "dict":
        return {"t": "dict", "v": [[k, annotate(x, classes)] for k, x in v["v"]]}
    if t == "type":
        return {"t": "type", "cls": v["cls"], "mk": annotate(default_inst(classes, v["cls"]), classes)}
    if t == "inst":
        c = cls_by_name(classes)[v["cls"]]
        fs = []
        for (n, x), f in zip(v["v"], c["fields"]):
            fs.append({"n": n, "init": f["init"], "v": annotate(x, classes),
                       "d": NONE if f["init"] else annotate(f["default"], classes)})
        return {"t": "inst", "cls": v["cls"], "fs": fs}
    return v


def sg_table(classes):
    tbl = []
    for c in classes:
        for f in c["fields"]:
            k = f["kind"]
            sg = None
            if k == "sg":
                sg = D([(key, annotate(alt_member(classes, a), classes)) for key, a in f["alts"].items()])
            tbl.append({"cls": c["name"], "f": f["name"], "hasDc": k in ("dc", "opt", "union", "sg"),
                        "isOpt": k in ("opt", "optint"), "sg": sg,
                        "fac": annotate(f["default"], classes) if f.get("factory") else None})
    return tbl


def model_case(case, obs):
    op, c = case["op"], case["case"]
    if op == "replace.e2e":
        cl = c["classes"]
        return {"obj": annotate(c["obj"], cl), "cd": None if c["cd"] is None else annotate(c["cd"], cl),
                "kw": annotate(c["kw"], cl)}
    if op == "replace.ref":
        cl = c["classes"]
        return {"obj": annotate(c["obj"], cl), "path": c["path"], "v": annotate(c["v"], cl)}
    if op == "replace.subgroups":
        cl = c["classes"]
        return {"obj": annotate(c["obj"], cl), "sel": None if c["sel"] is None else annotate(c["sel"], cl),
                "tbl": sg_table(cl), "fuel": 12}
    return c


def project(case, obs):
    op = case["op"]
    if op in ("replace.e2e", "replace.subgroups"):
        o = obs["out"]
        return {"o": "ok", "v": o["v"]} if o["o"] == "ok" else {"o": "raise", "exc": o["exc"]}
    return obs


def model_unmodelled(mo):
    return isinstance(mo, dict) and mo.get("o") == "unmodelled"


# ------------------------------------------------------------------------------------------------
# the property itself, on real observations (independent of the model)


def reset_noninit(tree, classes):
    """a level rebuilt by dataclasses.replace: its init=False fields are re-created from the class default"""
    fl = {f["name"]: f for f in cls_by_name(classes)[tree["cls"]]["fields"]}
    return {"t": "inst", "cls": tree["cls"], "v": [[n, x if fl[n]["init"] else fl[n]["default"]] for n, x in tree["v"]]}


def spec_apply(tree, path, v, classes, touch=False):
    """expected canonical tree after setting the leaf at `path` (through dataclass instances) to v; with `touch` the
    instance at `path` is only rebuilt (empty nested change set)"""
    if not path:
        if touch:
            return reset_noninit(tree, classes) if tree.get("t") == "inst" else tree
        return v
    assert tree["t"] == "inst"
    out = []
    hit = False
    for n, x in tree["v"]:
        if n == path[0]:
            hit = True
            out.append([n, spec_apply(x, path[1:], v, classes, touch)])
        else:
            out.append([n, x])
    assert hit
    return reset_noninit({"t": "inst", "cls": tree["cls"], "v": out}, classes)


def edit_status(obj_tree, classes, e):
    """what the property says about one addressed path: ok | noninit | unknown | through"""
    cur = obj_tree
    p = e["path"]
    for i, k in enumerate(p):
        if cur.get("t") != "inst":
            return "through"
        f = field_of(classes, cur["cls"], k)
        if f is None:
            return "unknown"
        if i == len(p) - 1:
            return "ok" if f["init"] else "noninit"
        if not f["init"]:
            return "noninit"
        cur = tree_get(cur, [k])
    return "ok"


def oracle(case, obs):
    op, c = case["op"], case["case"]
    fails = []
    if op in ("replace.unflatten", "replace.unflatten_sel", "replace.ref"):
        return fails
    if not obs["unchanged"] or "after" in obs:
        fails.append({"clause": "input-unchanged", "detail": "obj differs from its deep copy after the call"})
    out = obs["out"]
    classes = c["classes"]
    if op == "replace.e2e":
        if out["o"] == "ok":
            if not out["same_type"]:
                fails.append({"clause": "same-type", "detail": "result is not of type(obj)"})
            if not out["is_new"]:
                fails.append({"clause": "new-object", "detail": "replace returned obj itself"})
        empty = (c["cd"] is None or not c["cd"]["v"]) and not c["kw"]["v"]
        if empty:
            exp0 = reset_noninit(c["obj"], classes)      # == obj unless an init=False field was set after construction
            if out["o"] != "ok" or out["v"] != exp0 or (exp0 == c["obj"] and not out["eq_obj"]):
                fails.append({"clause": "empty", "detail": f"empty change set gave {out}"})
            return fails
        if c["stream"] != "edits":
            return fails
        # the change set is an input too: replace must not consume / alter the caller's dict, and the same dict
        # applied again must do the same thing (one form per subtree: the malformed streams are not judged here)
        if out.get("arg_unchanged") is False:
            fails.append({"clause": "changes-arg-unchanged", "detail": "the positional change-set dict was modified by replace()"})
        ru = out.get("reuse")
        if ru is not None and (ru["o"] != out["o"] or (ru["o"] == "ok" and _val(ru, out["v"]) != out["v"])):
            fails.append({"clause": "reuse", "detail": f"re-using the same change-set dict gives {canon(ru)[:300]} instead of the first result"})
        edits = c["edits"]
        status = [edit_status(c["obj"], classes, e) for e in edits]
        if any(s != "ok" for s in status):
            if out["o"] != "raise":
                kinds = sorted({s for s in status if s != "ok"})
                clause = "through-noninst" if kinds == ["through"] else "bad-change-raises"
                fails.append({"clause": clause, "bad": kinds,
                              "detail": f"change set addresses {kinds} target(s) but replace returned normally"})
            return fails
        if out["o"] != "ok":
            fails.append({"clause": "outcome", "detail": f"valid change set raised {out.get('exc')}"})
            return fails
        exp = reset_noninit(c["obj"], classes)
        for e in edits:                    # an empty nested change set only rebuilds the instance at its path
            exp = spec_apply(exp, e["path"], e["v"], classes, touch=e["kind"] == "touch")
        if out["v"] != exp:
            bad_addr = [e["path"] for e in edits if tree_get(out["v"], e["path"]) != tree_get(exp, e["path"])]
            fails.append({"clause": "addressed" if bad_addr else "frame",
                          "detail": f"addressed leaves wrong: {bad_addr}" if bad_addr else "a leaf that no change addresses differs",
                          "got": out["v"], "exp": exp})
        for name, a in (obs.get("alts") or {}).items():
            aru = a.get("reuse")
            av = _val(a, out["v"])
            if a.get("arg_unchanged") is False or (aru is not None and (aru["o"] != a["o"] or (aru["o"] == "ok" and _val(aru, av) != av))):
                fails.append({"clause": "reuse", "form": name,
                              "detail": f"{name} form: the change-set dict is consumed / gives {canon(a.get('reuse'))[:200]} when applied again"})
            if a["o"] != "ok" or av != out["v"] or not a.get("py_eq", False):
                fails.append({"clause": "forms", "form": name,
                              "detail": f"{name} form of the same edits gives {canon(a)[:300]} instead of the same result"})
        ref = obs.get("ref")
        if ref is not None and (ref["o"] != "ok" or _val(ref, out["v"]) != out["v"] or not ref["py_eq"]):
            fails.append({"clause": "reference", "detail": f"level-by-level dataclasses.replace gives {canon(ref)[:300]}"})
        return fails
    if op == "replace.subgroups":
        if out["o"] == "ok" and not out["same_type"]:
            fails.append({"clause": "same-type", "detail": "result is not of type(obj)"})
        if c["sel"] is None or not c["sel"]["v"]:
            if out["o"] != "ok" or out["v"] != obs["before"]:
                fails.append({"clause": "sg-empty", "detail": f"empty selection gave {out}"})
            return fails
        # the selection dict is an input too: it must not be consumed, and applying it again must do the same thing
        if out.get("arg_unchanged") is False:
            fails.append({"clause": "sg-arg-unchanged", "detail": "the selection dict was modified by replace_subgroups()"})
        ru = out.get("reuse")
        if ru is not None and (ru["o"] != out["o"] or (ru["o"] == "ok" and _val(ru, out["v"]) != out["v"])):
            fails.append({"clause": "sg-reuse", "detail": f"re-using the same selection dict gives {canon(ru)[:200]} instead of the first result"})
        noninit = any(not f["init"] for cl in classes for f in cl["fields"])
        unknown = [s for s in c["sels"] if s.get("unknown")]
        if not c["valid"] or noninit or any(s["member"] is None and not s.get("unknown") for s in c["sels"]):
            return fails
        exp = expected_sel_tree(c)
        if exp is None:
            return fails              # selection below a member that is not a dataclass here: not judged
        if unknown:
            if out["o"] == "ok":
                fails.append({"clause": "sg-unknown-ignored", "paths": [s["path"] for s in unknown],
                              "detail": f"selection keys {[s['path'] for s in unknown]} name no field but replace_subgroups returned normally"})
            return fails
        if out["o"] != "ok":
            fails.append({"clause": "sg-outcome", "exc": out.get("exc"), "detail": f"valid selection raised {out.get('exc')}"})
            return fails
        if out["v"] != exp:
            diff = diff_paths(exp, out["v"])
            under = [p for p in diff if any(is_prefix(s["path"], p) for s in c["sels"])]
            other = [p for p in diff if p not in under]
            if under:
                fails.append({"clause": "sg-selected", "detail": f"selected members wrong at {under[:4]}", "diff": under[:8]})
            if other:
                fails.append({"clause": "sg-frame", "detail": f"members that no selection addresses differ at {other[:4]}",
                              "diff": other})
    return fails


def expected_sel_tree(c):
    """canonical tree the property demands for the (known-field) selections of a case; None = not judged"""
    exp = c["obj"]
    for s in sorted((s for s in c["sels"] if not s.get("unknown")), key=lambda s: len(s["path"])):
        par = tree_get(exp, s["path"][:-1])
        if par is None or par.get("t") != "inst" or tree_get(exp, s["path"]) is None:
            return None
        exp = spec_apply(exp, s["path"], s["member"], c["classes"])
    return exp


def through_prefixes(c):
    """fields that are only passed through: a selection addresses something below them, none addresses them"""
    known = [s for s in c["sels"] if not s.get("unknown")]
    out = []
    for s in known:
        for i in range(1, len(s["path"])):
            q = s["path"][:i]
            if not any(t["path"] == q for t in known) and q not in out:
                out.append(q)
    return out


def diff_paths(a, b, pre=()):
    if a.get("t") == "inst" and b.get("t") == "inst" and a["cls"] == b["cls"]:
        out = []
        for (n, x), (_, y) in zip(a["v"], b["v"]):
            out += diff_paths(x, y, pre + (n,))
        return out
    return [] if a == b else [list(pre)]


# ------------------------------------------------------------------------------------------------
# open findings (narrow signatures)


def _sig_d19(case, obs, fail):
    """every bad target is a dotted path through a value that is not a dataclass instance; replace returned
    normally and stored a dict at the place where the path leaves the instance tree"""
    if case["op"] != "replace.e2e" or fail.get("clause") != "through-noninst" or obs["out"]["o"] != "ok":
        return False
    c = case["case"]
    for e in c["edits"]:
        if edit_status(c["obj"], c["classes"], e) == "through":
            p = e["path"]
            i = next(i for i in range(len(p) + 1) if (tree_get(c["obj"], p[:i]) or {}).get("t") != "inst")
            got = tree_get(obs["out"]["v"], p[:i])
            if got is None or got.get("t") != "dict":
                return False
    return True


def _has_nested_key(v):
    if v is None or v.get("t") != "dict":
        return False
    return any(x.get("t") == "dict" and (any(k == KW for k, _ in ditems(x)) or _has_nested_key(x)) for _, x in ditems(v))


FINDINGS = {
    "C18-D19-dotted-through-noninst": _sig_d19,
}


# ------------------------------------------------------------------------------------------------


def nontrivial(case, obs):
    op, c = case["op"], case["case"]
    if op == "replace.e2e":
        ed = c.get("edits") or []
        return len(ed) >= 2 or any(len(e["path"]) >= 2 for e in ed) or c["stream"] != "edits"
    if op == "replace.subgroups":
        return obs["out"]["o"] != "ok" or obs["out"]["v"] != obs["before"]
    if op == "replace.unflatten":
        return any("." in k for k, _ in ditems(c["ch"]))
    if op == "replace.unflatten_sel":
        return any("." in k for k, _ in ditems(c["sel"]))
    return True


def reset_noninit_deep(v, classes):
    if v.get("t") != "inst":
        return v
    r = reset_noninit(v, classes)
    return {"t": "inst", "cls": r["cls"], "v": [[n, reset_noninit_deep(x, classes)] for n, x in r["v"]]}


def _subkinds(v):
    out = set()
    if isinstance(v, dict) and v.get("t") == "dict":
        if v.get("sub"):
            out.add(v["sub"])
        for _, x in ditems(v):
            out |= _subkinds(x)
    return out


def depth_of(v):
    if v.get("t") != "inst":
        return 0
    return 1 + max([depth_of(x) for _, x in v["v"]] or [0])


def tags(case, obs):
    op, c = case["op"], case["case"]
    t = [f"op:{op}"]
    if op == "replace.e2e":
        t.append("stream:" + c["stream"])
        t.append("form:" + ("dict" if c["cd"] is not None else "kw"))
        t.append(f"depth:{depth_of(c['obj'])}")
        t.append(f"edits:{len(c.get('edits') or [])}")
        for e in c.get("edits") or []:
            t.append("edit:" + e["kind"])
        o = obs["out"]
        t.append("out:" + (o["o"] if o["o"] == "ok" else o["exc"]))
        for e in c.get("edits") or []:
            if e["kind"] == "touch":
                t.append(f"touch-depth:{len(e['path'])}")
            if e["kind"] == "ok":
                t.append(f"edit-depth:{len(e['path'])}")
                if tree_get(c["obj"], e["path"]) == e["v"]:
                    t.append("edit:no-op")
                cur = c["obj"]
                for k in e["path"][:-1]:
                    t.append("via:" + field_of(c["classes"], cur["cls"], k)["kind"])
                    cur = tree_get(cur, [k])
        if reset_noninit_deep(c["obj"], c["classes"]) != c["obj"]:
            t.append("has:noninit-off-default")
        if any(cl["frozen"] for cl in c["classes"]):
            t.append("has:frozen")
        ch = c["cd"] or c["kw"]
        if any("." in k for k, _ in ditems(ch)):
            t.append("has:dotted")
        if any(v.get("t") == "dict" for _, v in ditems(ch)):
            t.append("has:nested")
        for kind in _subkinds(ch):
            t.append("mapping:" + kind)
    elif op == "replace.subgroups":
        o = obs["out"]
        t.append("out:" + (o["o"] if o["o"] == "ok" else o["exc"]))
        t.append("valid:%s" % c["valid"])
        t.append(f"sels:{len(c['sels'])}")
        t.append(f"sel-depth:{max([len(s['path']) for s in c['sels']] or [0])}")
        for s_ in c["sels"]:
            t.append("selv:" + ("unknown" if s_.get("unknown") else s_["v"]["t"]))
        for q in through_prefixes(c):
            par = tree_get(c["obj"], q[:-1])
            if par is not None and par.get("t") == "inst" and field_of(c["classes"], par["cls"], q[-1]):
                t.append("pass-through:" + field_of(c["classes"], par["cls"], q[-1])["kind"])
        if c["sel"] is not None:
            t.append("sel-form:" + ("nested" if any(x.get("t") == "dict" for _, x in ditems(c["sel"])) else "flat"))
            if _has_nested_key(c["sel"]):
                t.append("sel-form:nested-with-key")
            for kind in _subkinds(c["sel"]):
                t.append("mapping:" + kind)
        keys = [k for k, _ in ditems(c["sel"])] if c["sel"] else []
        for i_, k in enumerate(keys):
            if any(k2.startswith(k + ".") for k2 in keys[:i_]):
                t.append("order:parent-after-child")
            if any(k2.startswith(k + ".") for k2 in keys[i_ + 1:]):
                t.append("order:parent-before-child")
    elif op in ("replace.unflatten", "replace.unflatten_sel"):
        t.append("out:" + (obs["o"] if obs["o"] == "ok" else obs["exc"]))
    return t


def shrink(case):
    op, c = case["op"], case["case"]
    if op == "replace.e2e" and c.get("stream") == "edits":
        import random

        edits = c["edits"]
        for i in range(len(edits)):
            ne = edits[:i] + edits[i + 1:]
            ch = render(random.Random(0), [(e["path"], e["v"]) for e in ne], "dotted")
            yield {"op": op, "case": dict(c, edits=ne, cd=ch if c["cd"] is not None else None,
                                          kw=ch if c["cd"] is None else D([]))}
        for mode in (("dotted",) if any(e["kind"] == "through" for e in edits) else ("dotted", "nested")):
            ch = render(random.Random(0), [(e["path"], e["v"]) for e in edits], mode)
            cand = dict(c, cd=ch if c["cd"] is not None else None, kw=ch if c["cd"] is None else D([]))
            if canon(cand) != canon(c):
                yield {"op": op, "case": cand}
    if op == "replace.subgroups":
        sels = c["sels"]
        for i in range(len(sels)):
            ns = [s for s in sels if not is_prefix(sels[i]["path"], s["path"])]
            items = []
            for s in ns:
                items.append((".".join(s["path"]), s["v"]))
            yield {"op": op, "case": dict(c, sels=ns, sel=D(items))}
            yield {"op": op, "case": dict(c, sels=ns, sel=D(items[::-1]))}
        flat = [(".".join(s["path"]), s["v"]) for s in sels]
        for cand in (flat, flat[::-1]):
            if canon(D(cand)) != canon(c["sel"]):
                yield {"op": op, "case": dict(c, sel=D(cand))}


MANIFEST = {
    "text": ("Proof, partial (one named gap: D19 for replace). PROVED over a branch-by-branch model of replace.py "
             "(at repairs abc6969 / 452ee05 / bba27c4) and utils.unflatten*: a successful replace() keeps the class and the "
             "field skeleton; every addressed leaf holds the new value at any depth, for change sets with several edits in any "
             "mixture of dotted / nested forms (one form per top-level field; path must exist in obj: D19 exclusion, witness "
             "given); every init leaf no change addresses is untouched (frame); an empty change set is the identity "
             "(init=False fields at their default); a valid single edit DOES return, and returns r iff dataclasses.replace "
             "level by level gives r; the dotted/nested choice per edit does not change the outcome for change sets with "
             "several edits (fixed entry order) and positional-dict = keyword form; a change to an init=False or unknown "
             "field at ANY depth never returns normally; nested fields may be named obj / changes_dict. replace_subgroups: "
             "a top-level selection by key, by dataclass type or by instance succeeds and equals dataclasses.replace of "
             "that member; unselected members are untouched (frame); below a dataclass-valued parent of ANY kind (plain, "
             "Optional, Union, subgroups) a depth-2 selection succeeds, is the level-by-level dataclasses.replace, the "
             "selected member is the alternative and every sibling is kept; nested __key__ form = flat form and the order "
             "of a parent/child entry pair is irrelevant; a selection key that names no field never returns normally. "
             "SAMPLED only (correspondence + oracle, no theorem): obj unchanged / result is a new object / the change-set "
             "and selection dicts are not consumed and can be reused (the model is pure: argument mutation cannot be "
             "expressed in it); key ORDER of multi-edit change sets and multi-edit reference; frozen classes; selections at "
             "depth 3, several selections at once, partial / factory-function choices; the exception CLASS of rejected "
             "changes (theorems say 'never returns'); init=False fields off their default. Outside the quantifier and not "
             "judged: mixed forms inside one subtree (replace(t, {'m': d, 'm.w': 2}) writes into the caller's d; "
             "{'m.v': 2, 'm': M(5)} drops the first edit). The model is tied to the code by five correspondence ops; the "
             "property's own statement is evaluated on every real observation."),
    "note": ("Trusted: Lean kernel + propext/Classical.choice/Quot.sound; stdlib dataclasses; the harness. Modelled not "
             "verified: replace.py:37-232, utils.py:907-951. Not modelled: aliasing between user-supplied change dicts, "
             "__post_init__, InitVar, the top-level keyword form with names obj / changes_dict (not expressible as a call; reported as unmodelled)."),
    "technique": "Lean 4 structural induction over instance trees + differential correspondence against replace()/replace_subgroups()",
    "design_ref": "DESIGN.md section 5, C18",
}
