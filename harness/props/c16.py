"""C16 — --help is complete, accurate, reproducible and has no side effects.

Every end-to-end case is a dataclass *module rendered as real source* (so comments / docstrings are found by
`inspect.getsource`), a parser configuration, registrations with optional default instances, and config files.  The
real code runs in FRESH INTERPRETERS, one per (case, PYTHONHASHSEED): `/venv/bin/python -s -P -c <child>` with the
spec as JSON on stdin and an environment that contains nothing but PATH, COLUMNS, PYTHONHASHSEED (`-I` cannot be
used: it implies `-E`, which makes CPython ignore PYTHONHASHSEED).  Children are started from a thread pool as soon
as `gen` yields a case; `impl` collects the results (hence SERIAL = True: vcheck itself stays single-process).
"""
from __future__ import annotations

import atexit
import concurrent.futures as cf
import hashlib
import io
import json
import os
import re
import shutil
import subprocess
import sys
import tempfile

PID = "C16"
RULE = ("a case is a module of 1-4 dataclasses rendered as source (leaf fields of type int/str/float/bool/List[int]/"
        "Optional[...]/Enum over the name alphabet {x,y,a,b,a_b,n,lr,lr_decay,a_b_c,w_x,...}, aliases incl. pairs of equal "
        "length and underscore aliases, cmd=False / init=False fields, cmd=False nested MEMBERS, help from one (12%: two) of "
        "help= / docstring below / comment above / inline comment, or none; nested members up to depth 4 incl. the same class "
        "twice and member factories with keyword overrides; rarely a field or alias spelled h/help or a bool field next to a "
        "field spelled like its negative flag) registered at 1-3 destinations (same class at several destinations, user "
        "prefixes) x conflict resolution AUTO/EXPLICIT/NONE x 3 dash variants x 3 generation modes x 2 nested modes x default "
        "sources (definition, member factory, default instance, 0-2 config files given to the constructor or on the command "
        "line). Each case runs in one fresh interpreter per PYTHONHASHSEED in {0,1,2,3} (thorough: 0..15 and 'random'; "
        "DESIGN's 0..31 was halved to stay inside the time budget). The first interpreter also: parses every listed option "
        "string, every spelling of every hidden field, the empty command line (whose values the shown defaults are compared "
        "with), and parses after print_help / format_help / --help / <config argv> --help on the same parser; for cases "
        "without config files it produces the help text repeatedly on ONE parser object (4 sequences, 10 texts). Systematic "
        "slices come first: one class with a_b / equal-length aliases x all dash/generation modes; option-clash shapes "
        "(h, help, alias -h, flag/noflag, x/nox). Model-free streams: every 12th random case is ALWAYS_MERGE with one class at "
        "2-3 destinations (oracle only); 7 subgroup cases (root / nested member / cmd=False field in the alternative / "
        "non-default default key / config file for a sibling / BOTH+DASH spelling; default choice under every seed and "
        "`--opt <key> --help` under every seed). In-process unit cases compare the help column of one real field with the "
        "model. Non-trivial = >= 2 exposed fields and at least one of: hidden field, equal-length option strings, default from "
        "instance/file/member factory; distinct by canonical JSON.")
ASSUMPTIONS = [
    "argparse.HelpFormatter layout (not modelled): the real text is parsed back into groups/entries with COLUMNS=200; "
    "help texts and defaults are single-spaced printable ASCII without '%' (argparse %-expands and re-wraps help)",
    "str(value) of a default is computed by the harness (Python's str on int/float/str/bool/list, member name for enums)",
    "dataclass construction semantics (which value a default instance holds for a field it was not given)",
    "PYTHONHASHSEED is the only source of run-to-run variation of CPython's str hashing (each child gets a fixed or a "
    "'random' seed); the text of a case is compared across children, never against a stored golden text",
    "hidden-field spellings are generated so that they are not abbreviations of exposed options (argparse allow_abbrev)",
    "config files never mention a cmd=False field or member (the real code then raises RuntimeError '... are not fields of'; "
    "the model's fileDefault would silently ignore the key) and never say null",
    "ALWAYS_MERGE and subgroups are outside the model (theorems with mode = always_merge only speak about the no-clash case): "
    "both are covered by oracle-only cases",
]
TRUSTED = ["stdlib argparse (HelpFormatter, option lookup)", "CPython inspect.getsource / importlib in the child interpreter",
           "harness expansion of the class list into per-destination trees and of nested default dicts into dotted paths"]
EXHAUSTIVE = {"quick": False, "thorough": False}
MANIFEST = {
    "text": ("Proof (partial) over a model of what --help lists: one entry per exposed field of every destination, in "
             "wrapper pre-order, each with its option strings (bool: plus negative flags), metavar, effective default (config "
             "files > default instance > member factory > definition) and help text. PROVED for the model, all forests / "
             "configurations / sources: entries are in position-wise bijection with the exposed fields and list exactly their "
             "option strings (c16_complete); no listed string - negative flags included - belongs to two entries or is "
             "-h/--help (c16_one_entry); outside ALWAYS_MERGE the help is produced or ConflictResolutionError is raised unless "
             "an option string is already taken (c16_produced_partial; the unrestricted statement is refuted by a field h and "
             "by flag/noflag - open findings); cmd=False / init=False fields and members (whole subtree) change nothing "
             "(c16_hidden, c16_hidden_no_entry); the order of an entry's option strings is the stable length sort of the "
             "generation order (c16_perm_invariant, c16_order_deterministic; the old set-based order is kept refuted); "
             "print_help() and the --help flag leave later parses alone unless only one of the two command lines names a "
             "config file (witnesses + partials; open finding) and can be repeated (c16_rehelp). These are laws of the model: "
             "that the code skips hidden fields first, consults no hash-ordered container and formats without touching the "
             "actions is SAMPLED by the correspondence check (fresh interpreters, 4/17 hash seeds, repeated help on one "
             "parser). 'Accurate' is sampled twice: against the declared priority chain and, model-free, against what the real "
             "empty parse returns."),
    "note": ("Trusted: Lean kernel + standard axioms; argparse formatter/lookup; the harness (source rendering, help-text "
             "parser, tree expansion). Modelled not verified: field_wrapper.py:231-258,565-659,711-790,888-905, "
             "dataclass_wrapper.py:72-214,288-321, parsing.py:281-406,540-580, help_formatter.py, custom_actions.py:96-126 "
             "(via Model/BoolFlag), conflicts.py (via Model/Conflicts), argparse's add_argument conflict check. ALWAYS_MERGE, "
             "subgroups (oracle-only cases), positional fields, group descriptions and desc_from_cls_docstring are outside "
             "the model; the effective-default chain is not tied to Model/Layers/Defaults by a Lean lemma (sampled)."),
    "technique": "Lean 4 theorems over an entries model + fresh-interpreter differential check across hash seeds",
    "design_ref": "DESIGN.md section 5, C16",
}
SERIAL = True

VERIF_REPO = os.environ.get("VERIF_REPO", "/repo")
PY = "/venv/bin/python"
COLUMNS = "200"

# ------------------------------------------------------------------------------------------------
# the child: runs in a fresh interpreter, spec on stdin, JSON on stdout

CHILD_SRC = r'''
import sys, json, os, io, contextlib, importlib.util, tempfile, shutil, dataclasses, enum
spec = json.load(sys.stdin)
sys.path.insert(0, spec["repo"])
import simple_parsing
from simple_parsing import ArgumentParser, ConflictResolution, DashVariant
from simple_parsing.wrappers.field_wrapper import ArgumentGenerationMode, NestedMode
assert os.path.realpath(simple_parsing.__file__).startswith(os.path.realpath(spec["repo"])), simple_parsing.__file__
real_stdout = sys.stdout
tmp = tempfile.mkdtemp(prefix="spverif.c16child.")
out = {"hashseed": os.environ.get("PYTHONHASHSEED")}

def build(extra=None):
    c = spec["cfg"]
    kw = dict(extra or {})
    ctor = [f["path"] for f in spec["files"] if f["via"] == "ctor"]
    if ctor:
        kw["config_path"] = ctor if len(ctor) > 1 else ctor[0]
    elif any(f["via"] == "argv" for f in spec["files"]):
        kw["add_config_path_arg"] = True
    p = ArgumentParser(prog="prog", conflict_resolution=ConflictResolution[c["cr"]],
                       add_option_string_dash_variants=DashVariant[c["dash"]],
                       argument_generation_mode=ArgumentGenerationMode[c["gen"]],
                       nested_mode=NestedMode[c["nest"]], **kw)
    for r in spec["regs"]:
        d = eval(r["inst"], mod.__dict__) if r.get("inst") else None
        p.add_arguments(getattr(mod, r["cls"]), dest=r["dest"], prefix=r["prefix"], default=d)
    return p

def flat(v, path, acc, sacc=None):
    if dataclasses.is_dataclass(v) and not isinstance(v, type):
        for f in dataclasses.fields(v):
            flat(getattr(v, f.name, None), path + [f.name], acc, sacc)
    else:
        acc[".".join(path)] = type(v).__name__ + ":" + (v.name if isinstance(v, enum.Enum) else repr(v))
        if sacc is not None:
            sacc[".".join(path)] = None if v is None else (v.name if isinstance(v, enum.Enum) else str(v))

def run(fn):
    o, e = io.StringIO(), io.StringIO()
    with contextlib.redirect_stdout(o), contextlib.redirect_stderr(e):
        try:
            ns = fn()
            acc, sacc = {}, {}
            for r in spec["regs"]:
                flat(getattr(ns, r["dest"], None), [r["dest"]], acc, sacc)
            res = {"o": "ok", "ns": acc, "nstr": sacc}
        except SystemExit as x:
            res = {"o": "exit", "code": x.code if isinstance(x.code, int) else (0 if x.code is None else 1)}
        except BaseException as x:
            res = {"o": "raise", "exc": type(x).__name__, "msg": str(x)[:300]}
    res["stdout"], res["stderr"] = o.getvalue(), e.getvalue()
    return res

def slim(res, keep_nstr=False):
    r = {k: v for k, v in res.items() if k not in ("stdout", "stderr") and (keep_nstr or k != "nstr")}
    if res["o"] == "exit":
        r["unrecognized"] = "unrecognized arguments" in res["stderr"]
        r["stdout_empty"] = not res["stdout"].strip()
        r["stderr_tail"] = res["stderr"][-200:]
    return r

try:
    path = os.path.join(tmp, spec["modname"] + ".py")
    with open(path, "w") as fh:
        fh.write(spec["source"])
    ms = importlib.util.spec_from_file_location(spec["modname"], path)
    mod = importlib.util.module_from_spec(ms)
    sys.modules[spec["modname"]] = mod
    ms.loader.exec_module(mod)
    cfg_argv = []
    av = [f["path"] for f in spec["files"] if f["via"] == "argv"]
    if av:
        cfg_argv = ["--config_path"] + av
    do = spec["do"]
    if "help" in do:
        out["help"] = run(lambda: build().parse_args(cfg_argv + ["--help"]))
        out["help"].pop("ns", None)
    if "table" in do:
        # the table the parser ends up with (read off the real parser after a parse attempt that applies the config files)
        holder = {}
        def first():
            holder["p"] = build()
            return holder["p"].parse_known_args(cfg_argv)[0]
        t = run(first)
        p = holder.get("p")
        table = {"o": t["o"], "exc": t.get("exc"), "msg": t.get("msg", "")[:200]}
        if t["o"] != "raise" and p is not None:
            acts = []
            for a in p._actions:
                if not a.option_strings or a.dest == "help" or a.dest == "config_path":
                    continue
                acts.append({"dest": a.dest, "opts": list(a.option_strings),
                             "default": None if a.default is None else str(a.default),
                             "help": a.help, "required": bool(a.required),
                             "neg": list(getattr(a, "negative_option_strings", []))})
            table["actions"] = acts
            table["optmap"] = {k: a.dest for k, a in p._option_string_actions.items()}
        out["table"] = table
        toks = spec["tokens"]
        if t["o"] != "raise" and ("probes" in do):
            base = []
            for a in table["actions"]:
                if a["required"] and a["dest"] in toks:
                    base += [a["opts"][0]] + toks[a["dest"]]["base"]
            b = run(lambda: build().parse_args(cfg_argv + base))
            out["baseline"] = slim(b, True)
            out["baseline_given"] = [a["dest"] for a in table["actions"] if a["required"] and a["dest"] in toks]
            def changed(res):
                if res["o"] != "ok" or b["o"] != "ok":
                    return None
                return sorted(k for k in set(res["ns"]) | set(b["ns"]) if res["ns"].get(k) != b["ns"].get(k))
            acc = []
            n_opts = sum(len(a["opts"]) for a in table["actions"])
            for a in table["actions"]:
                if a["dest"] not in toks or n_opts > spec.get("max_probe_opts", 60):
                    continue
                for o_ in a["opts"]:
                    neg = o_ in a["neg"]
                    argv = cfg_argv + base + [o_] + ([] if neg else toks[a["dest"]]["probe"])
                    r = run(lambda: build().parse_args(argv))
                    acc.append({"opt": o_, "dest": a["dest"], "neg": neg, "o": r["o"], "changed": changed(r),
                                "code": r.get("code"), "exc": r.get("exc")})
            out["accept"] = acc
            hid = []
            for sp_ in spec["hidden_argv"]:
                r = run(lambda: build().parse_args(cfg_argv + base + sp_))
                s = slim(r)
                s["argv"] = sp_
                s["changed"] = changed(r)
                s.pop("ns", None)
                hid.append(s)
            out["hidden"] = hid
            side = []
            longest = {a["dest"]: [o_ for o_ in a["opts"] if o_ not in a["neg"]][-1] for a in table["actions"]}
            for dests in spec["side_dests"]:
                argv = list(base)
                for d in dests:
                    if d in longest and d in toks:
                        argv += [longest[d]] + toks[d]["probe"]
                argv = cfg_argv + argv
                rec = {"argv": argv, "plain": slim(run(lambda: build().parse_args(argv)))}
                p1 = build()
                h1 = io.StringIO()
                p1.print_help(file=h1)
                rec["after_print_help"] = slim(run(lambda: p1.parse_args(argv)))
                p2 = build()
                p2.format_help()
                rec["after_format_help"] = slim(run(lambda: p2.parse_args(argv)))
                # the --help FLAG, caught, then the parse on the same parser: once with the flag alone and once on a
                # command line that names the same config files as the later parse
                p3 = build()
                run(lambda: p3.parse_args(["--help"]))
                rec["after_dash_help"] = slim(run(lambda: p3.parse_args(argv)))
                if cfg_argv:
                    p6 = build()
                    run(lambda: p6.parse_args(cfg_argv + ["--help"]))
                    rec["after_cfg_dash_help"] = slim(run(lambda: p6.parse_args(argv)))
                if True:
                    p4 = build()
                    run(lambda: p4.parse_args(argv))
                    p4.print_help(file=io.StringIO())
                    rec["reparse_after_print_help"] = slim(run(lambda: p4.parse_args(argv)))
                    p5 = build()
                    run(lambda: p5.parse_args(argv))
                    rec["reparse"] = slim(run(lambda: p5.parse_args(argv)))
                side.append(rec)
            out["side"] = side
            if spec.get("rehelp"):
                # the help text produced several times on ONE parser object (no config files, no subgroups)
                def txt_dash(p_):
                    r = run(lambda: p_.parse_args(["--help"]))
                    return r["stdout"] if (r["o"] == "exit" and r.get("code") == 0) else "<<%s %s %s>>" % (r["o"], r.get("code"), r.get("exc"))
                def txt_print(p_):
                    h_ = io.StringIO()
                    p_.print_help(file=h_)
                    return h_.getvalue()
                seqs = {}
                q = build(); seqs["print_help,format_help,format_help"] = [txt_print(q), q.format_help(), q.format_help()]
                q = build(); seqs["print_help,--help"] = [txt_print(q), txt_dash(q)]
                q = build(); seqs["--help,format_help"] = [txt_dash(q), q.format_help()]
                q = build(); t1 = txt_dash(q); pr = run(lambda: q.parse_args(list(base)))
                seqs["--help,parse,--help,print_help"] = [t1, txt_dash(q), txt_print(q)]
                out["rehelp"] = {"seqs": seqs, "parse": slim(pr), "plain_parse": slim(run(lambda: build().parse_args(list(base))))}
    for extra in spec.get("extra_help", []):
        out.setdefault("extra_help", []).append(run(lambda: build().parse_args(extra)))
    for extra in spec.get("extra_parse", []):
        out.setdefault("extra_parse", []).append(slim(run(lambda: build().parse_args(extra))))
finally:
    shutil.rmtree(tmp, ignore_errors=True)
real_stdout.write(json.dumps(out))
'''

# ------------------------------------------------------------------------------------------------
# values

ENUM_MEMBERS = ["RED", "BLUE", "GREEN"]
ANN = {"int": "int", "str": "str", "float": "float", "bool": "bool", "listInt": "List[int]", "optInt": "Optional[int]",
       "optStr": "Optional[str]", "optFloat": "Optional[float]", "enum": "Color"}
POOL = {
    "int": [3, 0, -2, 17, 100, 8],
    "str": ["q", "hi", "two words", "", "v1.0", "zz"],
    "float": [1.5, 0.0, -2.25, 10.0],
    "bool": [True, False],
    "listInt": [[1, 2], [], [7], [4, 5, 6]],
    "optInt": [None, 4, 0, 12],
    "optStr": [None, "s", "ab"],
    "optFloat": [None, 0.5, 2.0],
    "enum": ["RED", "BLUE", "GREEN"],
}


def py_expr(ty, v):
    if ty == "enum":
        return f"Color.{v}"
    return repr(v)


def shown(ty, v):
    """what str() prints for the value as argparse holds it (None = Python None)"""
    if v is None:
        return None
    if ty == "enum":
        return v
    return str(v)


def tokens(ty, v):
    if ty == "listInt":
        return [str(x) for x in v]
    if ty == "bool":
        return ["true" if v else "false"]
    return [str(v)]


EXTRA = {"int": [41, 42], "optInt": [41, 42], "float": [41.5, 42.5], "optFloat": [41.5, 42.5], "str": ["pv", "bv"],
         "optStr": ["pv", "bv"], "listInt": [[9], [8, 9]], "enum": [], "bool": [True, False, True, False]}


def other_values(ty, avoid_shown):
    """two command-line values of the type whose display differs from `avoid_shown` (probe, base)"""
    c = [v for v in POOL[ty] + EXTRA[ty] if v is not None and shown(ty, v) != avoid_shown and v != "" and v != []]
    if ty in ("int", "optInt", "float", "optFloat"):
        c = [v for v in c if v >= 0]
    if ty == "bool":
        c = c + c
    return c[0], c[1]


# ------------------------------------------------------------------------------------------------
# case structure helpers (pure functions of the case)


def cls_map(c):
    return {k["name"]: k for k in c["classes"]}


def walk_groups(c, include_hidden=False):
    """wrappers in pre-order: [{cls, path, level, prefix, klass, over}].  A cmd=False MEMBER gets no wrapper, nor does
    anything below it; with include_hidden those positions are listed too, marked under_hidden (for the spellings)."""
    cm = cls_map(c)
    out = []

    def walk(cname, path, level, prefix, over, under_hidden):
        k = cm[cname]
        out.append({"cls": cname, "path": path, "level": level, "prefix": prefix, "klass": k, "over": over,
                    "under_hidden": under_hidden})
        for f in k["fields"]:
            if f["k"] == "dc":
                hid = under_hidden or f.get("cmd", True) is False
                if hid and not include_hidden:
                    continue
                walk(f["cls"], path + [f["name"]], level + 1, "", f.get("over") or {}, hid)

    for r in c["regs"]:
        walk(r["cls"], [r["dest"]], 1, r["prefix"], {}, False)
    return out


def leaves_of(g):
    return [f for f in g["klass"]["fields"] if f["k"] == "leaf"]


def is_exposed(f):
    return f.get("cmd", True) and f.get("init", True)


def get_nested(d, path):
    cur = d
    for p in path:
        if not isinstance(cur, dict) or p not in cur:
            return False, None
        cur = cur[p]
    return True, cur


def inst_value(c, reg, rel_path):
    """value a default instance holds at rel_path (constructor semantics): explicit kwarg, else the member factory's
    override, else the definition."""
    cm = cls_map(c)
    cname = reg["cls"]
    kwargs = reg["inst"]
    over = {}
    for i, name in enumerate(rel_path):
        k = cm[cname]
        f = next(x for x in k["fields"] if x["name"] == name)
        last = i == len(rel_path) - 1
        if last:
            if kwargs is not None and name in kwargs:
                return kwargs[name]
            if name in over:
                return over[name]
            return f["default"]["v"] if f.get("default") else None
        if kwargs is not None and name in kwargs:
            kwargs = kwargs[name]
            over = {}
        else:
            kwargs = None
            over = f.get("over") or {}
        cname = f["cls"]
    raise AssertionError(rel_path)


def expected_default(c, g, f):
    """(display string or None) of the effective default: config files > default instance > member factory > definition"""
    path = g["path"] + [f["name"]]
    for fl in reversed(c["files"]):
        ok, v = get_nested(fl["data"], path)
        if ok:
            return shown(f["ty"], v)
    reg = next(r for r in c["regs"] if r["dest"] == path[0])
    if reg.get("inst") is not None:
        return shown(f["ty"], inst_value(c, reg, path[1:]))
    if f["name"] in g["over"]:
        return shown(f["ty"], g["over"][f["name"]])
    return shown(f["ty"], f["default"]["v"]) if f.get("default") else None


def help_sources(f):
    h = f.get("help") or {}
    return [h[k] for k in ("explicit", "below", "above", "inline") if h.get(k)]


# ------------------------------------------------------------------------------------------------
# source rendering


def render_inst(c, cname, kwargs):
    cm = cls_map(c)
    parts = []
    for f in cm[cname]["fields"]:
        if f["name"] not in kwargs:
            continue
        if f["k"] == "dc":
            parts.append(f"{f['name']}={render_inst(c, f['cls'], kwargs[f['name']])}")
        else:
            parts.append(f"{f['name']}={py_expr(f['ty'], kwargs[f['name']])}")
    return f"{cname}({', '.join(parts)})"


def render_module(c):
    L = ["import enum", "import functools", "from dataclasses import dataclass", "from typing import List, Optional, Union",
         "from simple_parsing import field, subgroups", "", "", "class Color(enum.Enum):"]
    L += [f"    {m} = {i + 1}" for i, m in enumerate(ENUM_MEMBERS)]
    cm = cls_map(c)
    for k in c["classes"]:
        L += ["", "", "@dataclass", f"class {k['name']}:"]
        if k.get("doc"):
            L.append(f'    """{k["doc"]}"""')
            L.append("")
        for f in k["fields"]:
            if f["k"] == "dc":
                if f.get("over"):
                    kws = ", ".join(f"{n}={py_expr(next(x for x in cm[f['cls']]['fields'] if x['name'] == n)['ty'], v)}"
                                    for n, v in f["over"].items())
                    fac = f"functools.partial({f['cls']}, {kws})"
                else:
                    fac = f["cls"]
                L.append(f"    {f['name']}: {f['cls']} = field(default_factory={fac}" + (", cmd=False" if f.get("cmd", True) is False else "") + ")")
                L.append("")
                continue
            if f["k"] == "subgroups":
                alts = ", ".join(f'"{key}": {cls}' for key, cls in f["alts"].items())
                L.append(f"    {f['name']}: Union[{', '.join(f['alts'].values())}] = subgroups({{{alts}}}, default=\"{f['default_key']}\")")
                L.append("")
                continue
            h = f.get("help") or {}
            args = []
            d = f.get("default")
            if d is not None:
                if f["ty"] == "listInt" and d["v"] is not None:
                    args.append(f"default_factory={py_expr(f['ty'], d['v'])}.copy")
                else:
                    args.append(f"default={py_expr(f['ty'], d['v'])}")
            if f.get("alias"):
                args.append(f"alias={f['alias']!r}")
            if f.get("cmd", True) is False:
                args.append("cmd=False")
            if f.get("init", True) is False:
                args.append("init=False")
            if h.get("explicit"):
                args.append(f"help={h['explicit']!r}")
            plain = d is not None and len(args) == 1 and not args[0].startswith("default_factory")
            if h.get("above"):
                L.append(f"    # {h['above']}")
            if plain:
                rhs = f" = {py_expr(f['ty'], d['v'])}"
            elif args:
                rhs = f" = field({', '.join(args)})"
            else:
                rhs = ""
            L.append(f"    {f['name']}: {ANN[f['ty']]}{rhs}" + (f"  # {h['inline']}" if h.get("inline") else ""))
            if h.get("below"):
                L.append(f'    """{h["below"]}"""')
            L.append("")
    return "\n".join(L) + "\n"


# ------------------------------------------------------------------------------------------------
# running children

_TMP = None
_POOL = None
_PREFETCH: dict[str, dict] = {}


def _tmpdir():
    global _TMP
    if _TMP is None or not os.path.isdir(_TMP):
        _TMP = tempfile.mkdtemp(prefix=f"spverif.{os.getpid()}.c16.", dir=os.environ.get("TMPDIR") or "/tmp")
        atexit.register(shutil.rmtree, _TMP, ignore_errors=True)
    return _TMP


def _pool():
    global _POOL
    if _POOL is None:
        _POOL = cf.ThreadPoolExecutor(max_workers=int(os.environ.get("VERIF_JOBS", str(os.cpu_count() or 4))))
    return _POOL


def canon(x):
    return json.dumps(x, sort_keys=True, ensure_ascii=False, separators=(",", ":"))


def _run_child(spec, seed):
    env = {"PATH": os.environ.get("PATH", "/usr/bin:/bin"), "COLUMNS": COLUMNS, "LINES": "50", "PYTHONHASHSEED": seed,
           "TMPDIR": _tmpdir(), "PYTHONDONTWRITEBYTECODE": "1"}
    try:
        p = subprocess.run([PY, "-s", "-P", "-c", CHILD_SRC], input=json.dumps(spec), capture_output=True, text=True,
                           env=env, timeout=300)
    except subprocess.TimeoutExpired:
        return {"child_error": "timeout"}
    if p.returncode != 0 or not p.stdout.strip():
        return {"child_error": f"exit {p.returncode}: {p.stderr[-1500:]}"}
    try:
        return json.loads(p.stdout)
    except json.JSONDecodeError as e:
        return {"child_error": f"bad json {e}: {p.stdout[:300]}"}


def hidden_spellings(c):
    """every way one could try to spell a cmd=False field on the command line"""
    out = []
    seen = set()
    for g in walk_groups(c, include_hidden=True):
        for f in leaves_of(g):
            if f.get("cmd", True) and not g["under_hidden"]:
                continue
            names = [f["name"]] + [a.lstrip("-") for a in f.get("alias", [])]
            for n in names:
                comps = g["path"] + [n]
                bodies = [".".join(comps[i:]) for i in range(len(comps))]
                if g["prefix"]:
                    bodies.append(g["prefix"] + n)
                for b in bodies:
                    for v in sorted({b, b.replace("_", "-")}):
                        for d in ("--", "-"):
                            s = d + v
                            if s not in seen:
                                seen.add(s)
                                out.append({"argv": [s, "7"], "dest": ".".join(g["path"] + [f["name"]])})
                                out.append({"argv": [s + "=7"], "dest": ".".join(g["path"] + [f["name"]])})
    return out


def probe_tokens(c):
    toks = {}
    for g in walk_groups(c):
        for f in leaves_of(g):
            if not is_exposed(f):
                continue
            a, b = other_values(f["ty"], expected_default(c, g, f))
            toks[".".join(g["path"] + [f["name"]])] = {"probe": tokens(f["ty"], a), "base": tokens(f["ty"], b)}
    return toks


def side_dests(c):
    ds = [".".join(g["path"] + [f["name"]]) for g in walk_groups(c) for f in leaves_of(g) if is_exposed(f)]
    out = [[]]
    if ds:
        out.append(ds[:1])
    if len(ds) > 2:
        out.append([ds[-1], ds[len(ds) // 2]])
    return out


def _submit(case):
    c = case["case"]
    key = hashlib.sha256(canon(c).encode()).hexdigest()[:16]
    files = []
    for i, fl in enumerate(c["files"]):
        data = fl["data"]
        if c["cfg"]["nest"] == "WITHOUT_ROOT" and len(c["regs"]) == 1:
            # parsing.py:388-396: with WITHOUT_ROOT and one registration the file holds the root's fields directly
            data = data.get(c["regs"][0]["dest"], {})
        path = os.path.join(_tmpdir(), f"cfg_{key}_{i}.json")
        with open(path, "w") as fh:
            json.dump(data, fh)
        files.append({"via": fl["via"], "path": path})
    spec = {"repo": VERIF_REPO, "modname": "c16mod", "source": render_module(c), "cfg": c["cfg"], "files": files,
            "regs": [{"cls": r["cls"], "dest": r["dest"], "prefix": r["prefix"],
                      "inst": render_inst(c, r["cls"], r["inst"]) if r.get("inst") is not None else None}
                     for r in c["regs"]],
            "tokens": {} if case["op"] == "help.merge" else probe_tokens(c),
            "hidden_argv": [h["argv"] for h in hidden_spellings(c)],
            "side_dests": [[]] if case["op"] == "help.merge" else side_dests(c), "extra_help": c.get("extra_help", []),
            "extra_parse": c.get("extra_parse", []),
            "rehelp": case["op"] in ("help.entries", "help.merge") and not c["files"]}
    futs = {}
    for i, seed in enumerate(c["seeds"]):
        s = dict(spec, do=["help", "table", "probes"] if i == 0 else ["help"])
        if i > 0:
            s["extra_parse"] = []
        futs[seed] = _pool().submit(_run_child, s, seed)
    return futs


def _key(case):
    return canon({"op": case["op"], "case": case["case"]})


def _prefetch(case):
    if case["op"] != "help.shown":
        _PREFETCH[_key(case)] = _submit(case)
    return case


# ------------------------------------------------------------------------------------------------
# parsing the help text back (independent of the model)

TITLE = re.compile(r"^(\S+) \[(.*)\]$")
DEFAULT = re.compile(r"^(.*?)\s*\(default: (.*)\)$", re.S)


def parse_help(text):
    lines = text.split("\n")
    i = 0
    usage = []
    while i < len(lines) and lines[i].strip():
        usage.append(lines[i])
        i += 1
    groups = []
    cur = None
    bad = []
    for line in lines[i:]:
        if not line.strip():
            continue
        if not line.startswith(" "):
            if not line.endswith(":"):
                bad.append(line)
                continue
            cur = {"title": line[:-1], "desc": [], "entries": []}
            groups.append(cur)
        elif cur is None:
            bad.append(line)
        elif line.startswith("  -") and not line.startswith("   "):
            m = re.match(r"^  (\S(?:.*?\S)?)(?:\s{2,}(\S.*))?$", line)
            cur["entries"].append({"inv": m.group(1), "col": m.group(2) or ""})
        elif line.startswith(" " * 24) and cur["entries"]:
            e = cur["entries"][-1]
            e["col"] = (e["col"] + " " + line.strip()).strip()
        else:
            cur["desc"].append(line.strip())
    for g in groups:
        m = TITLE.match(g["title"])
        g["cls"] = m.group(1) if m else None
        g["dests"] = re.findall(r"'([^']*)'", m.group(2)) if m else []
        for e in g["entries"]:
            parts = re.split(r", (?=-)", e["inv"])
            e["opts"] = [p.split(" ", 1)[0] for p in parts]
            e["metavars"] = sorted({p.split(" ", 1)[1] if " " in p else "" for p in parts})
            m = DEFAULT.match(e["col"])
            if m:
                e["help"], e["default"], e["default_shown"] = m.group(1), m.group(2), True
            else:
                e["help"], e["default"], e["default_shown"] = e["col"], None, False
    return {"usage": usage, "groups": groups, "bad": bad}


def field_groups(parsed):
    return [g for g in parsed["groups"] if g["cls"] is not None]


# ------------------------------------------------------------------------------------------------
# generators

NAMES = ["x", "y", "a", "b", "a_b", "n", "lr", "lr_decay", "a_b_c", "w_x", "v1", "k"]
HIDDEN_NAMES = ["zhid", "z_f", "secret"]
ALIAS_SETS = [["--yy", "--zz"], ["-p", "-q"], ["u_v"], ["--x1", "--x2"], ["zz"], ["-q"], ["--al_x", "--al-x"], ["r_s", "--tt"],
              ["--a_b"], ["ab", "cd"]]
DESTS = ["a", "b", "cfg", "x", "m_d"]
LEAF_TYPES = ["int", "int", "int", "str", "str", "float", "bool", "listInt", "optInt", "optStr", "optFloat", "enum"]
CFG0 = {"cr": "AUTO", "dash": "UNDERSCORE", "gen": "FLAT", "nest": "DEFAULT"}
HELP_KINDS = ["explicit", "below", "above", "inline"]


def seeds_for(tier):
    return ["0", "1", "2", "3"] if tier == "quick" else [str(i) for i in range(16)] + ["random"]


def mk_leaf(rng, name, ty=None, mk=None, *, alias=None, cmd=True, required=False):
    ty = ty or rng.choice(LEAF_TYPES)
    f = {"k": "leaf", "name": name, "ty": ty, "alias": alias or [], "cmd": cmd, "init": True}
    if not required:
        f["default"] = {"v": rng.choice(POOL[ty])}
    r = rng.random()
    if mk is not None and r < 0.65:
        kind = rng.choice(HELP_KINDS)
        f["help"] = {kind: mk(kind, name)}
        if r < 0.12:     # two documentation positions at once: FieldWrapper.help's precedence decides
            k2 = rng.choice([k for k in HELP_KINDS if k != kind])
            f["help"][k2] = mk(k2, name)
    return f


class Mk:
    def __init__(self):
        self.n = 0

    def __call__(self, kind, name):
        self.n += 1
        return f"doc{self.n} {kind} of {name}"


def mk_case(classes, regs, cfg, files, seeds, op="help.entries"):
    return {"op": op, "case": {"classes": classes, "regs": regs, "cfg": cfg, "files": files, "seeds": seeds}}


def slice_cases(seeds):
    """one class, the D3 shapes: a_b under every dash variant / generation mode, equal-length aliases"""
    import itertools
    from harness.core import sp
    shapes = [
        [{"k": "leaf", "name": "a_b", "ty": "int", "alias": [], "cmd": True, "init": True, "default": {"v": 3}}],
        [{"k": "leaf", "name": "y", "ty": "int", "alias": ["--yy", "--zz"], "cmd": True, "init": True, "default": {"v": 1},
          "help": {"explicit": "the y"}}],
        [{"k": "leaf", "name": "x", "ty": "str", "alias": ["-p", "-q"], "cmd": True, "init": True, "default": {"v": "s"}},
         {"k": "leaf", "name": "hid", "ty": "int", "alias": [], "cmd": False, "init": True, "default": {"v": 9}}],
        [{"k": "leaf", "name": "lr_decay", "ty": "float", "alias": ["u_v"], "cmd": True, "init": True, "default": {"v": 0.5},
          "help": {"inline": "decay rate"}},
         {"k": "leaf", "name": "flag", "ty": "bool", "alias": [], "cmd": True, "init": True, "default": {"v": False}}],
        [{"k": "leaf", "name": "a_flag", "ty": "bool", "alias": [], "cmd": True, "init": True, "default": {"v": True},
          "help": {"below": "switch it"}}],
    ]
    for fields, dash, gen_ in itertools.product(shapes, sp.ALL_DASH, sp.ALL_GEN):
        yield mk_case([{"name": "K0", "doc": "Doc of K0.", "fields": fields}], [{"cls": "K0", "dest": "a", "prefix": "", "inst": None}],
                      dict(CFG0, dash=dash, gen=gen_), [], seeds)
    # two destinations (AUTO prefixes), nested member
    k0 = {"name": "K0", "doc": None, "fields": shapes[0] + shapes[1]}
    k1 = {"name": "K1", "doc": "Outer.", "fields": [{"k": "leaf", "name": "n", "ty": "int", "alias": [], "cmd": True, "init": True,
                                                    "default": {"v": 2}}, {"k": "dc", "name": "m", "cls": "K0", "over": {"y": 5}}]}
    for dash in sp.ALL_DASH:
        yield mk_case([k0, k1], [{"cls": "K1", "dest": "a", "prefix": "", "inst": None}, {"cls": "K0", "dest": "b", "prefix": "", "inst": None}],
                      dict(CFG0, dash=dash), [], seeds)


def clash_cases(seeds):
    """an option string that is already taken: the built-in -h/--help, or the negative flag of a bool field"""
    shapes = [
        [_lf("h", "int", 3)], [_lf("help", "str", "q")], [_lf("hlp", "int", 3, alias=["-h"])],
        [_lf("flag", "bool", False), _lf("noflag", "int", 0)], [_lf("nox", "str", "q"), _lf("x", "bool", True)],
        [_lf("a_b", "bool", False), _lf("noa_b", "bool", False)],
        [_lf("flag", "bool", False), _lf("n", "int", 0, alias=["--noflag"])],
    ]
    for fields in shapes:
        yield mk_case([{"name": "K0", "doc": None, "fields": fields}], [{"cls": "K0", "dest": "a", "prefix": "", "inst": None}],
                      CFG0, [], seeds)
    # under NESTED generation the spellings differ (--a.noflag vs --a.noflag): still a clash; with a prefix none
    yield mk_case([{"name": "K0", "doc": None, "fields": shapes[3]}], [{"cls": "K0", "dest": "a", "prefix": "", "inst": None}],
                  dict(CFG0, gen="NESTED"), [], seeds)
    yield mk_case([{"name": "K0", "doc": None, "fields": shapes[0]}], [{"cls": "K0", "dest": "a", "prefix": "p_", "inst": None}],
                  CFG0, [], seeds)


def random_case(rng, seeds):
    mk = Mk()
    n_cls = rng.choice([1, 1, 2, 2, 3, 3, 4])
    classes = []
    alias_sets = rng.sample(ALIAS_SETS, len(ALIAS_SETS))
    for ci in range(n_cls):
        names = rng.sample(NAMES, rng.randint(1, 4))
        fields = []
        for nm in names:
            if classes and rng.random() < 0.45:
                sub = rng.choice(classes[-2:])
                over = {}
                cand = [f for f in sub["fields"] if f["k"] == "leaf" and is_exposed(f)]
                if cand and rng.random() < 0.4:
                    f0 = rng.choice(cand)
                    over[f0["name"]] = rng.choice([v for v in POOL[f0["ty"]]])
                fields.append({"k": "dc", "name": nm, "cls": sub["name"], "over": over, "cmd": rng.random() >= 0.15})
            else:
                al = alias_sets.pop() if (alias_sets and rng.random() < 0.3) else []
                fields.append(mk_leaf(rng, nm, mk=mk, alias=al))
        if rng.random() < 0.45:
            hn = rng.choice(HIDDEN_NAMES)
            fields.insert(rng.randint(0, len(fields)),
                          mk_leaf(rng, hn, rng.choice(["int", "str"]), mk=mk, cmd=False,
                                  alias=["--zq"] if rng.random() < 0.3 else []))
        if rng.random() < 0.08:
            f = mk_leaf(rng, "ni", "int", mk=mk)
            f["init"] = False
            fields.append(f)
        have = {f["name"] for f in fields}
        r = rng.random()
        if r < 0.04 and "h" not in have:
            # a field (or alias) spelled like the built-in -h/--help (open finding C16-help-clash)
            fields.append(mk_leaf(rng, rng.choice(["h", "help"]), "int", mk=mk) if rng.random() < 0.7
                          else mk_leaf(rng, "hlp", "int", mk=mk, alias=[rng.choice(["-h", "--help"])]))
        elif r < 0.10 and not ({"flag", "noflag", "x", "nox"} & have):
            # a bool field next to a field spelled like its negative flag (open finding C16-negflag-clash)
            a_, b_ = rng.choice([("flag", "noflag"), ("x", "nox")])
            pair = [mk_leaf(rng, a_, "bool", mk=mk), mk_leaf(rng, b_, rng.choice(["int", "str", "bool"]), mk=mk)]
            rng.shuffle(pair)
            fields.extend(pair)
        classes.append({"name": f"K{ci}", "doc": f"Doc of K{ci}." if rng.random() < 0.6 else None, "fields": fields})
    nreg = rng.choice([1, 1, 2, 2, 3])
    dests = rng.sample(DESTS, nreg)
    regs = []
    for d in dests:
        k = rng.choice(classes[-2:] if rng.random() < 0.7 else classes)
        regs.append({"cls": k["name"], "dest": d, "prefix": rng.choice(["", "", "", "p_", "q_"]), "inst": None})
    used = set()
    cm = {k["name"]: k for k in classes}

    def reach(cn):
        if cn in used:
            return
        used.add(cn)
        for f in cm[cn]["fields"]:
            if f["k"] == "dc":
                reach(f["cls"])

    for r in regs:
        reach(r["cls"])
    classes = [k for k in classes if k["name"] in used]
    # a required first field, only in classes that are never members
    member_classes = {f["cls"] for k in classes for f in k["fields"] if f["k"] == "dc"}
    for k in classes:
        if k["name"] not in member_classes and rng.random() < 0.12:
            k["fields"].insert(0, mk_leaf(rng, "req", rng.choice(["int", "str"]), mk=mk, required=True))
    c = {"classes": classes, "regs": regs}

    def rand_kwargs(cname, p, force=()):
        kw = {}
        for f in cm[cname]["fields"]:
            if f["k"] == "dc":
                if f.get("cmd", True) and rng.random() < p:     # (a config file must not mention a cmd=False member)
                    kw[f["name"]] = rand_kwargs(f["cls"], p)
            elif (f["name"] in force) or (is_exposed(f) and rng.random() < p):
                kw[f["name"]] = rng.choice(POOL[f["ty"]])
        return kw

    for r in regs:
        has_req = any(f["k"] == "leaf" and not f.get("default") for f in cm[r["cls"]]["fields"])
        if rng.random() < 0.35 or (has_req and rng.random() < 0.5):
            r["inst"] = rand_kwargs(r["cls"], 0.5, force=("req",) if has_req else ())
            if not r["inst"] and not has_req:
                r["inst"] = None
    files = []
    if rng.random() < 0.4:
        via = rng.choice(["ctor", "ctor", "argv"])
        for _ in range(rng.choice([1, 1, 2])):
            data = {}
            for r in regs:
                if rng.random() < 0.75:
                    kw = rand_kwargs(r["cls"], 0.5)
                    kw = _json_safe(kw)
                    if kw:
                        data[r["dest"]] = kw
            if data:
                files.append({"via": via, "data": data})
    if rng.random() < 0.55:
        cfg = dict(CFG0, dash=rng.choice(["UNDERSCORE", "UNDERSCORE_AND_DASH", "UNDERSCORE_AND_DASH", "DASH"]))
    else:
        from harness.core import sp
        cfg = {"cr": rng.choice(["AUTO", "EXPLICIT", "NONE"]), "dash": rng.choice(sp.ALL_DASH),
               "gen": rng.choice(sp.ALL_GEN), "nest": rng.choice(sp.ALL_NEST)}
    return mk_case(classes, regs, cfg, files, seeds)


def _json_safe(kw):
    """config files cannot say None (it means 'not mentioned'): drop such entries and empty sub-dicts"""
    out = {}
    for k, v in kw.items():
        if isinstance(v, dict):
            v = _json_safe(v)
            if v:
                out[k] = v
        elif v is not None:
            out[k] = v
    return out


def _lf(name, ty, v, **kw):
    return dict({"k": "leaf", "name": name, "ty": ty, "alias": [], "cmd": True, "init": True, "default": {"v": v}}, **kw)


def subgroup_classes(default_key="sa"):
    la = {"name": "SA", "doc": "Alt A.", "fields": [_lf("lr", "float", 0.5, help={"explicit": "rate of A"})]}
    lb = {"name": "SB", "doc": "Alt B.", "fields": [_lf("mom_b", "float", 2.0, help={"inline": "momentum of B"}),
                                                    _lf("zsec", "int", 1, cmd=False)]}
    top = {"name": "Top", "doc": "Top.", "fields": [{"k": "subgroups", "name": "opt", "alts": {"sa": "SA", "sb": "SB"},
                                                    "default_key": default_key}, _lf("n", "int", 1)]}
    outer = {"name": "Outer", "doc": "Outer.", "fields": [{"k": "dc", "name": "inner", "cls": "Top", "over": {}}, _lf("k", "int", 2)]}
    return la, lb, top, outer


EXP_A = {"present": ["--lr", "--opt"], "absent": ["--mom_b", "--zsec"],
         "entries": {"--lr": {"help": "rate of A", "default": "0.5"}}}
EXP_B = {"present": ["--mom_b", "--opt"], "absent": ["--lr", "--zsec"],
         "entries": {"--mom_b": {"help": "momentum of B", "default": "2.0"}}}


def subgroup_cases(seeds):
    """model-free: the fields of the currently selected subgroup are listed - default choice and explicit choice, at the
    root and inside a nested member, with a cmd=False field in the alternative, with a config file for a sibling field"""
    la, lb, top, outer = subgroup_classes()
    _, _, top_b, _ = subgroup_classes("sb")

    def mk(classes, root, cfg, files, default, extra, extra_exp, extra_parse):
        c = mk_case(classes, [{"cls": root, "dest": "cfg", "prefix": "", "inst": None}], cfg, files, seeds, op="help.subgroup")
        c["model"] = False
        c["case"]["extra_help"] = extra
        c["case"]["extra_parse"] = extra_parse
        c["case"]["expect"] = {"default": default, "extra": extra_exp, "extra_parse_rejected": len(extra_parse)}
        return c

    hidden_try = [["--opt", "sb", "--zsec", "6"], ["--opt", "sb", "--cfg.opt.zsec", "6"], ["--opt", "sb", "--opt.zsec=6"]]
    for dash in ("UNDERSCORE", "UNDERSCORE_AND_DASH"):
        yield mk([la, lb, top], "Top", dict(CFG0, dash=dash), [], dict(EXP_A, present=EXP_A["present"] + ["--n"]),
                 [["--opt", "sb", "--help"]], [EXP_B], hidden_try)
    yield mk([la, lb, top, outer], "Outer", CFG0, [], dict(EXP_A, present=EXP_A["present"] + ["--n", "--k"]),
             [["--opt", "sb", "--help"], ["--opt", "sa", "--help"]], [dict(EXP_B, present=EXP_B["present"] + ["--k"]), EXP_A], hidden_try)
    yield mk([la, lb, top_b], "Top", CFG0, [], EXP_B, [["--opt", "sa", "--help"]], [EXP_A], [])
    yield mk([la, lb, top], "Top", CFG0, [{"via": "ctor", "data": {"cfg": {"n": 5}}}],
             dict(EXP_A, entries=dict(EXP_A["entries"], **{"--n": {"help": "", "default": "5"}})),
             [["--opt", "sb", "--help"]], [dict(EXP_B, entries=dict(EXP_B["entries"], **{"--n": {"help": "", "default": "5"}}))], [])
    yield mk([la, lb, top], "Top", dict(CFG0, gen="BOTH", dash="DASH"), [],
             {"present": ["--lr", "--cfg.opt.lr", "--opt"], "absent": ["--mom-b"], "entries": {"--lr": {"help": "rate of A", "default": "0.5"}}},
             [["--opt", "sb", "--help"]], [{"present": ["--mom-b", "--cfg.opt.mom-b"], "absent": ["--lr", "--zsec"],
                                            "entries": {"--mom-b": {"help": "momentum of B", "default": "2.0"}}}], [])


MERGE_TYPES = ["int", "int", "str", "float", "listInt", "bool"]
MERGE_NAMES = ["x", "y", "a_b", "n", "lr", "lr_decay", "w_x", "v1", "k"]


def merge_case(rng, seeds):
    """oracle-only: ALWAYS_MERGE with the same class at 2-3 destinations (one shared option per field)"""
    mk = Mk()
    names = rng.sample(MERGE_NAMES, rng.randint(2, 4))
    inner = [mk_leaf(rng, nm, rng.choice(MERGE_TYPES), mk=mk, alias=(["--yy", "--zz"] if i == 0 and rng.random() < 0.3 else []))
             for i, nm in enumerate(names)]
    if rng.random() < 0.5:
        inner.insert(rng.randint(0, len(inner)), mk_leaf(rng, rng.choice(HIDDEN_NAMES), "int", mk=mk, cmd=False))
    classes = [{"name": "K0", "doc": "Doc of K0." if rng.random() < 0.6 else None, "fields": inner}]
    root = "K0"
    if rng.random() < 0.5:
        over = {}
        f0 = rng.choice([f for f in inner if is_exposed(f)])
        if rng.random() < 0.5:
            over[f0["name"]] = rng.choice(POOL[f0["ty"]])
        outer = [mk_leaf(rng, "top_" + rng.choice(["p", "q"]), rng.choice(MERGE_TYPES), mk=mk),
                 {"k": "dc", "name": "m", "cls": "K0", "over": over, "cmd": True}]
        classes.append({"name": "K1", "doc": "Doc of K1.", "fields": outer})
        root = "K1"
    dests = rng.sample(DESTS, rng.choice([2, 2, 3]))
    regs = [{"cls": root, "dest": d, "prefix": "", "inst": None} for d in dests]
    c = mk_case(classes, regs, dict(CFG0, cr="ALWAYS_MERGE", dash=rng.choice(["UNDERSCORE", "UNDERSCORE_AND_DASH", "DASH"])), [], seeds,
                op="help.merge")
    c["model"] = False
    return c


UNIT_HELPS = ["", "h", "some help text", "x (y)", "ends with colon:", "(default: 3)"]
UNIT_DEFAULTS = [None, "3", "0", "", "two words", "[1, 2]", "None", "-1.5", "True", "a)"]


def unit_cases(rng, n):
    import itertools
    allc = list(itertools.product(UNIT_HELPS, UNIT_DEFAULTS))
    rng.shuffle(allc)
    for h, d in allc[:n]:
        yield {"op": "help.shown", "case": {"help": h or None, "default": d}}


def gen(rng, tier):
    seeds = seeds_for(tier)
    for c in slice_cases(seeds):
        yield _prefetch(c)
    for c in subgroup_cases(seeds):
        yield _prefetch(c)
    for c in clash_cases(seeds):
        yield _prefetch(c)
    n = int(os.environ.get("VERIF_C16_N", "0")) or (200 if tier == "quick" else 900)   # VERIF_C16_N: development override
    for i in range(n):
        yield _prefetch(merge_case(rng, seeds) if i % 12 == 11 else random_case(rng, seeds))
    yield from unit_cases(rng, 30 if tier == "quick" else 60)


# ------------------------------------------------------------------------------------------------
# impl


def impl_unit(c):
    """the help column of ONE real field with help text h and a str default d, read back from the real format_help()"""
    import dataclasses

    import simple_parsing
    from harness.core import sp
    from simple_parsing.helpers import field as sp_field

    sp.reset_globals()
    kw = {}
    if c["help"]:
        kw["help"] = c["help"]
    fld = sp_field(default=c["default"], **kw)
    K = dataclasses.make_dataclass("K", [("fld", str, fld)])
    p = simple_parsing.ArgumentParser(prog="prog")
    p.add_arguments(K, dest="a")
    old = os.environ.get("COLUMNS")
    os.environ["COLUMNS"] = COLUMNS
    try:
        p._preprocessing(args=[])
        text = p.format_help()
    finally:
        if old is None:
            os.environ.pop("COLUMNS", None)
        else:
            os.environ["COLUMNS"] = old
    es = [e for g in parse_help(text)["groups"] for e in g["entries"] if "--fld" in e["inv"].split()]
    return {"shown": es[0]["col"] if len(es) == 1 else None, "n_entries": len(es)}


def impl(case):
    c = case["case"]
    if case["op"] == "help.shown":
        return impl_unit(c)
    futs = _PREFETCH.pop(_key(case), None) or _submit(case)
    res = {s: f.result() for s, f in futs.items()}
    errs = {s: r["child_error"] for s, r in res.items() if "child_error" in r}
    if errs:
        raise RuntimeError(f"child interpreter failed: {errs}")
    first = res[c["seeds"][0]]
    obs = {"table": first["table"], "help": {}, "texts": [], "parsed": []}
    for s in c["seeds"]:
        h = res[s]["help"]
        rec = {"o": h["o"], "code": h.get("code"), "exc": h.get("exc"), "stderr_empty": not h["stderr"].strip(),
               "stdout_empty": not h["stdout"].strip()}
        if h["o"] == "exit" and h.get("code") == 0:
            if h["stdout"] not in obs["texts"]:
                obs["texts"].append(h["stdout"])
                obs["parsed"].append(parse_help(h["stdout"]))
            rec["text"] = obs["texts"].index(h["stdout"])
        else:
            rec["stderr_tail"] = h["stderr"][-300:]
        obs["help"][s] = rec
    for k in ("baseline", "accept", "hidden", "side"):
        if k in first:
            obs[k] = first[k]
    if "rehelp" in first and first["help"]["o"] == "exit" and first["help"].get("code") == 0:
        # texts produced repeatedly on one parser object, kept only where they differ from the fresh parser's text
        fresh = first["help"]["stdout"]
        bad = []
        for name, texts in first["rehelp"]["seqs"].items():
            for i, t in enumerate(texts):
                if t != fresh:
                    fl, tl = fresh.split("\n"), t.split("\n")
                    diff = [[x, y] for x, y in zip(fl, tl) if x != y][:3] or [[len(fl), len(tl)]]
                    lost = []
                    if not t.startswith("<<"):
                        pf, pt = parse_help(fresh), parse_help(t)
                        for g1, g2 in zip(field_groups(pf), field_groups(pt)):
                            for e1, e2 in zip(g1["entries"], g2["entries"]):
                                if e1["default_shown"] and not e2["default_shown"]:
                                    lost.append(e1["opts"][0])
                    bad.append({"sequence": name, "step": i, "diff": diff, "defaults_lost": lost[:6]})
        obs["rehelp"] = {"n_texts": sum(len(t) for t in first["rehelp"]["seqs"].values()), "bad": bad,
                         "parse": first["rehelp"]["parse"], "plain_parse": first["rehelp"]["plain_parse"]}
    if first.get("extra_help"):
        obs["extra_help"] = [{"o": h["o"], "code": h.get("code"), "exc": h.get("exc"), "parsed": parse_help(h["stdout"]),
                              "distinct_texts": len({res[s_]["extra_help"][i]["stdout"] for s_ in c["seeds"]
                                                     if len(res[s_].get("extra_help", [])) > i})}
                             for i, h in enumerate(first["extra_help"])]
    if first.get("extra_parse"):
        obs["extra_parse"] = first["extra_parse"]
    if "baseline_given" in first:
        obs["baseline_given"] = first["baseline_given"]
    obs["stderr_nonempty"] = any(not h["stderr_empty"] for h in obs["help"].values())
    return obs


# ------------------------------------------------------------------------------------------------
# model side


def tree_of(c, g_cls, name, over):
    cm = cls_map(c)
    k = cm[g_cls]
    leaves, kids = [], []
    for f in k["fields"]:
        if f["k"] == "dc":
            kids.append(dict(tree_of(c, f["cls"], f["name"], f.get("over") or {}), cmd=f.get("cmd", True)))
        else:
            h = f.get("help") or {}
            ty = {"k": "enum", "cls": "Color"} if f["ty"] == "enum" else {"k": f["ty"]}
            leaves.append({"name": f["name"], "ty": ty, "dflt": shown(f["ty"], f["default"]["v"]) if f.get("default") else None,
                           "aliases": f.get("alias", []), "cmd": f.get("cmd", True), "init": f.get("init", True),
                           "help": {k2: h.get(k2) for k2 in HELP_KINDS}})
    leaf_ty = {f["name"]: f["ty"] for f in k["fields"] if f["k"] == "leaf"}
    return {"cls": g_cls, "name": name, "leaves": leaves,
            "over": [[n, shown(leaf_ty[n], v)] for n, v in over.items()], "kids": kids}


def flatten_data(c, data):
    """nested config dict -> [[leaf dest, display]]"""
    out = []
    for g in walk_groups(c):
        for f in leaves_of(g):
            ok, v = get_nested(data, g["path"] + [f["name"]])
            if ok:
                out.append([".".join(g["path"] + [f["name"]]), shown(f["ty"], v)])
    return out


def model_case(case, obs):
    c = case["case"]
    if case["op"] == "help.shown":
        return c
    inst = []
    for r in c["regs"]:
        if r.get("inst") is None:
            continue
        for g in walk_groups(c):
            if g["path"][0] != r["dest"]:
                continue
            for f in leaves_of(g):
                inst.append([".".join(g["path"] + [f["name"]]), shown(f["ty"], inst_value(c, r, g["path"][1:] + [f["name"]]))])
    return {"cfg": c["cfg"], "mode": c["cfg"]["cr"],
            "forest": [{"prefix": r["prefix"], "tree": tree_of(c, r["cls"], r["dest"], {})} for r in c["regs"]],
            "inst": inst, "files": [flatten_data(c, fl["data"]) for fl in c["files"]]}


def project(case, obs):
    if case["op"] == "help.shown":
        return {"shown": obs["shown"]}
    if obs["table"]["o"] == "raise":
        return {"o": "raise", "exc": obs["table"]["exc"]}
    runs = []
    for p in obs["parsed"]:
        es = []
        for g in field_groups(p):
            for e in g["entries"]:
                es.append({"cls": g["cls"], "gdest": g["dests"][0] if len(g["dests"]) == 1 else g["dests"],
                           "opts": e["opts"], "metavar": e["metavars"][0] if len(e["metavars"]) == 1 else e["metavars"],
                           "shown": e["col"]})
        runs.append(es)
    return {"o": "ok", "runs": runs,
            "actions": [{"dest": a["dest"], "opts": a["opts"], "default": a["default"]} for a in obs["table"]["actions"]]}


def project_model(case, mo):
    if case["op"] == "help.shown" or mo.get("o") != "ok":
        return mo
    # the model's entries are deterministic: every interpreter must have printed exactly this one text.
    # (the destination of an entry is not printed in the text - its group and position are; the table carries it)
    run = [{k: e[k] for k in ("cls", "gdest", "opts", "metavar", "shown")} for e in mo["entries"]]
    acts = [{"dest": e["dest"], "opts": e["opts"], "default": e["default"]} for e in mo["entries"]]
    return {"o": "ok", "runs": [run], "actions": acts}


# ------------------------------------------------------------------------------------------------
# oracle: the property's clauses on the real observations


def expected_groups(c):
    out = []
    for g in walk_groups(c):
        out.append({"cls": g["cls"], "dest": ".".join(g["path"]), "dests": [".".join(g["path"])], "g": g,
                    "exposed": [f for f in leaves_of(g) if is_exposed(f)],
                    "hidden": [f for f in leaves_of(g) if not is_exposed(f)]})
    return out


def expected_groups_merged(c):
    """ALWAYS_MERGE, the same class at every destination: one group per position in the class tree, titled with all
    destinations"""
    first = c["regs"][0]
    one = dict(c, regs=[first])
    out = []
    for g in walk_groups(one):
        rel = g["path"][1:]
        out.append({"cls": g["cls"], "dest": ".".join(g["path"]), "dests": [".".join([r["dest"]] + rel) for r in c["regs"]], "g": g,
                    "exposed": [f for f in leaves_of(g) if is_exposed(f)],
                    "hidden": [f for f in leaves_of(g) if not is_exposed(f)]})
    return out


def hidden_leaf_dests(c):
    """destinations of every leaf that must not be reachable: cmd=False / init=False leaves and everything below a
    cmd=False member"""
    return {".".join(g["path"] + [f["name"]]) for g in walk_groups(c, include_hidden=True) for f in leaves_of(g)
            if g["under_hidden"] or not is_exposed(f)}


def oracle(case, obs):
    c = case["case"]
    if case["op"] == "help.shown":
        return []
    fails = []
    if obs["table"]["o"] == "raise":
        if obs["table"]["exc"] == "ConflictResolutionError":
            # conflict resolution refused the registrations: C03's subject, there is no parser whose help could be listed
            return fails
        return [{"clause": "exit0-stdout", "detail": f"--help cannot be produced: setting up the parser raises "
                                                     f"{obs['table']['exc']}: {obs['table'].get('msg')}"}]
    # 1. exit status 0, text on stdout — in every interpreter (what else goes to stderr is only tagged)
    for s, h in obs["help"].items():
        if not (h["o"] == "exit" and h["code"] == 0 and not h["stdout_empty"]):
            fails.append({"clause": "exit0-stdout", "detail": f"PYTHONHASHSEED={s}: --help gave {h}"})
    if not obs["texts"]:
        return fails
    # 2. identical text across interpreters / hash seeds
    if len(obs["texts"]) > 1:
        by = {}
        for s, h in obs["help"].items():
            by.setdefault(h.get("text"), []).append(s)
        a, b = obs["texts"][0].split("\n"), obs["texts"][1].split("\n")
        diff = [[x, y] for x, y in zip(a, b) if x != y][:4]
        fails.append({"clause": "reproducible", "detail": f"{len(obs['texts'])} different help texts; seeds by text: {by}; "
                                                          f"first differing lines: {diff}"})
    if case["op"] == "help.subgroup":
        return fails + oracle_subgroup(c, obs)
    merged = case["op"] == "help.merge"
    exp = expected_groups_merged(c) if merged else expected_groups(c)
    base_ns = obs.get("baseline") if (obs.get("baseline") or {}).get("o") == "ok" else None
    given = set(obs.get("baseline_given", []))
    actions = {a["dest"]: a for a in obs["table"]["actions"]}
    accepted = {}
    for o, d in obs["table"]["optmap"].items():
        accepted.setdefault(d, set()).add(o)
    for ti, p in enumerate(obs["parsed"]):
        if p["bad"]:
            fails.append({"clause": "complete", "detail": f"unparseable help lines {p['bad'][:3]}"})
        fg = field_groups(p)
        shown_groups = {(g["cls"], tuple(g["dests"])): g for g in fg}
        if len(shown_groups) != len(fg):
            fails.append({"clause": "complete", "detail": "two groups with the same title"})
        optmap = obs["table"]["optmap"]
        for eg in exp:
            g = shown_groups.get((eg["cls"], tuple(eg["dests"])))
            if not eg["exposed"]:
                if g is not None and g["entries"]:
                    fails.append({"clause": "hidden", "detail": f"group {eg['cls']} {eg['dests']} has no exposed field but lists "
                                                                f"{[e['opts'] for e in g['entries']]}"})
                continue
            if g is None:
                fails.append({"clause": "complete", "detail": f"no group for {eg['cls']} at {eg['dests']} (text {ti})"})
                continue
            if len(g["entries"]) != len(eg["exposed"]):
                clause = "hidden" if len(g["entries"]) > len(eg["exposed"]) else "complete"
                fails.append({"clause": clause, "detail": f"group {eg['cls']} {eg['dests']}: {len(eg['exposed'])} exposed fields "
                                                          f"{[f['name'] for f in eg['exposed']]} but {len(g['entries'])} entries "
                                                          f"{[e['opts'] for e in g['entries']]}"})
                continue
            # which field an entry belongs to is decided by the parser's own option table, not by its position
            by_dest = {}
            for e in g["entries"]:
                by_dest.setdefault(optmap.get(e["opts"][0]), []).append(e)
            for f in eg["exposed"]:
                dest = eg["dest"] + "." + f["name"]
                es_ = by_dest.get(dest, [])
                if len(es_) != 1:
                    fails.append({"clause": "complete", "field": dest,
                                  "detail": f"{dest}: {len(es_)} entries in group {eg['cls']} {eg['dests']} "
                                            f"(entries: {[e['opts'] for e in g['entries']]})"})
                    continue
                e = es_[0]
                acc = accepted.get(dest, set())
                if set(e["opts"]) != acc:
                    fails.append({"clause": "complete", "field": dest,
                                  "detail": f"{dest}: accepted option strings {sorted(acc)} but the entry shows {e['opts']}"})
                got = e["default"] if e["default_shown"] else None
                if merged:
                    if base_ns is not None:
                        vals = [base_ns["ns"].get(d + "." + f["name"], "?:?").split(":", 1)[1] for d in eg["dests"]]
                        want = None if all(v == "None" for v in vals) else "[" + ", ".join(vals) + "]"
                        if (want is None and got not in (None, "None")) or (want is not None and got != want):
                            fails.append({"clause": "accurate-default", "field": dest,
                                          "detail": f"{dest}: an empty parse gives {vals} at {eg['dests']} but the entry shows {got!r}"})
                else:
                    want = expected_default(c, eg["g"], f)
                    if (want is None and got not in (None, "None")) or (want is not None and got != want):
                        fails.append({"clause": "accurate-default", "field": dest,
                                      "detail": f"{dest}: effective default {want!r} but the entry shows {got!r} ({e['col']!r})"})
                    # model-free: the shown default is what a parse of the empty command line really returns
                    if base_ns is not None and dest not in given and dest in base_ns["nstr"]:
                        real = base_ns["nstr"][dest]
                        if (real is None and got not in (None, "None")) or (real is not None and got != real):
                            fails.append({"clause": "default-vs-empty-parse", "field": dest,
                                          "detail": f"{dest}: a parse without this option returns {real!r} but the entry shows {got!r}"})
                srcs = help_sources(f)
                if len(srcs) == 1 and e["help"] != srcs[0]:
                    fails.append({"clause": "accurate-help", "field": dest,
                                  "detail": f"{dest}: help text {srcs[0]!r} but the entry shows {e['help']!r}"})
                if len(srcs) > 1 and e["help"] not in srcs:
                    fails.append({"clause": "accurate-help", "field": dest,
                                  "detail": f"{dest}: documented by {srcs!r} but the entry shows {e['help']!r}"})
                if not srcs and e["help"]:
                    fails.append({"clause": "accurate-help", "field": dest,
                                  "detail": f"{dest}: undocumented field shows help {e['help']!r}"})
        extra = [t for t in shown_groups if t not in {(eg["cls"], tuple(eg["dests"])) for eg in exp}]
        if extra:
            fails.append({"clause": "hidden", "detail": f"groups that belong to no destination: {extra}"})
    # every shown/accepted option string really addresses exactly that field (one real parse per option string)
    for pr in obs.get("accept", []):
        ok = pr["o"] == "ok" and pr["changed"] is not None and (
            pr["changed"] == [pr["dest"]] or (pr["neg"] and pr["changed"] == []))
        if not ok:
            fails.append({"clause": "complete", "field": pr["dest"],
                          "detail": f"option string {pr['opt']} of {pr['dest']} is listed but a parse with it gives {pr}"})
    # 3. cmd=False fields: no action, no entry (counted above), every spelling rejected
    hidden_dests = hidden_leaf_dests(c)
    for d in hidden_dests:
        if d in actions:
            fails.append({"clause": "hidden", "detail": f"hidden field {d} has an action {actions[d]['opts']}"})
    all_opts = set(obs["table"]["optmap"])
    for h, spell in zip(obs.get("hidden", []), hidden_spellings(c)):
        word = spell["argv"][0].split("=")[0]
        if word in all_opts:
            continue  # the very same spelling belongs to an exposed field (e.g. the same class is also an exposed member)
        if any(o.startswith(word) for o in all_opts if o.startswith("--")) and word.startswith("--"):
            continue  # an abbreviation of an exposed option: argparse accepts it for THAT option
        rejected = h["o"] == "exit" and h["code"] == 2
        # (a single-dash spelling can be read by argparse as a short option of ANOTHER field with an attached value)
        taken_by_other = h["o"] == "ok" and h["changed"] and spell["dest"] not in h["changed"]
        if not (rejected or taken_by_other):
            fails.append({"clause": "hidden", "detail": f"spelling {spell['argv']} of hidden field {spell['dest']} was not rejected "
                                                        f"(exit status 2): {h}"})
    # 4. producing the help changes nothing about later parsing
    for rec in obs.get("side", []):
        for variant in ("after_print_help", "after_format_help", "after_dash_help", "after_cfg_dash_help"):
            if variant in rec and not same_outcome(rec[variant], rec["plain"]):
                fails.append({"clause": "no-side-effect", "variant": variant, "argv": rec["argv"],
                              "detail": f"parse {rec['argv']} {variant}: {diff_ns(rec['plain'], rec[variant])}"})
    # 5. the text produced again (and again) on the same parser object is the text of a fresh parser
    rh = obs.get("rehelp")
    if rh:
        for b in rh["bad"]:
            fails.append({"clause": "rehelp", "sequence": b["sequence"],
                          "detail": f"on one parser object, sequence [{b['sequence']}], step {b['step']}: the help text differs from a "
                                    f"fresh parser's --help text: {b['diff']}; defaults no longer shown for {b['defaults_lost']}"})
        if not same_outcome(rh["parse"], rh["plain_parse"]):
            fails.append({"clause": "no-side-effect", "variant": "parse_after_dash_help", "argv": None,
                          "detail": f"a parse after --help on the same parser: {diff_ns(rh['plain_parse'], rh['parse'])}"})
    for rec in obs.get("side", []):
        if "reparse" in rec and not same_outcome(rec["reparse_after_print_help"], rec["reparse"]):
            fails.append({"clause": "no-side-effect", "variant": "reparse_after_print_help", "argv": rec["argv"],
                          "detail": f"second parse {rec['argv']}: {diff_ns(rec['reparse'], rec['reparse_after_print_help'])}"})
    return fails


def same_outcome(a, b):
    return a.get("o") == b.get("o") and a.get("code") == b.get("code") and a.get("exc") == b.get("exc") and a.get("ns") == b.get("ns")


def diff_ns(a, b):
    if a.get("o") == "ok" and b.get("o") == "ok":
        ks = sorted(k for k in set(a["ns"]) | set(b["ns"]) if a["ns"].get(k) != b["ns"].get(k))
        return {k: [a["ns"].get(k), b["ns"].get(k)] for k in ks}
    return {"without": {k: v for k, v in a.items() if k != "ns"}, "with": {k: v for k, v in b.items() if k != "ns"}}


def oracle_subgroup(c, obs):
    """the listing of the default choice (every interpreter) and of each explicit `--opt <key> --help`"""
    fails = []

    def check(tag, parsed, ex):
        entries = {o: e for g in parsed["groups"] for e in g["entries"] for o in e["opts"]}
        miss = [o for o in ex["present"] if o not in entries]
        bad = [o for o in ex["absent"] if o in entries]
        if miss or bad:
            fails.append({"clause": "subgroup", "detail": f"{tag}: options {miss} are not listed / {bad} are listed; listed: {sorted(entries)}"})
        for o, want in ex.get("entries", {}).items():
            e = entries.get(o)
            if e is not None and (e["help"] != want["help"] or e["default"] != want["default"]):
                fails.append({"clause": "subgroup", "detail": f"{tag}: entry of {o} shows help {e['help']!r} default {e['default']!r}, "
                                                              f"expected {want}"})

    ex = c["expect"]
    for p in obs["parsed"]:
        check("default choice", p, ex["default"])
    for argv, h, want in zip(c["extra_help"], obs.get("extra_help", []), ex["extra"]):
        if not (h["o"] == "exit" and h["code"] == 0):
            fails.append({"clause": "subgroup", "detail": f"{argv}: {h['o']} {h['code']} {h.get('exc')}"})
            continue
        if h["distinct_texts"] != 1:
            fails.append({"clause": "reproducible", "detail": f"{argv}: {h['distinct_texts']} different texts across interpreters"})
        check(str(argv), h["parsed"], want)
    for argv, r in zip(c.get("extra_parse", []), obs.get("extra_parse", [])):
        if not (r["o"] == "exit" and r["code"] == 2):
            fails.append({"clause": "hidden", "detail": f"{argv} (a cmd=False field of the selected subgroup) was not rejected: {r}"})
    return fails


# ------------------------------------------------------------------------------------------------


def has_equal_len(obs):
    for a in (obs.get("table") or {}).get("actions") or []:
        pos = [o for o in a["opts"] if o not in a["neg"]]
        if len({len(o) for o in pos}) < len(pos):
            return True
    return False


def nontrivial(case, obs):
    if case["op"] != "help.entries" or obs["table"]["o"] == "raise":
        return False
    c = case["case"]
    exp = expected_groups(c)
    n_exp = sum(len(eg["exposed"]) for eg in exp)
    special = (any(eg["hidden"] for eg in exp) or has_equal_len(obs) or bool(c["files"]) or any(r.get("inst") for r in c["regs"])
               or any(eg["g"]["over"] for eg in exp))
    return n_exp >= 2 and special


def tags(case, obs):
    if case["op"] == "help.shown":
        return ["op:help.shown"]
    c = case["case"]
    t = ["op:" + case["op"], "cr:" + c["cfg"]["cr"], "dash:" + c["cfg"]["dash"], "gen:" + c["cfg"]["gen"], "nest:" + c["cfg"]["nest"],
         f"regs:{len(c['regs'])}", f"classes:{len(c['classes'])}", f"seeds:{len(c['seeds'])}"]
    if obs["table"]["o"] == "raise":
        return t + ["out:" + str(obs["table"]["exc"])]
    exp = expected_groups(c) if case["op"] == "help.entries" else (expected_groups_merged(c) if case["op"] == "help.merge" else [])
    t += [f"stderr-nonempty:{obs.get('stderr_nonempty', False)}",
          f"hidden-member:{any(f['k'] == 'dc' and f.get('cmd', True) is False for k in c['classes'] for f in k['fields'])}",
          f"two-help-sources:{any(len(help_sources(f)) > 1 for eg in exp for f in eg['exposed'])}"]
    t += ["out:ok", f"texts:{len(obs['texts'])}", f"equal-length-options:{has_equal_len(obs)}",
          f"hidden:{any(eg['hidden'] for eg in exp)}", f"files:{len(c['files'])}" + (":" + c["files"][0]["via"] if c["files"] else ""),
          f"inst:{any(r.get('inst') for r in c['regs'])}", f"member-override:{any(eg['g']['over'] for eg in exp)}",
          f"rehelp-texts:{(obs.get('rehelp') or {}).get('n_texts', 0)}",
          f"entries:{min(sum(len(eg['exposed']) for eg in exp), 12)}", f"depth:{max((len(eg['g']['path']) for eg in exp), default=0)}"]
    kinds = {k for eg in exp for f in eg["exposed"] for k in (f.get("help") or {})}
    t += [f"help:{k}" for k in sorted(kinds)]
    t += [f"ty:{ty}" for ty in sorted({f['ty'] for eg in exp for f in eg['exposed']})]
    return t


def shrink(case):
    c = case["case"]
    if case["op"] != "help.entries":
        return
    def mk(**kw):
        return {"op": case["op"], "case": dict(c, **kw)}
    if len(c["regs"]) > 1:
        for i in range(len(c["regs"])):
            regs = c["regs"][:i] + c["regs"][i + 1:]
            keep = {r["dest"] for r in regs}
            files = [dict(f, data={k: v for k, v in f["data"].items() if k in keep}) for f in c["files"]]
            yield mk(regs=regs, files=[f for f in files if f["data"]])
    if c["files"]:
        yield mk(files=[])
        for i in range(len(c["files"])):
            if len(c["files"]) > 1:
                yield mk(files=c["files"][:i] + c["files"][i + 1:])
    for i, r in enumerate(c["regs"]):
        if r.get("inst") is not None and not any(f["k"] == "leaf" and not f.get("default") for f in cls_map(c)[r["cls"]]["fields"]):
            regs = [dict(x) for x in c["regs"]]
            regs[i]["inst"] = None
            yield mk(regs=regs)
        if r["prefix"]:
            regs = [dict(x) for x in c["regs"]]
            regs[i]["prefix"] = ""
            yield mk(regs=regs)
    mentioned = canon([c["files"], [r.get("inst") for r in c["regs"]]])
    for ci, k in enumerate(c["classes"]):
        for fi, f in enumerate(k["fields"]):
            if len(k["fields"]) <= 1 or f'"{f["name"]}"' in mentioned:
                continue
            if any(f["name"] in (m.get("over") or {}) for k2 in c["classes"] for m in k2["fields"] if m["k"] == "dc" and m["cls"] == k["name"]):
                continue
            nc = [dict(x, fields=list(x["fields"])) for x in c["classes"]]
            del nc[ci]["fields"][fi]
            used = {r["cls"] for r in c["regs"]} | {m["cls"] for k2 in nc for m in k2["fields"] if m["k"] == "dc"}
            yield mk(classes=[k2 for k2 in nc if k2["name"] in used])
    if c["cfg"] != CFG0:
        for key in ("gen", "nest", "cr"):
            if c["cfg"][key] != CFG0[key]:
                yield mk(cfg=dict(c["cfg"], **{key: CFG0[key]}))
    if len(c["seeds"]) > 2:
        yield mk(seeds=c["seeds"][:2])


# ------------------------------------------------------------------------------------------------
# open findings


def _print_help_before_config(case, obs, fail, via="ctor"):
    """print_help() before the first parse_args on a parser with config files: the defaults of the argparse actions are
    frozen before the files are applied, so exactly the leaves the files mention come out with their pre-file value
    (or a required field the files provide is demanded).  via="ctor": files given as ArgumentParser(config_path=...);
    via="argv": files named by --config_path on the later command line."""
    c = case["case"]
    variants = ("after_print_help", "after_dash_help") if via == "argv" else ("after_print_help",)
    if fail.get("clause") != "no-side-effect" or fail.get("variant") not in variants or not c["files"]:
        return False
    if {fl["via"] for fl in c["files"]} != {via}:
        return False
    rec = next((r for r in obs.get("side", []) if r["argv"] == fail.get("argv")), None)
    if rec is None or rec["plain"].get("o") != "ok":
        return False
    mentioned = set()
    for fl in c["files"]:
        mentioned |= {k for k, _ in flatten_data(c, fl["data"])}
    w = rec[fail["variant"]]
    if w.get("o") == "ok":
        d = diff_ns(rec["plain"], w)
        return bool(d) and set(d) <= mentioned
    # a required field whose value the files provide is demanded again
    required = {eg["dest"] + "." + f["name"] for eg in expected_groups(c) for f in eg["exposed"] if not f.get("default")}
    return w.get("o") == "exit" and w.get("code") == 2 and "required" in w.get("stderr_tail", "") and bool(required & mentioned)


def _clash_string(obs, fail):
    if fail.get("clause") != "exit0-stdout" or obs["table"]["o"] != "raise" or obs["table"]["exc"] != "ArgumentError":
        return None
    m = re.search(r"conflicting option strings?: ([^\s,]+)", obs["table"].get("msg") or "")
    return m.group(1) if m else None


def _leaf_spellings(case, only_bool=False):
    out = set()
    for k in case["case"]["classes"]:
        for f in k["fields"]:
            if f["k"] == "leaf" and is_exposed(f) and (f["ty"] == "bool" or not only_bool):
                for n in [f["name"]] + [a.lstrip("-") for a in f.get("alias", [])]:
                    out |= {n, n.replace("_", "-")}
    return out


def _help_clash(case, obs, fail):
    """a field or alias spelled h / help: add_argument raises ArgumentError 'conflicting option string: -h' (or --help)
    in the middle of _preprocessing - conflicts.py:144 TODO #49, the root of C03-help-clash"""
    s_ = _clash_string(obs, fail)
    return s_ in ("-h", "--help") and bool(_leaf_spellings(case) & {"h", "help"})


def _negflag_clash(case, obs, fail):
    """the negative flag of a bool field (--no<name>, under any prefix) is already taken by, or taken before, another
    field: the conflict resolver never looks at negative flags, add_argument raises ArgumentError"""
    s_ = _clash_string(obs, fail)
    if not s_:
        return False
    last = s_.lstrip("-").split(".")[-1]
    bools = _leaf_spellings(case, only_bool=True)
    return any(last.startswith("no") and last.endswith(b) and len(last) >= len(b) + 2 for b in bools)


def _subgroup_choice_from_config(case, obs, fail):
    """a config file that mentions a subgroup field: _resolve_subgroups asserts that the argparse default is still the
    declared subgroup default (parsing.py, `assert argument_options["default"] is subgroup_field.subgroup_default`)"""
    c = case["case"]
    if fail.get("clause") != "exit0-stdout" or obs["table"]["o"] != "raise" or obs["table"]["exc"] != "AssertionError":
        return False
    sub = {f["name"] for k in c["classes"] for f in k["fields"] if f["k"] == "subgroups"}
    return any(f'"{n}"' in canon(fl["data"]) for fl in c["files"] for n in sub)


FINDINGS = {"C16-print-help-before-argv-config": lambda case, obs, fail: _print_help_before_config(case, obs, fail, via="argv"),
            "C16-help-clash": _help_clash, "C16-negflag-clash": _negflag_clash,
            "C16-subgroup-choice-from-config": _subgroup_choice_from_config}
