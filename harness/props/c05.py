"""C05 — to_dict/from_dict, JSON, YAML and file round-trips preserve every value and type.

The first part (type grammar / value generators, real-class builders, canonical value trees, hooks) is shared with C13,
which imports it from here.
"""
from __future__ import annotations

import dataclasses
import enum
import itertools
import logging
import os
import pathlib
import warnings
from collections import OrderedDict
from typing import Any, Dict, List, Literal, Optional, Set, Tuple, Union

logging.getLogger("simple_parsing").setLevel(logging.CRITICAL)

_COUNTER = itertools.count()

# ------------------------------------------------------------------------------------------------
# hooks (same table as `hookEnv` in lean/SpVerif/Drive/Serial.lean)

HOOKS = {
    10: lambda v: {"w": v},
    11: lambda v: [v, v],
    12: lambda v: "H",
    14: lambda v: None,
    20: lambda r: r["w"],
    21: lambda r: r[0],
    22: lambda r: 7,
    25: lambda r: "was-none" if r is None else "not-none",
}
ENC_HOOKS = [10, 11, 12, 14]
DEC_FOR_ENC = {10: 20, 11: 21, 14: 25}

# ------------------------------------------------------------------------------------------------
# canonical values (DESIGN Appendix A) ---------------------------------------------------------


def skey(j) -> str:
    """Sort key of a canonical value (same function as `skey` in Drive/Serial.lean)."""
    t = j["t"]
    if t == "none":
        return "N"
    if t == "bool":
        return "B1" if j["v"] else "B0"
    if t == "int":
        return "I" + j["v"]
    if t == "float":
        return "F" + j["v"]
    if t == "str":
        return "S" + j["v"]
    if t == "path":
        return "P" + j["v"]
    if t == "enum":
        return "E" + j["cls"] + "." + j["v"]
    if t == "list":
        return "L[" + ",".join(skey(x) for x in j["v"]) + "]"
    if t == "tuple":
        return "T[" + ",".join(skey(x) for x in j["v"]) + "]"
    if t == "set":
        return "Z[" + ",".join(sorted(skey(x) for x in j["v"])) + "]"
    if t == "dict":
        return "D[" + ",".join(sorted(skey(k) + ":" + skey(v) for k, v in j["v"])) + "]"
    if t == "inst":
        return "C" + j["cls"] + "[" + ",".join(f[0] + "=" + skey(f[1]) for f in j["v"]) + "]"
    return "R" + j.get("py", "")


def spec_name(cls) -> str:
    return cls.__name__.split("__")[0]


def cv(v: Any, norm: bool = False, set_iter: bool = False, meta: bool = False) -> Any:
    """Canonical typed value tree. `norm`: dict entries sorted (dict order is not an observable);
    `set_iter`: sets listed in their real iteration order (input of the encode ops);
    `meta`: instances carry reg + per-field serialization metadata (input of the model)."""
    r = lambda x: cv(x, norm, set_iter, meta)  # noqa: E731
    if v is None:
        return {"t": "none"}
    if isinstance(v, bool):
        return {"t": "bool", "v": v}
    if isinstance(v, enum.Enum):
        return {"t": "enum", "cls": spec_name(type(v)), "v": v.name}
    if isinstance(v, int):
        return {"t": "int", "v": str(v)}
    if isinstance(v, float):
        return {"t": "float", "v": repr(v)}
    if isinstance(v, str):
        return {"t": "str", "v": v}
    if isinstance(v, pathlib.PurePath):
        return {"t": "path", "v": str(v)}
    if isinstance(v, list):
        return {"t": "list", "v": [r(x) for x in v]}
    if isinstance(v, tuple):
        return {"t": "tuple", "v": [r(x) for x in v]}
    if isinstance(v, (set, frozenset)):
        items = [r(x) for x in v]
        return {"t": "set", "v": items if set_iter else sorted(items, key=skey)}
    if isinstance(v, dict):
        items = [[r(k), r(x)] for k, x in v.items()]
        if norm:
            items.sort(key=lambda p: skey(p[0]))
        return {"t": "dict", "odict": isinstance(v, OrderedDict), "v": items}
    if dataclasses.is_dataclass(v) and not isinstance(v, type):
        out = {"t": "inst", "cls": spec_name(type(v))}
        if meta:
            from simple_parsing.helpers.serialization.serializable import SerializableMixin

            out["reg"] = isinstance(v, SerializableMixin)
            out["v"] = [[f.name, r(getattr(v, f.name, None)), _meta_of(f)] for f in dataclasses.fields(v)]
        else:
            out["v"] = [[f.name, r(getattr(v, f.name, None))] for f in dataclasses.fields(v)]
        return out
    return {"t": "raw", "py": type(v).__name__}


def _meta_of(f: dataclasses.Field) -> dict:
    m = {"to_dict": bool(f.metadata.get("to_dict", True))}
    for k, key in (("enc", "encoding_fn"), ("dec", "decoding_fn")):
        fn = f.metadata.get(key)
        if fn is not None:
            hid = getattr(fn, "hook_id", None)
            m[k] = hid if hid is not None else next(i for i, h in HOOKS.items() if h is fn)
    return m


# ------------------------------------------------------------------------------------------------
# building real types / values from the JSON specs ---------------------------------------------


class MyDict(dict):
    """a user-side dict subclass (a Dict field may hold one)"""


class Built:
    """Real typing objects for one case. Classes get a per-process unique suffix (registries are keyed by class)."""

    def __init__(self):
        self.enums: dict[str, type] = {}
        self.classes: dict[str, type] = {}
        self.suffix = f"__{os.getpid()}_{next(_COUNTER)}"
        # typing caches parametrised generics by `==`, and Union[a, b] == Union[b, a]: without this, List[Union[a, b]]
        # could come back as an earlier case's List[Union[b, a]] (cross-case leak of the member order)
        import typing

        for cleanup in getattr(typing, "_cleanups", []):
            cleanup()

    def ty(self, T: dict):
        k = T["k"]
        if k == "int":
            return int
        if k == "float":
            return float
        if k == "str":
            return str
        if k == "bool":
            return bool
        if k == "path":
            return pathlib.Path
        if k == "any":
            return Any
        if k == "none":
            return type(None)
        if k == "enum":
            if T["cls"] not in self.enums:
                vals = T.get("values") or [i + 1 for i in range(len(T["members"]))]
                mixin = {"str": str, "int": int}.get(T.get("mixin"))
                self.enums[T["cls"]] = enum.Enum(T["cls"] + self.suffix, dict(zip(T["members"], vals)), type=mixin)
            return self.enums[T["cls"]]
        if k == "literal":
            return Literal[tuple(self.val(v) for v in T["vals"])]
        if k == "list":
            return List[self.ty(T["item"])]
        if k == "set":
            return Set[self.ty(T["item"])]
        if k == "vtuple":
            return Tuple[self.ty(T["item"]), ...]
        if k == "tuple":
            items = tuple(self.ty(t) for t in T["items"])
            return Tuple[items] if items else Tuple[()]
        if k == "dict":
            return Dict[self.ty(T["key"]), self.ty(T["val"])]
        if k == "opt":
            return Optional[self.ty(T["inner"])]
        if k == "union":
            return Union[tuple(self.ty(t) for t in T["alts"])]
        if k == "dc":
            return self.cls(T)
        raise ValueError(k)

    def hook(self, cls_name: str, field_name: str, kind: str, hid: int):
        """The callable attached as encoding_fn / decoding_fn (subclasses may wrap it, e.g. to count calls)."""
        return HOOKS[hid]

    def cls(self, T: dict):
        name = T["cls"]
        if name in self.classes:
            return self.classes[name]
        from simple_parsing.helpers import FrozenSerializable, Serializable, field

        flds = []
        for f in T["fields"]:
            kw: dict = {}
            fty = self.ty(f["ty"])
            if not f.get("to_dict", True):
                kw["to_dict"] = False
            if f.get("enc") is not None:
                kw["encoding_fn"] = self.hook(name, f["name"], "enc", f["enc"])
            if f.get("dec") is not None:
                kw["decoding_fn"] = self.hook(name, f["name"], "dec", f["dec"])
            d = f.get("default")
            if d is not None:
                if d["t"] in ("list", "set", "dict", "inst"):
                    kw["default_factory"] = (lambda dd: (lambda: self.val(dd)))(d)
                else:
                    kw["default"] = self.val(d)
            flds.append((f["name"], fty, field(**kw)))
        base = T.get("base", "plain")
        bases = {"Serializable": (Serializable,), "Frozen": (FrozenSerializable,), "plain": ()}[base]
        with warnings.catch_warnings():
            warnings.simplefilter("ignore")
            c = dataclasses.make_dataclass(name + self.suffix, flds, bases=bases, frozen=(base == "Frozen"), kw_only=True)
        self.classes[name] = c
        return c

    def val(self, V: dict):
        t = V["t"]
        if t == "none":
            return None
        if t == "bool":
            return V["v"]
        if t == "int":
            return int(V["v"])
        if t == "float":
            return float(V["v"])
        if t == "str":
            return V["v"]
        if t == "path":
            return pathlib.Path(V["v"])
        if t == "enum":
            if V["cls"] not in self.enums:
                self.ty(next(enum_type(e) for e in ENUMS if e[0] == V["cls"]))
            return self.enums[V["cls"]][V["v"]]
        if t == "list":
            return [self.val(x) for x in V["v"]]
        if t == "tuple":
            return tuple(self.val(x) for x in V["v"])
        if t == "set":
            return {self.val(x) for x in V["v"]}
        if t == "dict":
            d = OrderedDict() if V.get("odict") else {}
            for k, x in V["v"]:
                d[self.val(k)] = self.val(x)
            m = V.get("mapping")
            if m == "mydict":
                return MyDict(d)
            if m == "defaultdict":
                import collections

                return collections.defaultdict(list, d)
            if m == "counter":
                import collections

                return collections.Counter(d)
            return d
        if t == "inst":
            c = self.classes[V["cls"]]
            return c(**{f[0]: self.val(f[1]) for f in V["v"]})
        raise ValueError(t)

    def declare(self, T: dict):
        """Create every enum / class mentioned in T (so values can be built)."""
        self.ty(T)


# ------------------------------------------------------------------------------------------------
# real source modules (postponed annotations; user types named like things `typing` exports) ------

TYPING_ENUM_NAMES = ["Type", "Text", "Pattern", "Match", "Final", "Color", "Level"]
TYPING_CLASS_NAMES = ["Container", "Counter", "Collection", "Mapping", "Sequence", "Iterable", "Generic", "Hashable",
                      "Item", "Config"]
SRC_HEADER = """import enum
from dataclasses import dataclass, field
from pathlib import Path
from typing import Dict, List, Optional, Set, Tuple

from simple_parsing.helpers import FrozenSerializable, Serializable
"""


def rename_cls(j, mapping):
    """Rename classes / enums consistently in a type spec or a value."""
    if isinstance(j, dict):
        out = {k: rename_cls(v, mapping) for k, v in j.items()}
        if isinstance(j.get("cls"), str) and j["cls"] in mapping:
            out["cls"] = mapping[j["cls"]]
        return out
    if isinstance(j, list):
        return [rename_cls(x, mapping) for x in j]
    return j


def render_annotation(T, builtin_generics: bool) -> str:
    k = T["k"]
    r = lambda t: render_annotation(t, builtin_generics)  # noqa: E731
    if k in ("int", "float", "str", "bool"):
        return k
    if k == "path":
        return "Path"
    if k in ("enum", "dc"):
        return T["cls"]
    if k == "list":
        return f"list[{r(T['item'])}]" if builtin_generics else f"List[{r(T['item'])}]"
    if k == "set":
        return f"Set[{r(T['item'])}]"
    if k == "vtuple":
        return f"Tuple[{r(T['item'])}, ...]"
    if k == "tuple":
        return "Tuple[" + ", ".join(r(t) for t in T["items"]) + "]" if T["items"] else "Tuple[()]"
    if k == "dict":
        return (f"dict[{r(T['key'])}, {r(T['val'])}]" if builtin_generics else f"Dict[{r(T['key'])}, {r(T['val'])}]")
    if k == "opt":
        return f"Optional[{r(T['inner'])}]"
    raise ValueError(f"no source rendering for {k}")


def render_module(T, postponed: bool, builtin_generics: bool) -> str:
    """Source of a module that defines every enum / dataclass of the tree T (dependencies first)."""
    enums, classes = {}, {}

    def walk(t):
        k = t["k"]
        if k == "enum":
            enums.setdefault(t["cls"], t)
        for sub in ("item", "inner", "key", "val"):
            if sub in t:
                walk(t[sub])
        for u in t.get("items", []):
            walk(u)
        if k == "dc":
            for f in t["fields"]:
                walk(f["ty"])
            classes.setdefault(t["cls"], t)

    walk(T)
    out = (["from __future__ import annotations", ""] if postponed else []) + [SRC_HEADER, ""]
    for name, e in enums.items():
        vals = e.get("values") or [i + 1 for i in range(len(e["members"]))]
        out.append(f"class {name}(" + {"str": "str, ", "int": "int, "}.get(e.get("mixin"), "") + "enum.Enum):")
        out += [f"    {m} = {v!r}" for m, v in zip(e["members"], vals)]
        out.append("")
    for name, c in classes.items():
        base = c.get("base", "plain")
        out.append("@dataclass(frozen=True, kw_only=True)" if base == "Frozen" else "@dataclass(kw_only=True)")
        out.append(f"class {name}" + {"Serializable": "(Serializable)", "Frozen": "(FrozenSerializable)", "plain": ""}[base] + ":")
        if not c["fields"]:
            out.append("    pass")
        for f in c["fields"]:
            out.append(f"    {f['name']}: {render_annotation(f['ty'], builtin_generics)}")
        out.append("")
    return "\n".join(out) + "\n"


class SrcBuilt(Built):
    """The classes of a case, defined by a real source module written to `directory` and imported."""

    def __init__(self, T, src: dict, directory: str):
        import importlib
        import sys

        super().__init__()
        self.suffix = "\x00no-suffix"
        self.modname = f"spv_src_{os.getpid()}_{next(_COUNTER)}"
        self.directory = directory
        with open(os.path.join(directory, self.modname + ".py"), "w", encoding="utf-8") as fh:
            fh.write(render_module(T, src.get("postponed", True), src.get("builtin_generics", True)))
        sys.path.insert(0, directory)
        try:
            with warnings.catch_warnings():
                warnings.simplefilter("ignore")
                self.module = importlib.import_module(self.modname)
        finally:
            sys.path.remove(directory)
        for name, obj in vars(self.module).items():
            if isinstance(obj, type) and obj.__module__ == self.modname:
                (self.enums if issubclass(obj, enum.Enum) else self.classes)[name] = obj

    def close(self):
        import sys

        sys.modules.pop(self.modname, None)


def gen_src_case(rng, depth):
    """A class tree for a generated source module: no Union / Literal / hooks / defaults, user types renamed to names
    that `typing` also exports (Type, Text, Container, Counter, ...)."""
    ctx = Ctx(rng)
    ctx.src_mode = True
    T = gen_class(ctx, depth, base=rng.choice(["Serializable", "Serializable", "Frozen", "plain"]))
    cls_names = rng.sample(TYPING_CLASS_NAMES, min(ctx.n_cls, len(TYPING_CLASS_NAMES)))
    mapping = {f"K{i + 1}": (cls_names[i] if i < len(cls_names) else f"K{i + 1}") for i in range(ctx.n_cls)}
    mapping.update(dict(zip([e[0] for e in ENUMS], rng.sample(TYPING_ENUM_NAMES, len(ENUMS)))))

    def strip_defaults(t):
        if isinstance(t, dict):
            t = {k: strip_defaults(v) for k, v in t.items()}
            if "fields" in t:
                t["fields"] = [dict(f, default=None) for f in t["fields"]]
            return t
        if isinstance(t, list):
            return [strip_defaults(x) for x in t]
        return t

    T = strip_defaults(rename_cls(T, mapping))
    x = gen_value(rng, T)
    return T, x, {"postponed": rng.random() < 0.85, "builtin_generics": rng.random() < 0.5}


def collect_enums(T: dict, b: Built):
    b.declare(T)


# ------------------------------------------------------------------------------------------------
# generators ------------------------------------------------------------------------------------

INTS = [0, 1, -1, 2, 7, -5, 12, 255, -300, 10**9 + 7, 2**63, -(2**64), 10**18, 10**40, -(10**40) + 3,
        # beyond the float range, on BOTH sides (fa1139b: `_decode_int` must not let float(v) overflow)
        2**1024, -(2**1024), -(2**1024) - 7, 10**400, -(10**400), -(3**700)]
FLOATS = ["0.0", "-0.0", "1.5", "-2.25", "1e-07", "1e+16", "3.141592653589793", "inf", "-inf", "1e+300", "5e-324", "100.0",
          "0.1", "-0.5", "2.0", "123456.789"]
STRS = ["", "a", "hello world", "12", "yes", "None", "null", "é", "日本語", "a\nb", " x ", "1.5", "true", "[1]", "ключ",
        "~", "0x10", "1e3", "#c", "- a", "a: b", "'q'", '"', "\\", "-7", "off", "N", "x" * 40, "tab\there", "{}", "a,b"] + [
    # text the YAML / JSON writers treat specially: line-break-like and invisible characters (NEL, LS, PS, NBSP, BOM, DEL),
    # a lone CR / TAB, leading / trailing blanks, non-BMP, and strings that look like other YAML scalars
    "first\x85second", "\x85", "a\u2028b", "\u2029", "x\u00a0y", "\ufeffbom", "del\x7f", "\t", "\tlead", "a\rb", "\r",
    " lead", "trail ", "  ", "line1\nline2\n", "\n", "\U0001F600", "smile \U0001F600 end", "中", "2001-01-01", "1:30", "---", "...",
    "? q", "!tag", "&a", "*a", "%d", "@at", "`bq", "|", ">", "no", "on", "0o17", ".inf", ".nan", "1_000", "+1", "0.5e-3", "=",
]
PATHS = ["a", "a/b", "/tmp/x", ".", "..", "/", "rel/ü.txt", "//net/x", "a b/c", "../up", "/usr/lib/python3"]
# (name, members, mix-in, values): `class Level(str, Enum)` (NONE is falsy) and an int-mixed Enum (P0 is falsy) have members
# that are also str / int instances
ENUMS = [("Color", ["RED", "GREEN", "BLUE"], None, None), ("Mode", ["A", "B"], None, None),
         ("Lvl", ["LOW", "MID", "HIGH", "X1"], None, None),
         ("Level", ["LOW", "MID", "HIGH", "NONE"], "str", ["low", "mid", "high", ""]),
         ("Prio", ["P0", "P1", "P2"], "int", [0, 1, 2])]


def enum_type(e):
    name, members, mixin, values = e
    t = T_("enum", cls=name, members=members)
    if mixin:
        t.update(mixin=mixin, values=values)
    return t
LITERALS = [
    [{"t": "str", "v": "a"}, {"t": "str", "v": "b"}],
    [{"t": "int", "v": "1"}, {"t": "int", "v": "2"}, {"t": "int", "v": "3"}],
    [{"t": "str", "v": "fast"}, {"t": "str", "v": "slow"}, {"t": "str", "v": "12"}],
    [{"t": "int", "v": "0"}, {"t": "str", "v": "auto"}],
    [{"t": "bool", "v": True}, {"t": "str", "v": "x"}],
]
FIELD_NAMES = ["a", "b", "c", "d", "e", "name", "x1", "val", "items", "cfg"]


def T_(k, **kw):
    return dict(k=k, **kw)


def gen_leaf(rng, hashable_only=False, key=False, no_literal=False):
    kinds = ["int", "str", "bool", "enum", "path"] if key else (
        ["int", "str", "bool", "enum", "path", "float"] if hashable_only else
        (["int", "int", "str", "str", "bool", "float", "enum", "enum", "path"] if no_literal else
         ["int", "int", "str", "str", "bool", "float", "enum", "path", "literal"]))
    k = rng.choice(kinds)
    if k == "enum":
        return enum_type(rng.choice(ENUMS))
    if k == "literal":
        return T_("literal", vals=rng.choice(LITERALS))
    return T_(k)


def gen_hashable_type(rng, depth):
    if depth > 0 and rng.random() < 0.25:
        if rng.random() < 0.5:
            return T_("vtuple", item=gen_leaf(rng, hashable_only=True))
        return T_("tuple", items=[gen_leaf(rng, hashable_only=True) for _ in range(rng.randrange(1, 4))])
    return gen_leaf(rng, hashable_only=True)


class Ctx:
    def __init__(self, rng, allow_tuple_keys=False, allow_hooks=False, allow_hidden=False):
        self.rng = rng
        self.n_cls = 0
        self.unions = {}
        self.src_mode = False   # source-module stream: no Union / Literal, more enums and nested classes
        self.allow_tuple_keys = allow_tuple_keys
        self.allow_hooks = allow_hooks
        self.allow_hidden = allow_hidden

    def fresh_cls(self):
        self.n_cls += 1
        return f"K{self.n_cls}"


def gen_union(rng, ctx=None):
    prims = ["int", "float", "str", "bool"]
    n = rng.choice([2, 2, 2, 3])
    alts = [T_(k) for k in rng.sample(prims, n)]
    if rng.random() < 0.3:
        alts.insert(rng.randrange(len(alts) + 1), T_("none"))
    if ctx is not None:
        # typing caches List[Union[a, b]] by `==` and Union[a, b] == Union[b, a]: inside one process state the first member
        # order wins, so one case uses one order per member set (the spec must say what the real annotation is)
        key = frozenset(a["k"] for a in alts)
        alts = ctx.unions.setdefault(key, alts)
    return T_("union", alts=alts)


def make_opt(T, ctx=None):
    """Optional[T] as typing builds it: nested Unions are flattened, Optional[Optional[T]] = Optional[T]."""
    if T["k"] == "opt":
        return T
    if T["k"] == "union":
        if any(a["k"] == "none" for a in T["alts"]):
            return T
        alts = T["alts"] + [T_("none")]
        if ctx is not None:
            alts = ctx.unions.setdefault(frozenset(a["k"] for a in alts), alts)
        return T_("union", alts=alts)
    return T_("opt", inner=T)


def gen_type(ctx: Ctx, depth: int):
    rng = ctx.rng
    if depth <= 0:
        return gen_leaf(rng, no_literal=ctx.src_mode)
    r = rng.random()
    if r < 0.25 or (ctx.src_mode and 0.33 <= r < 0.40):
        return gen_leaf(rng, no_literal=ctx.src_mode)
    if r < 0.33:
        return make_opt(gen_type(ctx, depth - 1), ctx)
    if r < 0.40:
        return gen_union(rng, ctx)
    if r < 0.52:
        return T_("list", item=gen_type(ctx, depth - 1))
    if r < 0.60:
        return T_("tuple", items=[gen_type(ctx, depth - 1) for _ in range(rng.choice([0, 1, 2, 2, 3]))])
    if r < 0.66:
        return T_("vtuple", item=gen_type(ctx, depth - 1))
    if r < 0.73:
        return T_("set", item=gen_hashable_type(rng, depth - 1))
    if r < 0.85:
        if ctx.allow_tuple_keys and rng.random() < 0.15:
            kt = T_("tuple", items=[T_("int"), rng.choice([T_("int"), T_("str")])])
        else:
            kt = gen_leaf(rng, key=True)
        return T_("dict", key=kt, val=gen_type(ctx, depth - 1))
    # dataclass-bearing shapes
    dc = gen_class(ctx, depth - 1)
    s = rng.random()
    if s < 0.4:
        return dc
    if s < 0.6:
        return make_opt(dc, ctx)
    if s < 0.8:
        return T_("list", item=dc)
    return T_("dict", key=T_("str"), val=dc)


def gen_class(ctx: Ctx, depth: int, n_fields=None, base=None):
    rng = ctx.rng
    name = ctx.fresh_cls()
    # (a class without fields, p = 0.05 — not at the top of a case — e.g. as Optional[Empty]: its dict `{}` is falsy)
    n = n_fields if n_fields is not None else (0 if (ctx.n_cls > 1 and rng.random() < 0.05) else rng.choice([1, 2, 2, 3, 3, 4]))
    names = rng.sample(FIELD_NAMES, n)
    fields = []
    for fname in names:
        ty = gen_type(ctx, depth)
        f = {"name": fname, "ty": ty, "to_dict": True, "enc": None, "dec": None, "default": None}
        if rng.random() < 0.5:
            f["default"] = gen_value(rng, ty)
        if ctx.allow_hidden and f["default"] is not None and rng.random() < 0.3:
            f["to_dict"] = False
        # hooks are drawn independently of to_dict=False: one field may carry both
        if ctx.allow_hooks and ty["k"] in ("int", "str", "bool", "float") and rng.random() < 0.35:
            e = rng.choice(ENC_HOOKS)
            f["enc"] = e
            f["dec"] = DEC_FOR_ENC.get(e, 22) if rng.random() < 0.8 else None
        elif ctx.allow_hooks and ty["k"] in ("int",) and rng.random() < 0.1:
            f["dec"] = 22
        fields.append(f)
    base = base or rng.choice(["Serializable", "Serializable", "Frozen", "plain"])
    return T_("dc", cls=name, base=base, reg=(base != "plain"), fields=fields)


def V_int(n):
    return {"t": "int", "v": str(n)}


def gen_value(rng, T: dict):
    k = T["k"]
    if k == "int":
        return V_int(rng.choice(INTS) if rng.random() < 0.7 else rng.randrange(-1000, 1000))
    if k == "float":
        return {"t": "float", "v": rng.choice(FLOATS)}
    if k == "str":
        return {"t": "str", "v": rng.choice(STRS)}
    if k == "bool":
        return {"t": "bool", "v": rng.random() < 0.5}
    if k == "path":
        return {"t": "path", "v": rng.choice(PATHS)}
    if k == "enum":
        return {"t": "enum", "cls": T["cls"], "v": rng.choice(T["members"])}
    if k == "literal":
        return rng.choice(T["vals"])
    if k == "none":
        return {"t": "none"}
    if k == "opt":
        return {"t": "none"} if rng.random() < 0.3 else gen_value(rng, T["inner"])
    if k == "union":
        return gen_value(rng, rng.choice(T["alts"]))
    if k == "list":
        return {"t": "list", "v": [gen_value(rng, T["item"]) for _ in range(rng.choice([0, 1, 2, 2, 3]))]}
    if k == "vtuple":
        return {"t": "tuple", "v": [gen_value(rng, T["item"]) for _ in range(rng.choice([0, 1, 2, 3]))]}
    if k == "tuple":
        return {"t": "tuple", "v": [gen_value(rng, t) for t in T["items"]]}
    if k == "set":
        items = {}
        for _ in range(rng.choice([0, 1, 2, 3, 4])):
            v = gen_value(rng, T["item"])
            items.setdefault(pykey(v), v)
        return {"t": "set", "v": sorted(items.values(), key=skey)}
    if k == "dict":
        items = {}
        for _ in range(rng.choice([0, 1, 2, 2, 3])):
            kv = gen_value(rng, T["key"])
            items.setdefault(pykey(kv), [kv, gen_value(rng, T["val"])])
        # a Dict field may hold a collections.OrderedDict (p = 0.1)
        out = {"t": "dict", "odict": bool(items) and rng.random() < 0.1, "v": list(items.values())}
        if items and not out["odict"] and rng.random() < 0.15:
            # other Mapping types a Dict field may hold: a user dict subclass, a defaultdict, a Counter (int values)
            out["mapping"] = rng.choice(["mydict", "defaultdict"] + (["counter", "counter"] if T["val"]["k"] == "int" else []))
        return out
    if k == "dc":
        return {"t": "inst", "cls": T["cls"], "v": [[f["name"], gen_value(rng, f["ty"])] for f in T["fields"]]}
    raise ValueError(k)


def pykey(V):
    """Identity of a canonical value under Python `==`/hash (for building duplicate-free sets / dict keys)."""
    t = V["t"]
    if t == "float":
        f = float(V["v"])
        return ("num", f)
    if t == "int":
        return ("num", int(V["v"]))
    if t == "bool":
        return ("num", int(V["v"]))
    if t == "tuple":
        return ("tuple", tuple(pykey(x) for x in V["v"]))
    return (t, V.get("cls"), V.get("v") if not isinstance(V.get("v"), list) else skey(V))


def type_depth(T):
    k = T["k"]
    if k in ("list", "set", "vtuple"):
        return 1 + type_depth(T["item"])
    if k == "opt":
        return 1 + type_depth(T["inner"])
    if k == "tuple":
        return 1 + max([type_depth(t) for t in T["items"]] or [0])
    if k == "union":
        return 1
    if k == "dict":
        return 1 + max(type_depth(T["key"]), type_depth(T["val"]))
    if k == "dc":
        return 1 + max([type_depth(f["ty"]) for f in T["fields"]] or [0])
    return 0


def type_kinds(T, acc=None):
    acc = acc if acc is not None else set()
    k = T["k"]
    acc.add(k)
    for sub in ("item", "inner", "key", "val"):
        if sub in T:
            type_kinds(T[sub], acc)
    for t in T.get("items", []) + T.get("alts", []):
        type_kinds(t, acc)
    for f in T.get("fields", []):
        type_kinds(f["ty"], acc)
    if k == "dc":
        acc.add("base:" + T.get("base", "plain"))
    if k == "dict" and T["key"]["k"] in ("tuple", "vtuple"):
        acc.add("dict-tuple-key")
    return acc


# ================================================================================================
# C05 proper
# ================================================================================================

PID = "C05"
RULE = ("cases: (a) ser.route — a generated dataclass tree (Serializable / FrozenSerializable / plain; fields over the C05 type "
        "grammar nested to depth <= 3 quick / 4 thorough; enums include a str-mixed `class Level(str, Enum)` with a falsy member and an "
        "int-mixed one, as fields, list/tuple/set items, dict keys/values and inside nested classes) with a generated instance, sent through all seven real routes "
        "(to_dict/from_dict, dumps_json/loads_json, dumps_yaml/loads_yaml, save/load x .json/.yaml/.yml/.pkl in a temp dir); "
        "(a') the same through a generated real source module (unique module name, per-case temp dir) with `from __future__ import "
        "annotations`, user enums / dataclasses named like things `typing` exports (Type, Text, Container, Counter, ...), list[...] / List[...]; "
        "(b) ser.decode lenient — the generator's own plain encoding of the same instance with ints/floats/bools at "
        "int/float/bool-typed positions rewritten as strings, decoded with the real from_dict; (c) ser.decode union-member — a "
        "primitive that is an instance of one Union member given to the real Union decoder (must come back unchanged), and primitives "
        "of a non-member type (correspondence only: members are tried in declaration order); (d) ser.decode malformed — random "
        "raw values against random types (correspondence only); (e) ser.encode / ser.todict unit cases. Non-trivial = a route or "
        "lenient case whose class has >= 2 fields or a container/nested field, or a unit case on a container; distinct by canonical JSON.")
ASSUMPTIONS = [
    "ints on the JSON / YAML text routes have at most 4300 decimal digits (CPython's sys.int_max_str_digits: dumps_json / "
    "dumps_yaml raise ValueError beyond it; the dict / pickle routes have no limit) - the model's jsonTr / yamlTr accept every int",
    "json.dumps/json.loads, yaml.dump/yaml.safe_load and pickle are faithful on dict/list/str/int/float/bool/None values "
    "(yaml up to dict key order); exercised by every route case",
    "float parsing/printing (float(), repr) is Python's; the model carries floats as their repr",
    "NaN is excluded (not equal to itself)",
]
TRUSTED = ["stdlib json, pickle, pathlib; PyYAML"]
EXHAUSTIVE = {"quick": False, "thorough": False}
THOROUGH_ROUNDS = 3   # thorough tier: this many generator passes with derived PRNG states (vcheck)
ROUTES = ["dict", "json", "yaml", "f.json", "f.yaml", "f.yml", "f.pkl"]


# ------------------------------------------------------------------------------------------------
# generator-side plain encoding (independent of the code and of the model): what a faithful writer stores


def plain_encoding(V):
    t = V["t"]
    if t in ("none", "bool", "int", "float", "str"):
        return V
    if t == "path":
        return {"t": "str", "v": V["v"]}
    if t == "enum":
        return {"t": "str", "v": V["v"]}
    if t in ("list", "tuple", "set"):
        return {"t": "list", "v": [plain_encoding(x) for x in V["v"]]}
    if t == "dict":
        return {"t": "dict", "odict": False, "v": [[plain_encoding(k), plain_encoding(x)] for k, x in V["v"]]}
    if t == "inst":
        return {"t": "dict", "odict": False, "v": [[{"t": "str", "v": f[0]}, plain_encoding(f[1])] for f in V["v"]]}
    raise ValueError(t)


TRUE_WORDS = ["true", "True", "yes", "1", "Y", "t"]
FALSE_WORDS = ["false", "False", "no", "0", "N", "f"]


def lenient(rng, T, V, p=0.6):
    """Type-directed loosening of the plain encoding of V (declared type T)."""
    k, t = T["k"], V["t"]
    if k == "int" and t == "int" and rng.random() < p:
        return {"t": "str", "v": rng.choice(["", " ", "+"] if int(V["v"]) >= 0 else [""]) + V["v"] + rng.choice(["", "", " "])}
    if k == "float" and t == "float" and rng.random() < p:
        return {"t": "str", "v": V["v"]}
    if k == "bool" and t == "bool" and rng.random() < p:
        return {"t": "str", "v": rng.choice(TRUE_WORDS if V["v"] else FALSE_WORDS)}
    if k == "opt":
        return {"t": "none"} if t == "none" else lenient(rng, T["inner"], V, p)
    if k in ("list", "vtuple", "set") and t in ("list", "tuple", "set"):
        return {"t": "list", "v": [lenient(rng, T["item"], x, p) for x in V["v"]]}
    if k == "tuple" and t == "tuple":
        return {"t": "list", "v": [lenient(rng, ti, x, p) for ti, x in zip(T["items"], V["v"])]}
    if k == "dict" and t == "dict":
        return {"t": "dict", "odict": False,
                "v": [[lenient(rng, T["key"], kk, p), lenient(rng, T["val"], x, p)] for kk, x in V["v"]]}
    if k == "dc" and t == "inst":
        tys = {f["name"]: f["ty"] for f in T["fields"]}
        return {"t": "dict", "odict": False,
                "v": [[{"t": "str", "v": f[0]}, lenient(rng, tys[f[0]], f[1], p)] for f in V["v"]]}
    return plain_encoding(V)


def has_kind(T, pred):
    if pred(T):
        return True
    for sub in ("item", "inner", "key", "val"):
        if sub in T and has_kind(T[sub], pred):
            return True
    return any(has_kind(t, pred) for t in T.get("items", []) + T.get("alts", [])) or any(
        has_kind(f["ty"], pred) for f in T.get("fields", []))


RAW_POOL = [
    {"t": "enum", "cls": "Level", "v": "NONE"}, {"t": "enum", "cls": "Prio", "v": "P0"}, {"t": "enum", "cls": "Level", "v": "LOW"},
    {"t": "none"}, {"t": "bool", "v": True}, {"t": "bool", "v": False}, V_int(0), V_int(1), V_int(5), V_int(-3),
    {"t": "float", "v": "2.0"}, {"t": "float", "v": "2.5"}, {"t": "float", "v": "inf"}, {"t": "float", "v": "nan"},
    {"t": "str", "v": "12"}, {"t": "str", "v": " 7 "}, {"t": "str", "v": "1_0"}, {"t": "str", "v": "2.5"}, {"t": "str", "v": "abc"},
    {"t": "str", "v": ""}, {"t": "str", "v": "yes"}, {"t": "str", "v": "RED"}, {"t": "str", "v": "a"}, {"t": "str", "v": "ab"},
    {"t": "str", "v": "a//b/./c/"}, {"t": "str", "v": "///x"}, {"t": "str", "v": "inf"}, {"t": "str", "v": "-1.50"},
    {"t": "str", "v": "1e3"}, {"t": "str", "v": "+4"}, {"t": "str", "v": "--4"}, {"t": "str", "v": "0.5"},
    {"t": "path", "v": "p/q"}, {"t": "enum", "cls": "Color", "v": "RED"},
]


def gen_raw(rng, depth):
    r = rng.random()
    if depth <= 0 or r < 0.45:
        return rng.choice(RAW_POOL)
    if r < 0.65:
        return {"t": "list", "v": [gen_raw(rng, depth - 1) for _ in range(rng.choice([0, 1, 2, 3]))]}
    if r < 0.75:
        return {"t": "tuple", "v": [gen_raw(rng, depth - 1) for _ in range(rng.choice([0, 1, 2, 3]))]}
    if r < 0.92:
        keys = rng.sample(["a", "b", "c", "name", "1", "w", "RED", "true"], rng.choice([0, 1, 2, 3]))
        keyv = [{"t": "str", "v": k} if rng.random() < 0.8 else rng.choice([V_int(1), V_int(2), {"t": "bool", "v": True}]) for k in keys]
        seen, items = set(), []
        for kv in keyv:
            if pykey(kv) not in seen:
                seen.add(pykey(kv))
                items.append([kv, gen_raw(rng, depth - 1)])
        return {"t": "dict", "odict": False, "v": items}
    items = {}
    for _ in range(rng.choice([0, 1, 2])):
        v = rng.choice([x for x in RAW_POOL if x["t"] in ("int", "str", "bool")])
        items.setdefault(pykey(v), v)
    return {"t": "set", "v": sorted(items.values(), key=skey)}


def gen(rng, tier):
    quick = tier == "quick"
    n_route = 260 if quick else 9000
    max_depth = 3 if quick else 4
    for i in range(n_route):
        ctx = Ctx(rng, allow_tuple_keys=True)
        depth = rng.choice([0, 1, 1, 2, 2, max_depth - 1])
        T = gen_class(ctx, depth, base=rng.choice(["Serializable", "Serializable", "Frozen", "plain"]))
        x = gen_value(rng, T)
        yield {"op": "ser.route", "case": {"ty": T, "x": x}}
        if i % 2 == 0 and not has_kind(T, lambda t: t["k"] == "dict" and t["key"]["k"] in ("tuple", "vtuple")):
            yield {"op": "ser.decode", "case": {"kind": "lenient", "ty": T, "raw": lenient(rng, T, x), "expect": x}}
    # real source modules with postponed annotations and user types named like `typing` exports
    n_src = 120 if quick else 2500
    for _ in range(n_src):
        T, x, src = gen_src_case(rng, rng.choice([0, 1, 1, 2, 2]))
        if has_kind(T, lambda t: t["k"] == "dict" and t["key"]["k"] in ("tuple", "vtuple")):
            continue
        yield {"op": "ser.route", "case": {"ty": T, "x": x, "src": src}}
    # a very large int (beyond the float range) in an int field
    for n in ([2**1024] if quick else [2**1024, -(2**1024), 10**400, 2**1024 - 2**970, 2**1024 - 2**970 - 1]):
        T = T_("dc", cls="K1", base="Serializable", reg=True,
               fields=[{"name": "a", "ty": T_("int"), "to_dict": True, "enc": None, "dec": None, "default": None}])
        yield {"op": "ser.route", "case": {"ty": T, "x": {"t": "inst", "cls": "K1", "v": [["a", V_int(n)]]}}}
    # (c) union members
    prim_vals = {"int": [V_int(n) for n in (0, 1, 5, -3, 12)], "float": [{"t": "float", "v": f} for f in ("2.0", "2.5", "0.0", "inf")],
                 "str": [{"t": "str", "v": s} for s in ("12", "abc", "yes", "", "1.5", "None", "true", "é")],
                 "bool": [{"t": "bool", "v": True}, {"t": "bool", "v": False}]}
    n_union = 150 if quick else 2500
    for _ in range(n_union):
        U = gen_union(rng)
        member = rng.choice(U["alts"])
        raw = {"t": "none"} if member["k"] == "none" else rng.choice(prim_vals[member["k"]])
        yield {"op": "ser.decode", "case": {"kind": "union-member", "ty": U, "raw": raw, "expect": raw}}
    # (c') raw primitives whose exact type is NOT a member: they go through the members in declaration order
    #      (correspondence only — the property does not say what they become)
    for _ in range(150 if quick else 2500):
        U = gen_union(rng)
        members = {a["k"] for a in U["alts"]}
        others = [k for k in prim_vals if k not in members]
        if not others:
            continue
        yield {"op": "ser.decode", "case": {"kind": "union-nonmember", "ty": U, "raw": rng.choice(prim_vals[rng.choice(others)])}}
    # (c'') Unions with a non-primitive member (Enum / Path / List): outside the property's "Union of primitives", members are
    #       tried in declaration order — lossy cases are the open finding C05-union-nonprim-order
    COL = enum_type(ENUMS[0])
    nonprim_unions = [
        ([COL, T_("str")], [{"t": "str", "v": "RED"}, {"t": "str", "v": "abc"}, {"t": "enum", "cls": "Color", "v": "BLUE"}]),
        ([T_("str"), COL], [{"t": "enum", "cls": "Color", "v": "RED"}, {"t": "str", "v": "RED"}]),
        ([T_("str"), T_("path")], [{"t": "path", "v": "a/b"}, {"t": "str", "v": "a"}]),
        ([T_("path"), T_("str")], [{"t": "str", "v": "a"}, {"t": "path", "v": "a/b"}]),
        ([T_("path"), T_("list", item=T_("int"))], [{"t": "list", "v": [V_int(1), V_int(2)]}, {"t": "path", "v": "p"}]),
        ([T_("int"), T_("list", item=T_("int")), T_("none")], [{"t": "list", "v": [V_int(3)]}, V_int(4), {"t": "none"}]),
    ]
    for _ in range(40 if quick else 600):
        alts, vals = rng.choice(nonprim_unions)
        U = T_("union", alts=alts)
        T = T_("dc", cls="K1", base=rng.choice(["Serializable", "plain"]), reg=True,
               fields=[{"name": "u", "ty": U, "to_dict": True, "enc": None, "dec": None, "default": None}])
        T["reg"] = T["base"] != "plain"
        yield {"op": "ser.route", "case": {"ty": T, "x": {"t": "inst", "cls": "K1", "v": [["u", rng.choice(vals)]]}}}
    # (d) malformed stream
    n_mal = 500 if quick else 12000
    for _ in range(n_mal):
        ctx = Ctx(rng, allow_tuple_keys=True)
        T = gen_type(ctx, rng.choice([0, 1, 1, 2]))
        if rng.random() < 0.15:
            T = T_("any") if rng.random() < 0.3 else T_("list", item=T_("any"))
        yield {"op": "ser.decode", "case": {"kind": "malformed", "ty": T, "raw": gen_raw(rng, rng.choice([0, 1, 2]))}}
    # (e) encode / to_dict units
    n_unit = 200 if quick else 5000
    for _ in range(n_unit):
        ctx = Ctx(rng, allow_tuple_keys=True, allow_hooks=True, allow_hidden=True)
        T = gen_class(ctx, rng.choice([0, 1, 2])) if rng.random() < 0.5 else gen_type(ctx, rng.choice([1, 2, 3]))
        v = gen_value(rng, T)
        yield {"op": "ser.encode", "case": {"ty": T, "v": v}}
        if T["k"] == "dc":
            yield {"op": "ser.todict", "case": {"ty": T, "x": v}}


# ------------------------------------------------------------------------------------------------
# real code


def _outcome(fn, norm=False):
    try:
        with warnings.catch_warnings():
            warnings.simplefilter("ignore")
            v = fn()
    except Exception as e:  # noqa: BLE001  (exceptions of the code under test are outcomes)
        return {"o": "raise", "exc": type(e).__name__}, None
    return {"o": "ok", "v": cv(v, norm=norm)}, v


def _routes(cls, x, tmp):
    """The seven real routes. Serializable classes go through their methods, plain ones through the functions."""
    from simple_parsing.helpers.serialization import serializable as S

    meth = isinstance(x, S.SerializableMixin)

    def r_dict():
        return cls.from_dict(x.to_dict()) if meth else S.from_dict(cls, S.to_dict(x))

    def r_json():
        return cls.loads_json(x.dumps_json()) if meth else S.loads_json(cls, S.dumps_json(x))

    def r_yaml():
        return cls.loads_yaml(x.dumps_yaml()) if meth else S.loads_yaml(cls, S.dumps_yaml(x))

    def r_file(ext):
        def run():
            p = os.path.join(tmp, "x" + ext)
            if meth:
                x.save(p)
                return cls.load(p)
            S.save(x, p)
            return S.load(cls, p)
        return run

    return {"dict": r_dict, "json": r_json, "yaml": r_yaml, "f.json": r_file(".json"), "f.yaml": r_file(".yaml"),
            "f.yml": r_file(".yml"), "f.pkl": r_file(".pkl")}


def impl(case):
    import json
    import tempfile

    src = case["case"].get("src")
    if src is not None:
        with tempfile.TemporaryDirectory(prefix=f"spverif.{os.getpid()}.src.") as d:
            b = SrcBuilt(case["case"]["ty"], src, d)
            try:
                return json.loads(json.dumps(_impl(case, b)))
            finally:
                b.close()
    b = Built()
    obs = _impl(case, b)
    # real classes carry a per-process suffix; it shows up only in str(EnumMember)
    return json.loads(json.dumps(obs).replace(b.suffix, ""))


def _impl(case, b):
    import tempfile

    op, c = case["op"], case["case"]
    if op == "ser.route":
        cls = b.ty(c["ty"])
        x = b.val(c["x"])
        before = cv(x, norm=True)
        obs = {"routes": {}, "eq": {}}
        with tempfile.TemporaryDirectory(prefix=f"spverif.{os.getpid()}.") as tmp:
            for name, fn in _routes(cls, x, tmp).items():
                o, v = _outcome(fn, norm=True)
                obs["routes"][name] = o
                obs["eq"][name] = bool(o["o"] == "ok" and v == x)
        obs["x_unchanged"] = cv(x, norm=True) == before
        return obs
    if op == "ser.decode":
        from simple_parsing.helpers.serialization.decoding import get_decoding_fn

        t = b.ty(c["ty"])
        raw = b.val(c["raw"])
        o, v = _outcome(lambda: get_decoding_fn(t)(raw))
        obs = {"out": o, "raw_iter": cv(raw, set_iter=True)}
        if "expect" in c:
            exp = b.val(c["expect"])
            obs["eq"] = bool(o["o"] == "ok" and v == exp)
        return obs
    if op == "ser.encode":
        from simple_parsing.helpers.serialization import encode

        b.declare(c["ty"])
        v = b.val(c["v"])
        o, _ = _outcome(lambda: encode(v))
        return {"out": o, "v_iter": cv(v, set_iter=True, meta=True)}
    if op == "ser.todict":
        from simple_parsing.helpers.serialization.serializable import to_dict

        b.declare(c["ty"])
        x = b.val(c["x"])
        o, _ = _outcome(lambda: to_dict(x))
        return {"out": o, "v_iter": cv(x, set_iter=True, meta=True)}
    raise ValueError(op)


def _meta_type(T):
    """The type spec as the driver wants it (per-field meta inline)."""
    return T


def _attach_meta(T, V):
    """Instance values for the model carry reg + per-field meta (taken from the class spec)."""
    k, t = T["k"], V["t"]
    if k == "dc" and t == "inst":
        fm = {f["name"]: f for f in T["fields"]}
        return {"t": "inst", "cls": V["cls"], "reg": T.get("reg", False),
                "v": [[f[0], _attach_meta(fm[f[0]]["ty"], f[1]),
                       {"to_dict": fm[f[0]].get("to_dict", True), **({"enc": fm[f[0]]["enc"]} if fm[f[0]].get("enc") is not None else {}),
                        **({"dec": fm[f[0]]["dec"]} if fm[f[0]].get("dec") is not None else {})}] for f in V["v"]]}
    if k == "opt":
        return V if t == "none" else _attach_meta(T["inner"], V)
    if k in ("list", "vtuple", "set") and t in ("list", "tuple", "set"):
        return dict(V, v=[_attach_meta(T["item"], x) for x in V["v"]])
    if k == "tuple" and t == "tuple":
        return dict(V, v=[_attach_meta(ti, x) for ti, x in zip(T["items"], V["v"])])
    if k == "dict" and t == "dict":
        return dict(V, v=[[_attach_meta(T["key"], kk), _attach_meta(T["val"], x)] for kk, x in V["v"]])
    return V


# The line protocol of the model driver is read back with str.splitlines(), which also breaks lines at U+0085 / U+2028 /
# U+2029. The model treats these characters as opaque non-ASCII text, so on the MODEL side only (request and compared
# observation alike) they are replaced by neighbouring code points that are not line breaks (order-preserving, not in the
# pool); the real code always sees the real characters.
_LINE_SAFE = {0x85: 0x86, 0x2028: 0x202A, 0x2029: 0x202B}


def _line_safe(j):
    import json

    return json.loads(json.dumps(j, ensure_ascii=False).translate(_LINE_SAFE))


def model_case(case, obs):
    op, c = case["op"], case["case"]
    if op == "ser.route":
        return _line_safe({"ty": c["ty"], "x": _attach_meta(c["ty"], c["x"])})
    if op == "ser.decode":
        return _line_safe({"ty": c["ty"], "raw": obs["raw_iter"]})
    if op == "ser.encode":
        return _line_safe({"v": obs["v_iter"]})
    if op == "ser.todict":
        return _line_safe({"x": obs["v_iter"]})
    return c


def project(case, obs):
    if case["op"] == "ser.route":
        return _line_safe(obs["routes"])
    return _line_safe(obs["out"])


def model_unmodelled(mo):
    if isinstance(mo, dict) and mo.get("o") == "unmodelled":
        return True
    if isinstance(mo, dict) and mo and all(isinstance(v, dict) for v in mo.values()):
        return any(v.get("o") == "unmodelled" for v in mo.values())
    return False


# ------------------------------------------------------------------------------------------------
# the property itself


def strip_odict(j):
    """The property demands `loaded == x` and the declared type: a Dict field that held an OrderedDict comes back as the
    equal plain dict (`OrderedDict(a=1) == {"a": 1}`), and a dict decoded from a list of pairs is an OrderedDict - both are
    `Dict[K, V]` values, so the oracle does not compare the Mapping subclass."""
    if isinstance(j, dict):
        return {k: strip_odict(v) for k, v in j.items() if k != "odict"}
    if isinstance(j, list):
        return [strip_odict(x) for x in j]
    return j


def norm_v(V):
    """Canonical form of a case value: sets and dict entries sorted."""
    t = V["t"]
    if t in ("list", "tuple"):
        return dict(V, v=[norm_v(x) for x in V["v"]])
    if t == "set":
        return dict(V, v=sorted((norm_v(x) for x in V["v"]), key=skey))
    if t == "dict":
        return {"t": "dict", "v": sorted(([norm_v(k), norm_v(x)] for k, x in V["v"]), key=lambda p: skey(p[0]))}
    if t == "inst":
        return dict(V, v=[[f[0], norm_v(f[1])] for f in V["v"]])
    return V


def diffs(T, exp, got, path="x"):
    """Type-directed comparison of canonical trees: smallest differing subtrees with their declared type.
    Descent stops at Union annotations (the property's Union clause is about the whole member value)."""
    if exp == got:
        return []
    k = T["k"] if T else None
    if k == "opt":
        return diffs(T["inner"], exp, got, path)
    here = [{"path": path, "ty": T, "exp": exp, "got": got}]
    if not isinstance(got, dict) or exp.get("t") != got.get("t"):
        return here
    t = exp["t"]
    if k == "union":
        return here
    if t in ("list", "tuple", "set") and len(exp["v"]) == len(got["v"]):
        if k in ("list", "vtuple", "set"):
            subs = [T["item"]] * len(exp["v"])
        elif k == "tuple":
            subs = T["items"]
        else:
            return here
        out = []
        for i, (st, e, g) in enumerate(zip(subs, exp["v"], got["v"])):
            out += diffs(st, e, g, f"{path}[{i}]")
        return out
    if t == "dict" and k == "dict" and len(exp["v"]) == len(got["v"]):
        out = []
        for (ek, ev), (gk, gv) in zip(exp["v"], got["v"]):
            out += diffs(T["key"], ek, gk, f"{path}.key")
            out += diffs(T["val"], ev, gv, f"{path}[{skey(ek)}]")
        return out
    if t == "inst" and k == "dc" and exp.get("cls") == got.get("cls") and len(exp["v"]) == len(got["v"]):
        tys = {f["name"]: f["ty"] for f in T["fields"]}
        out = []
        for (en, ev), (gn, gv) in zip(exp["v"], got["v"]):
            if en != gn:
                return here
            out += diffs(tys[en], ev, gv, f"{path}.{en}")
        return out
    return here


def oracle(case, obs):
    op, c = case["op"], case["case"]
    fails = []
    if op == "ser.route":
        exp = strip_odict(norm_v(c["x"]))
        for name in ROUTES:
            o = obs["routes"][name]
            if o["o"] != "ok":
                fails.append({"clause": "roundtrip", "route": name, "detail": f"route {name} raised {o.get('exc')}", "exc": o.get("exc"),
                              "diffs": []})
                continue
            got = strip_odict(o["v"])
            if got != exp or not obs["eq"][name]:
                ds = diffs(c["ty"], exp, got)
                fails.append({"clause": "roundtrip", "route": name, "eq": obs["eq"][name], "diffs": ds[:60], "n_diffs": len(ds),
                              "detail": f"route {name}: loaded != x or a field came back with another type; first difference at "
                                        f"{ds[0]['path'] if ds else '?'}: expected {canon_short(ds[0]['exp']) if ds else ''} got {canon_short(ds[0]['got']) if ds else ''}"})
    elif op == "ser.decode" and c.get("kind") in ("lenient", "union-member"):
        o = obs["out"]
        exp = strip_odict(norm_v(c["expect"]))
        clause = "lenient" if c["kind"] == "lenient" else "union-member"
        if o["o"] != "ok":
            fails.append({"clause": clause, "detail": f"decoding raised {o.get('exc')}", "exc": o.get("exc"), "diffs": []})
        else:
            got = strip_odict(norm_v(o["v"]))
            if got != exp or not obs.get("eq", False):
                ds = diffs(c["ty"], exp, got)
                fails.append({"clause": clause, "diffs": ds[:60], "n_diffs": len(ds), "eq": obs.get("eq"),
                              "detail": f"decoded value differs from the instance at {ds[0]['path'] if ds else '?'}: expected "
                                        f"{canon_short(ds[0]['exp']) if ds else ''} got {canon_short(ds[0]['got']) if ds else ''}"})
    return fails


def canon_short(j):
    import json

    return json.dumps(j, ensure_ascii=False, sort_keys=True)[:160]


def nontrivial(case, obs):
    op, c = case["op"], case["case"]
    T = c["ty"]
    if op in ("ser.route",) or c.get("kind") == "lenient":
        return len(T.get("fields", [])) >= 2 or type_depth(T) >= 2
    if op == "ser.decode":
        return T["k"] not in ("int", "float", "str", "bool") or c["raw"]["t"] in ("list", "tuple", "dict", "set")
    return type_depth(T) >= 1


YAML_LOOKALIKES = {"null", "~", "yes", "no", "on", "off", "true", "N", "1e3", "0x10", "0o17", "2001-01-01", "1:30", "12", "1.5", "-7",
                   ".inf", ".nan", "1_000", "+1", "0.5e-3", "---", "...", "=", "None"}


def value_tags(T, V, acc):
    """Dimensions of the quantifier that the type kinds do not show: which values / shapes were reached."""
    k, t = T["k"], V["t"]
    if t == "none":
        acc.add("val:none")
    elif t == "int":
        n = int(V["v"])
        acc.add("val:int0" if n == 0 else ("val:bigint" if abs(n) >= 2**63 else ("val:neg" if n < 0 else "val:int")))
    elif t == "str":
        sv = V["v"]
        acc.add("val:str-empty" if sv == "" else ("val:nonascii" if not sv.isascii() else "val:str"))
        if any(ch in sv for ch in "\x85\u2028\u2029"):
            acc.add("str:unicode-linebreak")
        if any(ch in sv for ch in "\u00a0\ufeff\x7f"):
            acc.add("str:invisible")
        if any(ch in sv for ch in "\t\r\n"):
            acc.add("str:ascii-control")
        if sv != sv.strip(" "):
            acc.add("str:edge-blank")
        if any(ord(ch) > 0xFFFF for ch in sv):
            acc.add("str:non-bmp")
        if sv in YAML_LOOKALIKES:
            acc.add("str:yaml-lookalike")
    elif t == "float":
        acc.add("val:float-" + ("special" if V["v"] in ("inf", "-inf", "-0.0") else "plain"))
    elif t in ("list", "tuple", "set", "dict") and not V["v"]:
        acc.add(f"val:empty-{t}")
    if t == "dict" and V.get("odict"):
        acc.add("val:ordereddict")
    if t == "dict" and V.get("mapping"):
        acc.add("val:mapping-" + V["mapping"])
    if k == "opt":
        if T["inner"]["k"] == "dc":
            acc.add("shape:opt<dc>")
        if t != "none":
            value_tags(T["inner"], V, acc)
    elif k == "union":
        acc.add(f"union:n{sum(a['k'] != 'none' for a in T['alts'])}" + ("+none" if any(a["k"] == "none" for a in T["alts"]) else ""))
    elif k in ("list", "vtuple", "set") and t in ("list", "tuple", "set"):
        if T["item"]["k"] == "dc":
            acc.add(f"shape:{k}<dc>")
        if k == "set":
            acc.add(f"setitem:{T['item']['k']}")
        for x in V["v"]:
            value_tags(T["item"], x, acc)
    elif k == "tuple" and t == "tuple":
        for ti, x in zip(T["items"], V["v"]):
            value_tags(ti, x, acc)
    elif k == "dict" and t == "dict":
        acc.add(f"key:{T['key']['k']}")
        for kk, _ in V["v"]:
            if kk["t"] == "str":
                value_tags(T["key"], kk, acc)
                if not kk["v"].isascii() or kk["v"] in YAML_LOOKALIKES or any(ch in kk["v"] for ch in "\t\r\n\x7f"):
                    acc.add("key:str-special")
        if T["val"]["k"] == "dc":
            acc.add("shape:dict<dc>")
        for kk, x in V["v"]:
            value_tags(T["val"], x, acc)
    elif k == "dc" and t == "inst":
        if not T["fields"]:
            acc.add("shape:empty-class")
        tys = {f["name"]: f["ty"] for f in T["fields"]}
        for name, x in V["v"]:
            value_tags(tys[name], x, acc)
    return acc


def tags(case, obs):
    op, c = case["op"], case["case"]
    t = [f"op:{op}" + (":" + c["kind"] if "kind" in c else "")]
    T = c["ty"]
    if op == "ser.route":
        t += [f"kind:{k}" for k in sorted(type_kinds(T))]
        t.append(f"depth:{type_depth(T)}")
        t.append(f"fields:{len(T['fields'])}")
        if c.get("src") is not None:
            t.append("src:" + ("postponed" if c["src"].get("postponed") else "eager") + ("+builtin-generics" if c["src"].get("builtin_generics") else ""))
        outs = {o["o"] if o["o"] == "ok" else "raise:" + str(o.get("exc")) for o in obs["routes"].values()}
        t += [f"out:{o}" for o in sorted(outs)]
        t += sorted(value_tags(T, c["x"], set()))
        if not obs.get("x_unchanged", True):
            t.append("instance-modified")
    elif op == "ser.decode":
        o = obs["out"]
        t.append("out:" + (o["o"] if o["o"] == "ok" else "raise:" + str(o.get("exc"))))
        t.append(f"ty:{T['k']}")
        t.append(f"raw:{c['raw']['t']}")
    else:
        o = obs["out"]
        t.append("out:" + (o["o"] if o["o"] == "ok" else "raise:" + str(o.get("exc"))))
    return t


def shrink(case):
    op, c = case["op"], case["case"]
    T = c["ty"]
    if op != "ser.route" and c.get("kind") != "lenient":
        return
    if T["k"] != "dc":
        return
    inst_key = "x" if op == "ser.route" else "expect"
    x = c[inst_key]
    for i in range(len(T["fields"])):
        if len(T["fields"]) <= 1:
            break
        T2 = dict(T, fields=T["fields"][:i] + T["fields"][i + 1:])
        x2 = dict(x, v=x["v"][:i] + x["v"][i + 1:])
        c2 = dict(c, ty=T2, **{inst_key: x2})
        if op != "ser.route":
            c2["raw"] = dict(c["raw"], v=[p for p in c["raw"]["v"] if p[0]["v"] != T["fields"][i]["name"]])
        yield {"op": op, "case": c2}
    # shrink container values of the fields
    for i, f in enumerate(x["v"]):
        v = f[1]
        if v["t"] in ("list", "set", "dict") and len(v["v"]) > 1 and op == "ser.route":
            for j in range(len(v["v"])):
                v2 = dict(v, v=v["v"][:j] + v["v"][j + 1:])
                yield {"op": op, "case": dict(c, x=dict(x, v=x["v"][:i] + [[f[0], v2]] + x["v"][i + 1:]))}


# ------------------------------------------------------------------------------------------------
# open findings: narrow signatures


def _has_tuple_key(T):
    return has_kind(T, lambda t: t["k"] == "dict" and t["key"]["k"] in ("tuple", "vtuple"))


def f_tuple_key_yaml(case, obs, fail):
    """A Dict annotated with tuple keys: to_dict emits a list of (key, value) tuples, which yaml.dump writes as
    !!python/tuple and safe_load refuses — only the three YAML routes fail, with ConstructorError."""
    return (case["op"] == "ser.route" and fail.get("clause") == "roundtrip" and fail.get("route") in ("yaml", "f.yaml", "f.yml")
            and fail.get("exc") == "ConstructorError" and _has_tuple_key(case["case"]["ty"])
            and _nonempty_tuple_key_dict(case["case"]["ty"], case["case"]["x"]))


def has_odict(V):
    """The value holds a collections.OrderedDict somewhere."""
    t = V["t"]
    if t == "dict":
        return bool(V.get("odict")) or any(has_odict(k) or has_odict(x) for k, x in V["v"])
    if t in ("list", "tuple", "set"):
        return any(has_odict(x) for x in V["v"])
    if t == "inst":
        return any(has_odict(f[1]) for f in V["v"])
    return False


def f_union_nonprim(case, obs, fail):
    """Every differing node is annotated with a Union that has a NON-primitive member (Enum / Path / container), the expected
    value is a str / Path / Enum leaf of one member and what came back is a leaf of ANOTHER member that stands earlier in the
    declaration (its decoder accepted the written text first)."""
    ds = fail.get("diffs") or []
    if fail.get("clause") != "roundtrip" or not ds or fail.get("n_diffs", len(ds)) != len(ds):
        return False
    kind_of = {"str": "str", "path": "path", "enum": "enum", "int": "int", "float": "float", "bool": "bool"}
    for d in ds:
        T = d.get("ty") or {}
        if T.get("k") != "union":
            return False
        alts = [a["k"] for a in T["alts"] if a["k"] != "none"]
        if all(a in ("int", "float", "str", "bool") for a in alts):
            return False
        e, g = d["exp"], d["got"]
        if not isinstance(g, dict) or e.get("t") not in kind_of or g.get("t") not in kind_of or e["t"] == g["t"]:
            return False
        if e["t"] not in alts or g["t"] not in alts or alts.index(g["t"]) > alts.index(e["t"]):
            return False
    return True


def _nonempty_tuple_key_dict(T, V):
    k, t = T["k"], V["t"]
    if k == "dict" and t == "dict":
        if T["key"]["k"] in ("tuple", "vtuple") and V["v"]:
            return True
        return any(_nonempty_tuple_key_dict(T["val"], x) for _, x in V["v"])
    if k == "opt":
        return t != "none" and _nonempty_tuple_key_dict(T["inner"], V)
    if k in ("list", "vtuple", "set") and t in ("list", "tuple", "set"):
        return any(_nonempty_tuple_key_dict(T["item"], x) for x in V["v"])
    if k == "tuple" and t == "tuple":
        return any(_nonempty_tuple_key_dict(ti, x) for ti, x in zip(T["items"], V["v"]))
    if k == "dc" and t == "inst":
        tys = {f["name"]: f["ty"] for f in T["fields"]}
        return any(_nonempty_tuple_key_dict(tys[f[0]], f[1]) for f in V["v"])
    return False


FINDINGS = {
    "C05-tuple-key-dict-yaml": f_tuple_key_yaml,
    "C05-union-nonprim-order": f_union_nonprim,
}

MANIFEST = {
    "text": ("Proof, full on the property's grammar (Optional[T] and Unions of primitives). Lean theorems "
             "c05_roundtrip / c05_instance: for every type of the grammar (any nesting depth), every well-typed value and every transport "
             "(direct/pickle, JSON with key stringification, YAML), from_dict(transport(to_dict(x))) = x with every node of the declared "
             "Python type; c05_files: load(save(x)) for .json/.yaml/.yml/.pkl through the model's suffix table; "
             "c05_union_member_unchanged: a value that is an instance (exact type) of a member of a Union of primitives comes back "
             "unchanged whatever the member order. An OrderedDict held by a Dict field is written like the equal plain dict and comes back as "
             "that dict on every route (c05_ordered_dict at the Dict node, deeper positions sampled; the oracle demands equality, not "
             "the OrderedDict type). Named gaps, each an open finding with a Lean witness: dicts with tuple keys break the three YAML "
             "routes; Unions with a non-primitive member are decoded in declaration "
             "order (there the round trip holds under the decidable side condition UnionSafe: c05_roundtrip_partial). Lenient raw "
             "encodings: proved per leaf (int text with surrounding whitespace or '+', boolean words, float reprs the model recognises: "
             "plain decimals of <= 15 digits, inf, nan; tuple given as list) and lifted pointwise through List / Tuple[...,...] / "
             "Optional (c05_lenient_list, c05_lenient_optional); through dict keys, sets and nested instances, and for exponent / "
             "16-17-digit float reprs, SAMPLED only (the lenient stream of the generator). The model of "
             "encode / get_decoding_fn / from_dict is tied to the code by four correspondence ops (encode, to_dict, "
             "get_decoding_fn(t)(raw) incl. lenient and malformed raw values, and all seven real routes end-to-end) and the "
             "property's own statement is evaluated on every real observation. Frozen vs Serializable vs plain bases and "
             "postponed-annotation source modules: sampled."),
    "note": ("Trusted: Lean kernel + propext/Classical.choice/Quot.sound; json, pickle, PyYAML, pathlib, float()/repr (assumed "
             "faithful on primitives, exercised by every case); the harness. Modelled not verified: encoding.py:61-141, "
             "decoding.py:79-518, serializable.py:704-908 (decode_into_subclasses / _type_ keys are outside the model: C14)."),
    "technique": "Lean 4 induction over the type grammar (mutual with lists of types) + differential correspondence on all seven routes",
    "design_ref": "DESIGN.md section 5, C05",
}
