"""C09 — plain argparse arguments behave as in argparse; the namespace stays clean."""
from __future__ import annotations

import argparse
import copy
import dataclasses
import json
import pathlib
from typing import List, Optional, Tuple

from harness.core import sp

PID = "C09"
RULE = ("a case is an argparse PROGRAM (constructor keywords prefix_chars in {-, +-, -+, +} with user options under either prefix character and -h/--help/+h/++help tokens / conflict_handler / allow_abbrev / "
        "argument_default / exit_on_error, then an ordered declaration list over: positionals with nargs None,?,*,+,2; "
        "options with store / store_true / store_false / store_const / count / append / append_const / extend, type=int, "
        "choices, defaults, required; argument groups; mutually exclusive groups (required or not); set_defaults on "
        "declared and undeclared dests; parents= (one or two stdlib or simple_parsing parents with their own argument groups, required / optional mutually exclusive groups (also nested in a group), up to three parents sharing one set_defaults name with int / str / None / list / dict / nested-dict values (also on the child), set_defaults before and after the add_argument of the same dest or for a dest declared by the other parent, options that are proper prefixes of dataclass options)), a dataclass FOREST registered with "
        "add_arguments next to it (int/str/float/bool/List/Tuple/Optional leaves, required leaves, nested and Optional "
        "nested classes, one subgroups field, positional fields; names disjoint from the user's), an API "
        "(parse_args | parse_known_args) and an ARGV interleaving valid and invalid tokens of both worlds (unknown "
        "options, ill-typed values, missing values, abbreviations, --, -h). The same program is replayed on "
        "argparse.ArgumentParser with stand-in actions (copies of the real simple-parsing actions with throw-away dests). "
        "(parse_args | parse_known_args | parse_intermixed_args, optionally a pre-filled namespace=); registrations may "
        "use default=argparse.SUPPRESS, set_defaults(<dest>={...}) after add_arguments, init=False fields; half of the "
        "command lines are valid-only, some empty. Non-trivial = at least one user declaration and one registered "
        "dataclass; distinct by canonical JSON. A separate stream feeds _postprocessing edited raw namespaces (missing keys, colliding keys, "
        "extra keys) to reach its error branches.")
ASSUMPTIONS = ["argparse.ArgumentParser (CPython 3.12) is the reference: its behaviour on the twin program is taken as given",
               "copy.copy of an argparse Action with another dest behaves like the original apart from where it writes",
               "dataclass constructors of generated classes do not raise"]
TRUSTED = ["stdlib argparse (it is the oracle of this property)"]
EXHAUSTIVE = {"quick": False, "thorough": False}
THOROUGH_ROUNDS = 2   # thorough tier: this many generator passes with derived PRNG states (vcheck)
MANIFEST = {
    "text": ("Proof (frame + accept theorems for the post-processing; engine equivalence SAMPLED differentially). Lean "
             "theorems over the model of parse_known_args / parse_args / _postprocessing, for EVERY argparse engine, every "
             "exit behaviour of the subgroup pre-parser and EVERY algebra of Python values: (decision) when the subgroup "
             "pre-parser does not exit, simple-parsing exits exactly when the engine does, with its status, and parse_args "
             "additionally exactly on leftovers (the full statement is refuted by a witness: open finding "
             "help-after-bad-subgroup); (accept) on a well-formed wrapper forest with total constructors an accepted command "
             "line yields a namespace with the engine's leftovers — no AttributeError / AssertionError / KeyError / "
             "RuntimeError arm is taken (WellFormed is decidable and is evaluated by the driver on every accepted real run; "
             "it excludes Optional[dataclass] fields, set_defaults on a dataclass destination and ALWAYS_MERGE, which are "
             "covered by the correspondence check only); (frame) every entry whose key is neither a dataclass field "
             "destination nor an add_arguments destination is returned untouched, present or absent; (keys) every key is "
             "such an entry, an add_arguments destination or `subgroups`, every such entry is kept, every add_arguments "
             "destination is present EXCEPT those registered with default=argparse.SUPPRESS (named exclusion NoSuppress, "
             "witness), `subgroups` iff a subgroup field; no dotted key; no collision RuntimeError for disjoint "
             "destinations, a collision is refused (witness). The hypotheses of the frame theorem are decided by the driver "
             "on every accepted disjoint run. SAMPLED only (no theorem): that argparse on the user's declarations plus the "
             "real simple-parsing actions behaves like argparse on the user's declarations plus stand-ins, i.e. every "
             "'as argparse.ArgumentParser' clause — evaluated differentially against argparse.ArgumentParser running the "
             "same program (groups, exclusive groups, set_defaults, parents=, prefix_chars, namespace=) with stand-in "
             "options; the constructor / set_defaults / add_argument_group overrides are covered only this way. Scope: "
             "parse_args and parse_known_args; parse_intermixed_args is generated and is an open finding (post-processing "
             "runs twice). set_defaults keyword routing: every keyword that is not a dataclass destination reaches argparse "
             "(theorem; a keyword `config_path` was swallowed before fix a66f307 — kept as regression cases). Model tied to the code by three ops: _postprocessing on "
             "captured and edited raw namespaces / parser state, parse_known_args / parse_args end to end with the stdlib "
             "parser (carrying copies of the real actions) as the engine, set_defaults keyword routing."),
    "note": ("Trusted: Lean kernel + standard axioms; stdlib argparse; the harness (program generator, twin construction, "
             "computation of the wrapper list from the class specs). Modelled not verified: parsing.py:281-363,385-438 "
             "(keyword routing only),556-597,775-991,1135-1161, field_wrapper.py:168-229; ALWAYS_MERGE reuse and a "
             "user attribute / destination called `subgroups` are outside the model (C11 / reserved name); the two KeyError "
             "arms of the model are unreachable from real parser states and have no correspondence coverage."),
    "technique": "Lean 4 frame + totality theorems (any engine, any value algebra) + differential run against argparse.ArgumentParser",
    "design_ref": "DESIGN.md section 5, C09",
}

# ------------------------------------------------------------------------------------------------
# canonical values


def cvs(v):
    """canonical value tree; instances / dicts as JSON objects (order-insensitive)"""
    if v is None:
        return {"t": "none"}
    if isinstance(v, bool):
        return {"t": "bool", "v": v}
    if isinstance(v, int):
        return {"t": "int", "v": str(v)}
    if isinstance(v, float):
        return {"t": "float", "v": repr(v)}
    if isinstance(v, str):
        return {"t": "str", "v": v}
    if isinstance(v, pathlib.PurePath):
        return {"t": "path", "v": str(v)}
    if isinstance(v, list):
        return {"t": "list", "v": [cvs(x) for x in v]}
    if isinstance(v, tuple):
        return {"t": "tuple", "v": [cvs(x) for x in v]}
    if isinstance(v, dict):
        return {"t": "dict", "v": {str(k): cvs(x) for k, x in v.items()}}
    if dataclasses.is_dataclass(v) and not isinstance(v, type):
        return {"t": "inst", "cls": type(v).__name__,
                "v": {f.name: cvs(getattr(v, f.name, None)) for f in dataclasses.fields(v) if f.init}}
    return {"t": "raw", "py": type(v).__name__}


def to_driver(v):
    """the same tree in the list-of-pairs shape the driver parses"""
    t = v.get("t")
    if t in ("list", "tuple"):
        return {"t": t, "v": [to_driver(x) for x in v["v"]]}
    if t == "dict":
        return {"t": "dict", "v": [[{"t": "str", "v": k}, to_driver(x)] for k, x in v["v"].items()]}
    if t == "inst":
        return {"t": "inst", "cls": v["cls"], "v": [[k, to_driver(x)] for k, x in v["v"].items()]}
    return v


def pyval(v):
    if v is None:
        return None
    t = v["t"]
    if t == "none":
        return None
    if t == "int":
        return int(v["v"])
    if t == "float":
        return float(v["v"])
    if t in ("str",):
        return v["v"]
    if t == "bool":
        return bool(v["v"])
    if t == "list":
        return [pyval(x) for x in v["v"]]
    if t == "tuple":
        return tuple(pyval(x) for x in v["v"])
    if t == "dict":
        return {k: pyval(x) for k, x in v["v"].items()}
    raise ValueError(t)


def I(n):
    return {"t": "int", "v": str(n)}


def S(s):
    return {"t": "str", "v": s}


# ------------------------------------------------------------------------------------------------
# dataclass forests

TY = {"int": int, "str": str, "float": float, "bool": bool, "list_int": List[int], "tuple_int2": Tuple[int, int],
      "opt_int": Optional[int]}


def build_classes(specs):
    from simple_parsing import field as spfield, subgroups

    classes = {}
    for s in specs:
        fields = []
        for f in s["fields"]:
            k = f["ty"]
            if k == "dc":
                fields.append((f["name"], classes[f["cls"]], dataclasses.field(default_factory=classes[f["cls"]])))
            elif k == "optdc":
                fields.append((f["name"], Optional[classes[f["cls"]]], dataclasses.field(default=None)))
            elif k == "subgroup":
                ch = {key: classes[c] for key, c in f["choices"].items()}
                fields.append((f["name"], object, subgroups(ch, default=f["default_key"])))
            else:
                kw = {}
                d = f.get("default")
                if d is None and k == "opt_int":
                    kw["default"] = None
                if d is not None:
                    pv = pyval(d)
                    if isinstance(pv, list):
                        kw["default_factory"] = (lambda x: (lambda: list(x)))(pv)
                    else:
                        kw["default"] = pv
                if f.get("init") is False:
                    kw["init"] = False
                if f.get("positional"):
                    fields.append((f["name"], TY[k], spfield(positional=True, **kw)))
                else:
                    fields.append((f["name"], TY[k], dataclasses.field(**kw)))
        ns = {}
        if s.get("ctor_raises"):
            def __post_init__(self):
                raise ValueError("constructor of the generated class raises")
            ns["__post_init__"] = __post_init__
        classes[s["name"]] = dataclasses.make_dataclass(s["name"], fields, namespace=ns)
    return classes


def conv_of(ty):
    return {"tuple_int2": "tuple", "list_int": "list"}.get(ty, "id")


def wrappers_of(c, chosen):
    """`_flatten_wrappers(parser._wrappers)` as the post-processing sees it — a pure function of the case
    (class specs, registrations) and of the chosen subgroup keys"""
    cls = {k["name"]: k for k in c["classes"]}
    out = []

    def walk(cname, dest, level, has_parent, over, opt_none, suppress=False):
        spec = cls[cname]
        w = {"dest": dest, "dests": [dest], "level": level, "has_parent": has_parent, "suppress": suppress,
             "opt_none": opt_none, "ctor": cname, "fields": []}
        out.append(w)
        later = []
        for f in spec["fields"]:
            k = f["ty"]
            fd = dest + "." + f["name"]
            if f.get("init") is False:
                continue            # dataclass_wrapper.py:77: no FieldWrapper for an init=False field
            if k == "dc":
                later.append((f["cls"], fd, False))
            elif k == "optdc":
                later.append((f["cls"], fd, True))
            elif k == "subgroup":
                w["fields"].append({"name": f["name"], "dest": fd, "dests": [fd], "is_subgroup": True, "init": True,
                                    "dflt": S(f["default_key"]), "conv": "id"})
            else:
                d = (over or {}).get(f["name"], f.get("default")) or {"t": "none"}
                w["fields"].append({"name": f["name"], "dest": fd, "dests": [fd], "is_subgroup": False, "init": True,
                                    "dflt": to_driver(d), "conv": conv_of(k)})
        # `wrapper._children` as `_is_at_default` reads them: nested members in field order, then the chosen subgroups
        kids = []
        for cn, fd, opt in later:
            kids.append(walk(cn, fd, level + 1, True, None, opt, suppress))
        for f in spec["fields"]:
            if f["ty"] == "subgroup":
                fd = dest + "." + f["name"]
                key = chosen.get(fd, f["default_key"])
                if key in f["choices"]:
                    kids.append(walk(f["choices"][key], fd, level + 1, True, None, False))
        w["children"] = [{"name": k["dest"].rsplit(".", 1)[1], "fields": k["fields"], "children": k["children"]} for k in kids]
        return w

    for i, r in enumerate(c["regs"]):
        over = dict(r.get("default") or {})
        over.update(dc_defaults(c).get(i, {}))
        walk(r["cls"], r["dest"], 0, False, over, False, bool(r.get("suppress")))
    return out


def dc_defaults(c):
    """reg index -> {field: V} given by `parser.set_defaults(<dest>={...})` AFTER add_arguments (parsing.py:402-435)"""
    out = {}
    for d in c["decls"]:
        if d["k"] == "set_defaults_dc":
            out.setdefault(d["reg"], {}).update(d["kv"])
    return out


def cargs0_of(c):
    return [[c["regs"][i]["dest"], [[k, to_driver(v)] for k, v in kv.items()]] for i, kv in sorted(dc_defaults(c).items())]


def has_subgroup(c):
    reach = set()
    cls = {k["name"]: k for k in c["classes"]}

    def go(n):
        if n in reach:
            return
        reach.add(n)
        for f in cls[n]["fields"]:
            if f["ty"] in ("dc", "optdc"):
                go(f["cls"])

    for r in c["regs"]:
        go(r["cls"])
    return any(f["ty"] == "subgroup" for n in reach for f in cls[n]["fields"])


# ------------------------------------------------------------------------------------------------
# running programs

TYPES = {"int": int, "float": float, "str": str}


def _kw(kw):
    out = {}
    for k, v in kw.items():
        if k == "type":
            out[k] = TYPES[v]
        elif k in ("default", "const"):
            out[k] = argparse.SUPPRESS if v == "SUPPRESS" else pyval(v)
        elif k == "choices":
            out[k] = [pyval(x) for x in v]
        else:
            out[k] = v
    return out


def ctor_kwargs(pc):
    kw = {}
    if pc.get("prefix_chars", "-") != "-":
        kw["prefix_chars"] = pc["prefix_chars"]
    if pc.get("conflict_handler", "error") != "error":
        kw["conflict_handler"] = pc["conflict_handler"]
    if pc.get("allow_abbrev", True) is not True:
        kw["allow_abbrev"] = False
    if pc.get("argument_default") is not None:
        ad = pc["argument_default"]
        kw["argument_default"] = argparse.SUPPRESS if ad == "SUPPRESS" else pyval(ad)
    if pc.get("add_help", True) is not True:
        kw["add_help"] = False
    if pc.get("exit_on_error", True) is not True:
        kw["exit_on_error"] = False
    return kw


def replay_decls(parser, decls, on_add_arguments=None):
    """apply a declaration list to a parser (real simple-parsing parser or the stdlib twin)"""
    containers = []
    for d in decls:
        k = d["k"]
        tgt = parser if d.get("in") is None else containers[d["in"]]
        if k == "arg":
            tgt.add_argument(*d["flags"], **_kw(d.get("kw", {})))
        elif k == "group":
            containers.append(tgt.add_argument_group(d["title"], **d.get("kw", {})))
        elif k == "mutex":
            containers.append(tgt.add_mutually_exclusive_group(required=d.get("required", False)))
        elif k == "set_defaults":
            parser.set_defaults(**{key: pyval(v) for key, v in d["kv"].items()})
        elif k == "add_arguments":
            if on_add_arguments is not None:
                on_add_arguments(d["reg"])
        elif k == "set_defaults_dc":
            if on_add_arguments is not None:
                on_add_arguments(d["reg"], {key: pyval(v) for key, v in d["kv"].items()})
        else:
            raise ValueError(k)


def make_parents(specs, for_sp):
    out = []
    for ps in specs:
        if for_sp and ps.get("sp"):
            import simple_parsing

            p = simple_parsing.ArgumentParser(add_help=False)
        else:
            p = argparse.ArgumentParser(add_help=False)
        replay_decls(p, ps["decls"])
        out.append(p)
    return out


def build_sp(c, classes):
    sp.reset_globals()
    kw = ctor_kwargs(c["parser"])
    if c.get("parents"):
        kw["parents"] = make_parents(c["parents"], True)
    parser = sp.make_parser(c["parser"].get("cfg"), **kw)

    def reg(i, dc_default=None):
        r = c["regs"][i]
        if dc_default is not None:
            parser.set_defaults(**{r["dest"]: dc_default})
            return
        akw = {}
        if r.get("suppress"):
            akw["default"] = argparse.SUPPRESS
        if r.get("default"):
            akw["default"] = classes[r["cls"]](**{k: pyval(v) for k, v in r["default"].items()})
        if r.get("prefix"):
            akw["prefix"] = r["prefix"]
        parser.add_arguments(classes[r["cls"]], dest=r["dest"], **akw)

    replay_decls(parser, c["decls"], reg)
    return parser


def build_twin(c, standins, keep_dest, with_parents=True):
    kw = ctor_kwargs(c["parser"])
    if c.get("parents") and with_parents:
        kw["parents"] = make_parents(c["parents"], False)
    twin = argparse.ArgumentParser(**kw)
    replay_decls(twin, c["decls"])
    for i, a in enumerate(standins):
        a2 = copy.copy(a)
        if not keep_dest:
            a2.dest = f"_sp_standin_{i}"
        twin._add_action(a2)
    return twin


def outcome(fn):
    r = sp.run_outcome(fn)
    if r["o"] == "ok":
        v = r["value"]
        if isinstance(v, tuple):
            ns, rest = v
        else:
            ns, rest = v, []
        return {"o": "ok", "ns": {k: cvs(x) for k, x in vars(ns).items()}, "rest": list(rest)}
    if r["o"] == "exit":
        return {"o": "exit", "code": r["code"], "kind": r.get("kind")}
    return {"o": "raise", "exc": r["exc"], "msg": r.get("msg", "")[:200]}


def call_api(parser, api, argv, namespace=None):
    kw = {}
    if namespace:
        kw["namespace"] = argparse.Namespace(**{k: pyval(v) for k, v in namespace.items()})
    if api == "parse_args":
        return parser.parse_args(list(argv), **kw)
    if api == "parse_intermixed_args":
        return parser.parse_intermixed_args(list(argv), **kw)
    return parser.parse_known_args(list(argv), **kw)


def standin_actions(c, classes, argv):
    """the actions simple-parsing itself adds for this forest and argv (read off a separate, identically built
    parser after `_preprocessing`)"""
    first = None
    for args in (list(argv), []):
        p = build_sp(c, classes)
        before = {id(a) for a in p._actions}
        r = sp.run_outcome(lambda: p._preprocessing(args=list(args)))
        if r["o"] == "ok":
            return [a for a in p._actions if id(a) not in before], first
        if first is None:
            first = r
    return [], first


def impl_set_defaults(c):
    """op post.set_defaults: `parser.set_defaults(**kw)` on a parser carrying the registrations — which keywords reach
    argparse's `_defaults`, and is a file read"""
    classes = build_classes(c["classes"])
    parser = build_sp({"parser": {}, "decls": [{"k": "add_arguments", "reg": i} for i in range(len(c["regs"]))],
                       "classes": c["classes"], "regs": c["regs"]}, classes)
    before = set(parser._defaults)
    wd = [r["dest"] for r in c["regs"]]
    kw = {k: ({} if k in wd else (("no_such_file_c09.yaml" if c.get("cp_truthy", True) else None) if k == "config_path" else 1))
          for k in c["kw"]}
    r = sp.run_outcome(lambda: parser.set_defaults(**kw))
    return {"o": r["o"], "exc": r.get("exc"), "passed": sorted(set(parser._defaults) - before),
            "reads_file": r["o"] == "raise" and r.get("exc") == "FileNotFoundError"}


def impl(case):
    c = case["case"]
    if case["op"] == "post.set_defaults":
        return impl_set_defaults(c)
    classes = build_classes(c["classes"])
    argv = c["argv"]
    obs = {}

    # the real parser, with `_postprocessing` wrapped to capture the raw namespace it receives
    captured = {}
    built = sp.run_outcome(lambda: build_sp(c, classes))
    if built["o"] != "ok":
        # the declarations themselves failed on the simple-parsing parser (they are replayed unchanged on the twin)
        obs["sp"] = {"o": "raise", "exc": built.get("exc", "SystemExit"), "msg": built.get("msg", ""), "phase": "declare"}
        obs["raw"] = None
        obs["real_wrappers"] = []
        standins, pre_fail = [], {"o": "raise", "exc": built.get("exc", "SystemExit"), "msg": built.get("msg", "")}
    else:
        parser = built["value"]
        orig = parser._postprocessing

        def wrapped(ns):
            captured["raw"] = {k: cvs(v) for k, v in vars(ns).items()}
            captured["ns_obj"] = copy.copy(ns)
            return orig(ns)

        parser._postprocessing = wrapped
        obs["sp"] = outcome(lambda: call_api(parser, c["api"], argv, c.get("namespace")))
        obs["raw"] = captured.get("raw")
        wr = []
        try:
            from simple_parsing.parsing import _flatten_wrappers

            for w in _flatten_wrappers(parser._wrappers):
                wr.append({"dest": w.dest, "dests": list(w.destinations), "level": w.nesting_level,
                           "fields": [[f.name, f.dest, bool(f.field.init)] for f in w.fields]})
        except Exception as e:  # noqa: BLE001
            wr = [{"error": type(e).__name__}]
        obs["real_wrappers"] = wr
        standins, pre_fail = standin_actions(c, classes, argv)
    obs["standins"] = [[list(a.option_strings), a.dest] for a in standins]
    obs["pre_fail"] = None if pre_fail is None else {k: pre_fail.get(k) for k in ("o", "code", "exc", "msg")}

    obs["twin"] = outcome(lambda: call_api(build_twin(c, standins, keep_dest=False), c["api"], argv, c.get("namespace")))

    if case["op"] == "post.parse":
        obs["engine"] = outcome(
            lambda: call_api(build_twin(c, standins, keep_dest=True), "parse_known_args", argv, c.get("namespace")))
    else:
        # unit op: `_postprocessing` called directly on the (edited) raw namespace
        raw_ns = captured.get("ns_obj")
        if raw_ns is None:
            raw_ns = argparse.Namespace()
            obs["raw"] = {}
        # same subgroup choice as the captured namespace; the default choice when nothing was captured
        pre_args = list(argv) if captured.get("raw") is not None else []
        obs["unit_chosen"] = chosen_of(captured.get("raw"), c)
        r = sp.run_outcome(lambda: build_sp(c, classes))
        if r["o"] == "ok":
            p2 = r["value"]
            r = sp.run_outcome(lambda: p2._preprocessing(args=pre_args))
        if r["o"] != "ok":
            obs["unit"] = {"o": "nosetup"}
        else:
            d = dict(vars(raw_ns))
            for e in c.get("raw_edit", []):
                if e["k"] == "del":
                    d.pop(e["key"], None)
                elif e["k"] == "set":
                    d[e["key"]] = pyval(e["v"])
                elif e["k"] == "cargs_add":
                    p2.constructor_arguments[e["key"]] = {}      # a stray entry: "should have one dict per wrapper"
            obs["unit_raw"] = {k: cvs(v) for k, v in d.items()}
            ns_in = argparse.Namespace(**d)
            obs["unit"] = outcome(lambda: p2._postprocessing(ns_in))
    return obs


# ------------------------------------------------------------------------------------------------
# model side


def chosen_of(raw, c):
    ch = {}
    if raw:
        for k, v in raw.items():
            if v.get("t") == "str":
                ch[k] = v["v"]
    return ch


def defaults_keys(c):
    """keys of `parser._defaults`: the program's own set_defaults and those inherited from parents="""
    ks = []
    for d in c["decls"] + [d for ps in c.get("parents", []) for d in ps["decls"]]:
        if d["k"] == "set_defaults":
            ks += list(d["kv"].keys())
    return sorted(set(ks))


def user_dests(c):
    out = []
    for d in c["decls"]:
        if d["k"] == "arg":
            out.append(decl_dest(d, c["parser"].get("prefix_chars", "-")))
    for ps in c.get("parents", []):
        out += [decl_dest(d) for d in ps["decls"] if d["k"] == "arg"]
    return sorted(set(out))


def decl_dest(d, prefix_chars="-"):
    kw = d.get("kw", {})
    if "dest" in kw:
        return kw["dest"]
    flags = d["flags"]
    if flags[0][0] not in prefix_chars:
        return flags[0]
    longs = [f for f in flags if len(f) > 2 and f[1] in prefix_chars]
    f = longs[0] if longs else flags[0]
    return f.lstrip(prefix_chars).replace("-", "_")


def pstate(c, raw):
    return {"wrappers": wrappers_of(c, chosen_of(raw, c)), "cargs0": cargs0_of(c), "defaults_keys": defaults_keys(c),
            "always_merge": False}


def pairs(d):
    return [[k, to_driver(v)] for k, v in d.items()]


def model_case(case, obs):
    c = case["case"]
    if case["op"] == "post.parse":
        e = obs["engine"]
        if e["o"] == "ok":
            eng = {"o": "ok", "raw": pairs(e["ns"]), "rest": e["rest"]}
            raw = e["ns"]
        elif e["o"] == "exit":
            eng, raw = {"o": "exit", "code": e["code"]}, None
        else:
            eng, raw = {"o": "raise"}, None
        ps = pstate(c, raw)
        pre = None
        if obs["pre_fail"] is not None:
            if obs["pre_fail"].get("o") != "exit":
                # declaring / setting up the parser RAISED: outside what the model of parse_known_args sees
                return {"skip": "preprocessing failed"}
            pre = obs["pre_fail"]["code"]      # the subgroup pre-parser exited (model parameter `pre`)
        return {"ps": ps, "engine": eng, "api": c["api"], "argv": c["argv"], "user_dests": user_dests(c), "pre": pre,
                "sp_dests": sorted({f["dest"] for w in ps["wrappers"] for f in w["fields"]})}
    if case["op"] == "post.set_defaults":
        return {"wrapper_dests": [r["dest"] for r in c["regs"]], "kw": c["kw"]}
    if obs["unit"]["o"] == "nosetup":
        return {"skip": "preprocessing failed"}
    raw = obs.get("unit_raw") or {}
    cargs0 = cargs0_of(c) + [[e["key"], []] for e in c.get("raw_edit", []) if e["k"] == "cargs_add"]
    ps = {"wrappers": wrappers_of(c, obs.get("unit_chosen") or {}), "cargs0": cargs0, "defaults_keys": defaults_keys(c),
          "always_merge": False}
    return {"ps": ps, "raw": pairs(raw), "ctor_fail": [k["name"] for k in c["classes"] if k.get("ctor_raises")]}


def split_ns(ns):
    attrs = {k: v for k, v in ns.items() if k != "subgroups"}
    sub = ns.get("subgroups")
    return attrs, (sub["v"] if sub is not None and sub.get("t") == "dict" else (None if sub is None else sub))


def reachable_classes(c):
    cls = {k["name"]: k for k in c["classes"]}
    reach = []

    def go(n):
        if n in reach:
            return
        reach.append(n)
        for f in cls[n]["fields"]:
            if f["ty"] in ("dc", "optdc"):
                go(f["cls"])
            elif f["ty"] == "subgroup":
                for v in f["choices"].values():
                    go(v)

    for r in c["regs"]:
        go(r["cls"])
    return [cls[n] for n in reach]


def expect_frame(case):
    """the hypotheses of the frame theorem (`FrameHyps`) are expected to hold on the engine's result of this case"""
    c = case["case"]
    return case["op"] == "post.parse" and c.get("disjoint", True) and not c.get("namespace") and c["api"] != "parse_intermixed_args"


def expect_wf(case):
    """… and so is `WellFormed` (the hypothesis of `c09_accept`): no Optional[dataclass] field, no set_defaults on a
    dataclass destination"""
    c = case["case"]
    return (expect_frame(case) and not dc_defaults(c)
            and not any(f["ty"] == "optdc" for k in reachable_classes(c) for f in k["fields"]))


def order_of(ns):
    return [k for k in ns.keys() if k != "subgroups"]


CTOR_MSG = "constructor of the generated class raises"


def project(case, obs):
    if case["op"] == "post.set_defaults":
        return {"passed": obs["passed"], "reads_file": obs["reads_file"]}
    if case["op"] == "post.parse":
        r = obs["sp"]
        if r["o"] == "ok":
            attrs, sub = split_ns(r["ns"])
            p = {"o": "ok", "attrs": attrs, "subgroups": sub, "keys": sorted(r["ns"].keys()), "rest": r["rest"],
                 "order": order_of(r["ns"])}
            if expect_frame(case):
                p["frame_hyps"] = True       # the model side DECIDES the hypotheses of c09_frame on this accepted run
            if expect_wf(case):
                p["well_formed"] = True      # … and of c09_accept
            return p
        if r["o"] == "exit":
            return {"o": "exit", "code": r["code"]}
        if obs["engine"]["o"] == "raise" and obs["engine"]["exc"] == r["exc"]:
            return {"o": "engine-raise"}
        return {"o": "raise", "exc": r["exc"]}
    r = obs["unit"]
    if r["o"] == "nosetup":
        return {"o": "unmodelled", "why": "preprocessing failed"}
    if r["o"] == "ok":
        attrs, sub = split_ns(r["ns"])
        return {"o": "ok", "attrs": attrs, "subgroups": sub, "keys": sorted(r["ns"].keys()), "order": order_of(r["ns"])}
    if r["o"] == "exit":
        return {"o": "exit", "code": r["code"]}
    if r["exc"] == "ValueError" and CTOR_MSG in r.get("msg", ""):
        return {"o": "raise", "exc": "ConstructorError"}
    return {"o": "raise", "exc": r["exc"]}


def project_model(case, mo):
    """`frame_hyps` / `well_formed` are compared only where the case promises them (see expect_frame / expect_wf)"""
    if not isinstance(mo, dict):
        return mo
    mo = dict(mo)
    ok = mo.get("o") == "ok"
    if not (ok and expect_frame(case)):
        mo.pop("frame_hyps", None)
    if not (ok and expect_wf(case)):
        mo.pop("well_formed", None)
    return mo


def model_unmodelled(mo):
    return isinstance(mo, dict) and mo.get("o") == "unmodelled"


# ------------------------------------------------------------------------------------------------
# the property itself (differential against the stdlib twin; independent of the model)


def compare(c, spo, two, reg_dests, subgroups_used, optional_dests=()):
    """the clauses of the property between the simple-parsing observation and a stdlib observation"""
    fails = []
    if decision(spo) != decision(two):
        fails.append({"clause": "decision", "detail": f"simple-parsing: {short(spo)}  argparse: {short(two)}"})
        return fails
    if spo["o"] != "ok":
        return fails
    user = {k: v for k, v in two["ns"].items() if not k.startswith("_sp_standin_")}
    for k, v in user.items():
        if k not in spo["ns"]:
            fails.append({"clause": "entries", "detail": f"entry {k!r} of argparse's namespace is missing"})
        elif spo["ns"][k] != v:
            fails.append({"clause": "entries", "detail": f"entry {k!r}: simple-parsing {spo['ns'][k]} argparse {v}"})
    if spo["rest"] != two["rest"]:
        fails.append({"clause": "leftovers", "detail": f"simple-parsing {spo['rest']} argparse {two['rest']}"})
    expected = set(user) | set(reg_dests) | ({"subgroups"} if subgroups_used else set())
    got = set(spo["ns"])
    if got - expected:
        fails.append({"clause": "keys-unexpected", "detail": f"attributes {sorted(got - expected)} should not be in the namespace"})
    if expected - got - set(optional_dests):
        fails.append({"clause": "keys-missing",
                      "detail": f"attributes {sorted(expected - got - set(optional_dests))} are missing from the namespace"})
    for k in got:
        if "." in k:
            fails.append({"clause": "dotted", "detail": f"dotted destination {k!r} leaked into the namespace"})
    return fails


def decision(o):
    """accept / help / reject (argparse's own error: status 2, or ArgumentError under exit_on_error=False) / other"""
    if o["o"] == "ok":
        return "accept"
    if o["o"] == "exit":
        return "exit0" if o["code"] == 0 else ("reject" if o["code"] == 2 else f"exit{o['code']}")
    if o["exc"] == "ArgumentError":
        return "reject"
    return "raise:" + o["exc"]


def short(o):
    return {k: o[k] for k in ("o", "code", "exc", "kind") if k in o}


def oracle(case, obs):
    c = case["case"]
    if case["op"] == "post.set_defaults":
        return []       # judged end to end by the post.parse programs that call set_defaults(config_path=…)
    if c.get("raw_edit") or any(k.get("ctor_raises") for k in c["classes"]):
        return []
    if not c.get("disjoint", True):
        # a user destination equal to an add_arguments destination: the code may refuse (RuntimeError); if it returns a
        # namespace, argparse's entry must not have been replaced silently.  Other overlaps are outside the property.
        if c.get("collision") not in ("flag", "dest") or obs["sp"]["o"] != "ok" or obs["twin"]["o"] != "ok":
            return []
        out = []
        for k, v in obs["twin"]["ns"].items():
            if not k.startswith("_sp_standin_") and obs["sp"]["ns"].get(k) != v:
                out.append({"clause": "entries", "detail": f"entry {k!r}: simple-parsing {obs['sp']['ns'].get(k)} argparse {v}"})
        return out
    if obs["twin"]["o"] == "raise" and obs["twin"]["exc"] != "ArgumentError":
        return []      # argparse itself crashes on this program: no reference behaviour to compare with
    if obs["pre_fail"] is not None and obs["pre_fail"].get("o") == "raise":
        if obs["twin"]["o"] == "raise" and obs["twin"]["exc"] == obs["pre_fail"].get("exc"):
            return []
        return [{"clause": "decision", "detail": f"declaring / setting up the simple-parsing parser raised {obs['pre_fail']}; "
                                                  f"argparse: {short(obs['twin'])}"}]
    # a destination registered with default=argparse.SUPPRESS appears only when one of its options was given
    return compare(c, obs["sp"], obs["twin"], [r["dest"] for r in c["regs"]], has_subgroup(c),
                   [r["dest"] for r in c["regs"] if r.get("suppress")])


def _intermixed(case, obs, fail):
    """parse_intermixed_args / parse_known_intermixed_args call the overridden parse_known_args twice, so the
    post-processing runs twice: RuntimeError "Namespace should not already have a '<dest>' attribute" """
    c = case["case"]
    if c["api"] != "parse_intermixed_args" or not c["regs"]:
        return False
    if (fail.get("clause") == "decision" and obs["sp"]["o"] == "raise" and obs["sp"]["exc"] == "RuntimeError"
            and "should not already have" in obs["sp"].get("msg", "")):
        return True
    # second face of the same defect: a POSITIONAL dataclass field is added lazily inside the first of the two inner
    # parses, after argparse has looked up (and switched off) the positionals it knows — the first pass then consumes
    # positionals / reports them missing
    return any(f.get("positional") for k in reachable_classes(c) for f in k["fields"])


def _help_after_bad_subgroup(case, obs, fail):
    """-h/--help together with an invalid (or value-less) subgroup choice: the subgroup pre-parser of
    `_resolve_subgroups` (parsing.py:632-678, built with add_help=False) rejects the choice with status 2 before the
    main parser gets to print the help (argparse: status 0)"""
    c = case["case"]
    if fail.get("clause") != "decision" or not has_subgroup(c):
        return False
    pf = obs.get("pre_fail")
    return (any(t in ("-h", "--help", "--hel", "--he", "--h", "+h", "++help", "++hel", "++he", "++h") for t in c["argv"]) and pf is not None and pf.get("o") == "exit"
            and pf.get("code") == 2 and decision(obs["sp"]) == "reject" and decision(obs["twin"]) == "exit0")


FINDINGS = {"C09-help-after-bad-subgroup": _help_after_bad_subgroup,
            "C09-intermixed": _intermixed}


def nontrivial(case, obs):
    c = case["case"]
    if case["op"] == "post.set_defaults":
        return bool(c["kw"])
    return bool(c["regs"]) and any(d["k"] == "arg" for d in c["decls"])


def tags(case, obs):
    c = case["case"]
    if case["op"] == "post.set_defaults":
        return ["op:post.set_defaults", "set_defaults:" + obs["o"] + (":" + str(obs.get("exc")) if obs["o"] == "raise" else ""),
                f"set_defaults:config_path:{'config_path' in c['kw']}"]
    t = [f"op:{case['op']}", f"api:{c['api']}", "sp:" + obs["sp"]["o"] + (str(obs["sp"].get("code", "")) if obs["sp"]["o"] == "exit" else ""),
         "twin:" + obs["twin"]["o"], f"regs:{len(c['regs'])}", f"parents:{len(c.get('parents', []))}",
         f"subgroup:{has_subgroup(c)}", f"disjoint:{c.get('disjoint', True)}"]
    if not c["argv"]:
        t.append("argv:empty")
    if c.get("namespace"):
        t.append("namespace=given")
    for r in c["regs"]:
        if r.get("suppress"):
            t.append("reg:suppress" + (":absent" if obs["sp"]["o"] == "ok" and r["dest"] not in obs["sp"]["ns"] else ""))
    if dc_defaults(c):
        t.append("reg:set_defaults-on-dataclass-dest")
    if any(f.get("init") is False for k in reachable_classes(c) for f in k["fields"]):
        t.append("class-with-init-false-field")
    if c.get("collision"):
        t.append("collision:" + c["collision"])
    if obs["sp"]["o"] == "ok" and c.get("disjoint", True) and case["op"] == "post.parse":
        # cross tags: on which kinds of programs the namespace clauses were actually evaluated
        t.append("acc")
        if c.get("parents"):
            t.append("acc+parents")
        if has_subgroup(c):
            t.append("acc+subgroup")
        if obs["sp"]["rest"]:
            t.append("acc+rest>0")
        if not c["argv"]:
            t.append("acc+argv-empty")
        if any(d["k"] == "set_defaults" for d in c["decls"]):
            t.append("acc+set_defaults")
        if any(r.get("suppress") for r in c["regs"]):
            t.append("acc+suppress")
        depth = max((w["level"] for w in wrappers_of(c, chosen_of(obs.get("raw"), c))), default=0)
        t.append(f"acc+depth:{depth}")
    if obs["sp"]["o"] == "exit":
        t.append("exitkind:" + str(obs["sp"].get("kind")))
    if obs["sp"]["o"] == "raise":
        t.append("raise:" + str(obs["sp"].get("exc")))
    for d in c["decls"]:
        if d["k"] == "arg":
            kw = d.get("kw", {})
            pos = d["flags"][0][0] not in c["parser"].get("prefix_chars", "-")
            t.append(("pos-nargs:" if pos else "opt-nargs:") + str(kw.get("nargs")))
            t.append("action:" + str(kw.get("action", "store")))
        else:
            t.append("decl:" + d["k"])
    for ps in c.get("parents", []):
        kinds = [d["k"] for d in ps["decls"] if d["k"] in ("group", "mutex")]
        t.append("parent:" + ("sp" if ps.get("sp") else "stdlib"))
        seen = set()
        for d in ps["decls"]:
            if d["k"] == "mutex":
                t.append("parent-mutex:" + ("required" if d.get("required") else "optional") + (":in-group" if d.get("in") is not None else ""))
            elif d["k"] == "group":
                t.append("parent-group")
            elif d["k"] == "set_defaults":
                for k, v in d["kv"].items():
                    t.append("parent-set_defaults:" + ("after-add" if k in seen else "before-or-foreign"))
                    if k in ("env", "opts"):
                        t.append("parent-shared-default:" + v.get("t", "?"))
            elif d["k"] == "arg":
                seen.add(decl_dest(d))
        del kinds
    for k in ("prefix_chars", "conflict_handler", "allow_abbrev", "argument_default", "exit_on_error"):
        if k in c["parser"]:
            t.append(f"ctor:{k}")
    if "unit" in obs:
        t.append("unit:" + obs["unit"]["o"] + (":" + obs["unit"].get("exc", "") if obs["unit"]["o"] == "raise" else ""))
    if obs.get("real_wrappers") is not None and obs["sp"]["o"] == "ok":
        if any(not f[2] for w in obs["real_wrappers"] if "fields" in w for f in w["fields"]):
            t.append("real-wrapper-with-init-false-field")
    return sorted(set(t))


# ------------------------------------------------------------------------------------------------
# generators

FIELD_POOL = [
    ("lr", "float", {"t": "float", "v": "0.1"}), ("epochs", "int", I(3)), ("name", "str", S("exp")),
    ("flag", "bool", {"t": "bool", "v": False}), ("dims", "list_int", {"t": "list", "v": [I(1), I(2)]}),
    ("pair", "tuple_int2", {"t": "tuple", "v": [I(4), I(5)]}), ("opt_k", "opt_int", None), ("seed", "int", None),
    ("k", "int", I(7)), ("width", "int", I(64)), ("depth", "int", I(2)), ("act", "str", S("relu")),
    ("use_x", "bool", {"t": "bool", "v": True}), ("le_ns", "int", I(0)),
]
REG_DESTS = ["cfg", "hp", "run"]


def gen_forest(rng, allow_subgroup=True):
    pool = FIELD_POOL[:]
    rng.shuffle(pool)

    def take(n):
        out = []
        for _ in range(n):
            if pool:
                out.append(pool.pop())
        return out

    def leafs(n, required_ok=True):
        fs = []
        for nm, ty, d in take(n):
            if d is None and ty == "int" and not required_ok:
                d = I(11)
            fs.append({"name": nm, "ty": ty, "default": d})
        fs.sort(key=lambda f: not (f["ty"] == "int" and f.get("default") is None))
        return fs

    classes = []
    n_reg = rng.choice([1, 1, 1, 2])
    regs = []
    dests = rng.sample(REG_DESTS, n_reg)
    for ri in range(n_reg):
        fields = leafs(rng.randint(1, 3))
        r = rng.random()
        if r < 0.35:
            ch = {"name": f"Inner{ri}", "fields": leafs(rng.randint(1, 2), required_ok=False)}
            if rng.random() < 0.3:
                gc = {"name": f"Deep{ri}", "fields": leafs(1, required_ok=False)}
                classes.append(gc)
                ch["fields"].append({"name": "deep", "ty": "dc", "cls": gc["name"]})
            classes.append(ch)
            fields.append({"name": "inner", "ty": "dc", "cls": ch["name"]})
        if 0.25 < r < 0.5:
            oc = {"name": f"Opt{ri}", "fields": leafs(rng.randint(1, 2), required_ok=False)}
            if rng.random() < 0.45:
                # a member nested inside the Optional member (itself Optional or built by a default factory): an option
                # for one of ITS leaves has to create the Optional member too (`_is_at_default`, fixes 3f531df / f635f07)
                gd = {"name": f"Below{ri}", "fields": leafs(rng.randint(1, 2), required_ok=False)}
                classes.append(gd)
                oc["fields"].append({"name": "below", "ty": rng.choice(["dc", "optdc"]), "cls": gd["name"]})
            classes.append(oc)
            fields.append({"name": "maybe", "ty": "optdc", "cls": oc["name"]})
        if allow_subgroup and ri == 0 and rng.random() < 0.25:
            sa = {"name": "SubA", "fields": leafs(1, required_ok=False)}
            sb = {"name": "SubB", "fields": leafs(rng.randint(1, 2), required_ok=False)}
            classes += [sa, sb]
            fields.append({"name": "model", "ty": "subgroup", "choices": {"a": "SubA", "b": "SubB"}, "default_key": "a"})
        if rng.random() < 0.12:
            fields.insert(0, {"name": "spos", "ty": "int", "default": I(9), "positional": True})
        rng.shuffle(fields)
        fields.sort(key=lambda f: not (f["ty"] == "int" and f.get("default") is None))   # required fields first
        if rng.random() < 0.12:
            # a field that is not a constructor argument: no FieldWrapper, no option, nothing in the namespace
            fields.append({"name": f"derived{ri}", "ty": "int", "default": I(5), "init": False})
        top = {"name": f"Top{ri}", "fields": fields}
        classes.append(top)
        reg = {"cls": top["name"], "dest": dests[ri]}
        plain_tree = not any(f["ty"] == "subgroup" for f in fields)
        if plain_tree and rng.random() < 0.08:
            reg["suppress"] = True           # add_arguments(..., default=argparse.SUPPRESS)
        elif rng.random() < 0.15 and not any(f["ty"] == "subgroup" for f in fields):
            ov = {}
            for f in fields:
                if f["ty"] == "int" and not f.get("positional") and f.get("init") is not False:
                    ov[f["name"]] = I(rng.randint(20, 30))
            if ov:
                reg["default"] = ov
        regs.append(reg)
    return classes, regs


OPT_POOL = [["--foo"], ["--bar"], ["-v", "--verbose"], ["-q"], ["--level"], ["--tag"], ["--baz-qux"], ["-n", "--num"],
            ["--mode"], ["--lev2"], ["-o", "--out"], ["--config_path"]]
POS_POOL = ["src", "dst", "items"]


def gen_arg(rng, flags, mutex=False):
    kw = {}
    a = rng.choice(["store", "store", "store", "store_true", "store_false", "store_const", "count", "append",
                    "append_const", "extend"])
    if a != "store":
        kw["action"] = a
    if a in ("store", "append", "extend"):
        if a == "extend":
            kw["nargs"] = rng.choice(["*", "+"])
        else:
            n = rng.choice([None, None, None, "?", "*", "+", 2, 1])
            if n is not None:
                kw["nargs"] = n
        if rng.random() < 0.4:
            kw["type"] = "int"
        if a == "store" and rng.random() < 0.2 and kw.get("nargs") in (None, "?"):
            kw["choices"] = [I(1), I(2), I(3)] if kw.get("type") == "int" else [S("x"), S("y"), S("zed")]
        if kw.get("nargs") == "?" and rng.random() < 0.7:
            kw["const"] = I(99) if kw.get("type") == "int" else S("CONST")
        if rng.random() < 0.4 and a == "store":
            kw["default"] = rng.choice([I(5), S("dflt"), "SUPPRESS"]) if "choices" not in kw else kw["choices"][0]
        if rng.random() < 0.1 and not mutex:
            kw["required"] = True
    elif a in ("store_const", "append_const"):
        kw["const"] = rng.choice([I(42), S("c")])
        if a == "store_const" and rng.random() < 0.3:
            kw["default"] = I(0)
    elif a == "count":
        if rng.random() < 0.6:
            kw["default"] = I(0)
    if rng.random() < 0.1:
        kw["dest"] = rng.choice(["alt_dest", "other"])
    return {"k": "arg", "flags": flags, "kw": kw}


def gen_pos(rng, name):
    kw = {}
    n = rng.choice([None, None, "?", "*", "+", 2])
    if n is not None:
        kw["nargs"] = n
    if rng.random() < 0.4:
        kw["type"] = "int"
    if n in ("?", "*") and rng.random() < 0.5:
        kw["default"] = I(8) if n == "?" else {"t": "list", "v": [I(8)]}
    return {"k": "arg", "flags": [name], "kw": kw}


def gen_program(rng):
    pc = {}
    if rng.random() < 0.22:
        # "-" first, "-" present but not first, "-" absent (the last only without dataclasses: their options are
        # always spelled with "-", which such a parser cannot declare)
        pc["prefix_chars"] = rng.choice(["+-", "+-", "+-", "-+", "-+", "-+", "+"])
    if rng.random() < 0.12:
        pc["conflict_handler"] = "resolve"
    if rng.random() < 0.1:
        pc["allow_abbrev"] = False
    if rng.random() < 0.14:
        pc["argument_default"] = rng.choice(["SUPPRESS", I(77)])
    if rng.random() < 0.05:
        pc["add_help"] = False
    if rng.random() < 0.05:
        pc["exit_on_error"] = False
    if rng.random() < 0.1:
        pc["cfg"] = {"cr": rng.choice(["AUTO", "EXPLICIT", "NONE"]), "dash": rng.choice(sp.ALL_DASH),
                     "gen": rng.choice(sp.ALL_GEN), "nest": rng.choice(sp.ALL_NEST)}
    opts = OPT_POOL[:]
    rng.shuffle(opts)
    if "prefix_chars" in pc:
        opts.insert(0, ["+p", "++plus"])
        only_plus = "-" not in pc["prefix_chars"]
        opts = [[("+" * (len(f) - len(f.lstrip("-"))) + f.lstrip("-")) if (only_plus or rng.random() < 0.4) else f for f in fl]
                for fl in opts]
    decls = []
    n_opt = rng.randint(1, 5)
    containers = 0
    cur = None
    for i in range(n_opt):
        r = rng.random()
        if r < 0.15:
            decls.append({"k": "group", "title": f"G{containers}", "kw": {}})
            cur = containers
            containers += 1
        elif r < 0.27 and len(opts) >= 2:
            d = {"k": "mutex", "required": rng.random() < 0.3}
            if cur is not None and rng.random() < 0.5 and decls[[j for j, x in enumerate(decls) if x["k"] in ("group", "mutex")][cur]]["k"] == "group":
                d["in"] = cur
            decls.append(d)
            mi = containers
            containers += 1
            for _ in range(rng.randint(2, 3)):
                if opts:
                    a = gen_arg(rng, opts.pop(), mutex=True)
                    a["in"] = mi
                    decls.append(a)
            continue
        elif r < 0.32:
            cur = None
        if not opts:
            break
        a = gen_arg(rng, opts.pop())
        if cur is not None:
            a["in"] = cur
        decls.append(a)
    poss = POS_POOL[:]
    for _ in range(rng.choice([0, 0, 1, 1, 2])):
        a = gen_pos(rng, poss.pop(0))
        decls.insert(rng.randint(0, len(decls)), a)
    # containers must be declared before use: re-number `in` after the inserts (positions of container decls are stable
    # relative to their users because inserts never move a user before its container)
    decls = fix_order(decls)
    if pc.get("conflict_handler") == "resolve":
        args = [d for d in decls if d["k"] == "arg" and d["flags"][0][0] in "-+"]
        if args:
            src = rng.choice(args)
            dup = gen_arg(rng, [src["flags"][-1]])
            if rng.random() < 0.5:
                decls.append({"k": "group", "title": "GR", "kw": {}})
                dup["in"] = sum(1 for d in decls if d["k"] in ("group", "mutex")) - 1
            decls.append(dup)
    if "argument_default" in pc and opts and rng.random() < 0.7:
        # an argument without its own default inside an explicit group: it must inherit the parser's argument_default
        decls.append({"k": "group", "title": "GD", "kw": {}})
        decls.append({"k": "arg", "flags": opts.pop(), "kw": rng.choice([{}, {"type": "int"}, {"nargs": "?"}]),
                      "in": sum(1 for d in decls if d["k"] in ("group", "mutex")) - 1})
    if isinstance(pc.get("argument_default"), dict) and any(
            d["k"] == "arg" and d.get("kw", {}).get("action") in ("append", "append_const", "extend", "count") for d in decls):
        pc["argument_default"] = "SUPPRESS"     # an int default under a list-valued action is a broken program
    if rng.random() < 0.3:
        dests = [decl_dest(d, pc.get("prefix_chars", "-")) for d in decls if d["k"] == "arg"
                 and d.get("kw", {}).get("action", "store") in ("store", "store_const", "store_true", "store_false")]
        kv = {}
        for _ in range(rng.randint(1, 2)):
            key = "config_path" if ("config_path" in dests and rng.random() < 0.5) else rng.choice(dests + ["extra", "extra2"])
            kv[key] = rng.choice([I(1000), S("sd"), {"t": "none"}])
        decls.insert(rng.randint(0, len(decls)), {"k": "set_defaults", "kv": kv})
        decls = fix_order(decls)
    return pc, decls


def fix_order(decls):
    """make every user of a container come after it, keeping `in` indices = creation order of containers"""
    out, pending = [], []
    created = 0
    order = []  # original container index -> new index
    cont_decls = [d for d in decls if d["k"] in ("group", "mutex")]
    ids = {id(d): i for i, d in enumerate(cont_decls)}
    newidx = {}
    for d in decls:
        if d["k"] in ("group", "mutex"):
            if d.get("in") is not None and d["in"] not in newidx:
                pending.append(d)
                continue
            dd = dict(d)
            if d.get("in") is not None:
                dd["in"] = newidx[d["in"]]
            newidx[ids[id(d)]] = created
            created += 1
            out.append(dd)
            still = []
            for p in pending:
                if p.get("in") in newidx:
                    pp = dict(p)
                    pp["in"] = newidx[p["in"]]
                    if p["k"] in ("group", "mutex"):
                        newidx[ids[id(p)]] = created
                        created += 1
                    out.append(pp)
                else:
                    still.append(p)
            pending = still
        else:
            if d.get("in") is not None and d["in"] not in newidx:
                pending.append(d)
                continue
            dd = dict(d)
            if d.get("in") is not None:
                dd["in"] = newidx[d["in"]]
            out.append(dd)
    del order
    for p in pending:  # containers never declared (cannot happen): drop the reference
        pp = dict(p)
        pp.pop("in", None)
        out.append(pp)
    return out


def value_for(rng, kw, good=True):
    if "choices" in kw:
        if good:
            c = rng.choice(kw["choices"])
            return c["v"]
        return "nochoice"
    if kw.get("type") == "int":
        return str(rng.randint(-3, 50)) if good else "notint"
    return rng.choice(["val", "a b", "x", "7", "-1"]) if good else "val"


def user_segment(rng, d, good=True, abbrev=True):
    kw = d.get("kw", {})
    flags = d["flags"]
    pos = flags[0][0] not in "-+"
    a = kw.get("action", "store")
    n = kw.get("nargs")
    if a in ("store_true", "store_false", "store_const", "count", "append_const"):
        cnt = 0
    elif n is None or n == 1:
        cnt = 1
    elif n == "?":
        cnt = rng.choice([0, 1])
    elif n == "*":
        cnt = rng.choice([0, 1, 2, 3])
    elif n == "+":
        cnt = rng.choice([1, 2, 3])
    else:
        cnt = int(n)
    if not good and a in ("store", "append", "extend") and rng.random() < 0.5:
        cnt = max(0, cnt - 1) if rng.random() < 0.5 else cnt + 1
        vals = [value_for(rng, kw, True) for _ in range(cnt)]
    else:
        vals = [value_for(rng, kw, good or cnt == 0) for _ in range(cnt)]
    if pos:
        return vals
    f = rng.choice(flags)
    if cnt == 1 and rng.random() < 0.3 and len(f) > 2:
        return [f + "=" + vals[0]]
    if abbrev and rng.random() < 0.15 and len(f) > 4 and f[:2] in ("--", "++"):
        f = f[: rng.randint(3, len(f) - 1)]  # abbreviation
    return [f] + vals


def sp_segments(rng, c, abbrev=True):
    """tokens addressing the dataclass options (FLAT spelling: --<field name>)"""
    cls = {k["name"]: k for k in c["classes"]}
    segs = []

    def walk(cn):
        for f in cls[cn]["fields"]:
            k = f["ty"]
            nm = f["name"]
            opt = ("-" if len(nm) == 1 else "--") + nm
            if f.get("init") is False:
                continue
            if k in ("dc", "optdc"):
                walk(f["cls"])
            elif k == "subgroup":
                key = rng.choice(["a", "b", "a", "b", "zz"])
                segs.append(("spsub", [opt, key], key != "zz"))      # never abbreviated: see note in sp_segments
                if key in f["choices"]:
                    walk(f["choices"][key])
            elif f.get("positional"):
                segs.append(("sppos", [str(rng.randint(0, 9))], True))
            elif k == "int" or k == "opt_int":
                good = rng.random() < 0.92
                segs.append(("sp", [opt, str(rng.randint(0, 99)) if good else "xx"], good))
            elif k == "float":
                segs.append(("sp", [opt, rng.choice(["0.5", "2", "1e-3"])], True))
            elif k == "str":
                segs.append(("sp", [opt, rng.choice(["abc", "w"])], True))
            elif k == "bool":
                toks = rng.choice([[opt], ["--no" + nm], [opt, "true"], [opt, "maybe"]])
                segs.append(("sp", toks, toks[-1] != "maybe"))
            elif k == "list_int":
                segs.append(("sp", [opt] + [str(rng.randint(0, 9)) for _ in range(rng.randint(0, 3))], True))
            elif k == "tuple_int2":
                n = rng.choice([2, 2, 2, 1, 3])
                segs.append(("sp", [opt] + [str(rng.randint(0, 9)) for _ in range(n)], n == 2))

    for r in c["regs"]:
        walk(r["cls"])
    # NOTE: the subgroup option itself is not abbreviated: the subgroup pre-parser runs with allow_abbrev=False, the
    # main parser accepts the abbreviation, so `--mode b` records subgroups={'…model': 'b'} next to the DEFAULT
    # alternative's instance — subgroup-choice behaviour (C07), outside this property.
    out = []
    for kind, toks, good in segs:
        if abbrev and kind == "sp" and toks[0].startswith("--") and len(toks[0]) > 5 and rng.random() < 0.12:
            toks = [toks[0][: rng.randint(4, len(toks[0]) - 1)]] + toks[1:]      # abbreviation (maybe a parent's exact option)
        out.append((kind, toks, good))
    return out


def gen_argv(rng, c, valid_only=False):
    segs = []
    args = []
    for prog, skip in [(c["decls"], 0.6)] + [(ps["decls"], 0.25) for ps in c.get("parents", [])]:
        kinds = [d["k"] for d in prog if d["k"] in ("group", "mutex")]
        for d in prog:
            if d["k"] == "arg":
                in_mutex = d.get("in") is not None and d["in"] < len(kinds) and kinds[d["in"]] == "mutex"
                args.append((d, skip if in_mutex else 0.0))
    chosen_member = {}
    if valid_only:
        # at most one member of every exclusive group, exactly one when it is required
        pi = 0
        for prog, _ in [(c["decls"], 0)] + [(ps["decls"], 0) for ps in c.get("parents", [])]:
            conts = [d for d in prog if d["k"] in ("group", "mutex")]
            for gi, g in enumerate(conts):
                if g["k"] == "mutex":
                    members = [d for d in prog if d["k"] == "arg" and d.get("in") == gi]
                    if members and (g.get("required") or rng.random() < 0.5):
                        chosen_member[(pi, gi)] = id(rng.choice(members))
            pi += 1
    argi = 0
    prog_of = []
    for pi, (prog, _) in enumerate([(c["decls"], 0)] + [(ps["decls"], 0) for ps in c.get("parents", [])]):
        prog_of += [pi for d in prog if d["k"] == "arg"]
    for d, skip in args:
        pi = prog_of[argi]
        argi += 1
        pos = d["flags"][0][0] not in "-+"
        req = d.get("kw", {}).get("required") or (pos and d.get("kw", {}).get("nargs") in (None, "+", 2))
        if valid_only and skip > 0:
            if chosen_member.get((pi, d["in"])) != id(d):
                continue
            req = True
        elif rng.random() < skip:
            continue
        p = (1.0 if valid_only else 0.9) if req else 0.45
        if rng.random() < p:
            good = valid_only or rng.random() < 0.93
            segs.append(user_segment(rng, d, good, abbrev=not valid_only))
            if not pos and rng.random() < 0.12 and not (valid_only and skip > 0):
                segs.append(user_segment(rng, d, True, abbrev=not valid_only))   # repeated option
    for kind, toks, good in sp_segments(rng, c, abbrev=not valid_only):
        if rng.random() < 0.5 and (good or not valid_only):
            segs.append(toks)
    # required dataclass leaves (no default): mostly supply them
    cls = {k["name"]: k for k in c["classes"]}
    for k in c["classes"]:
        for f in k["fields"]:
            if f["ty"] == "int" and f.get("default") is None and not f.get("positional"):
                opt = ("-" if len(f["name"]) == 1 else "--") + f["name"]
                if not any(s and s[0] == opt for s in segs) and (valid_only or rng.random() < 0.9):
                    segs.append([opt, str(rng.randint(0, 9))])
    del cls
    if not valid_only:
        r = rng.random()
        if r < 0.12:
            segs.append([rng.choice(["--zz", "--unknown=3", "-z", "--lr2", "--fo", "--le", "--l", "--e"])] +
                        ([rng.choice(["1", "x"])] if rng.random() < 0.5 else []))
        elif r < 0.18:
            segs.append(["extra_pos"])
        elif r < 0.22:
            segs.append(["--"])
        elif r < 0.25:
            segs.append([rng.choice(["-h", "--help"])])
        elif r < 0.28:
            segs.append([rng.choice(["-5", "-1.5"])])
        if "prefix_chars" in c["parser"]:
            r = rng.random()
            if r < 0.3:
                segs.append([rng.choice(["-h", "--help", "+h", "++help"])])      # help under both spellings
            elif r < 0.4:
                segs.append([rng.choice(["+z", "++zz", "++unknown=3", "++he", "+5"])])
    rng.shuffle(segs)
    return [t for s in segs for t in s]


def gen_parent_decls(rng, pool, pi, prev_dests):
    """the program of one parent: plain options, an argument group, a (required) mutually exclusive group — directly
    or nested in an argument group —, and set_defaults placed BEFORE or AFTER the add_argument of the same dest, or
    naming a dest that only an earlier parent declares"""
    decls, ncont = [], 0
    shape = rng.choice(["plain", "plain", "mutex", "mutex", "group-mutex", "group-mutex", "group"])
    g = None
    if shape in ("group", "group-mutex"):
        decls.append({"k": "group", "title": f"PG{pi}", "kw": {}})
        g, ncont = ncont, ncont + 1
    if shape in ("mutex", "group-mutex"):
        m = {"k": "mutex", "required": rng.random() < 0.4}
        if g is not None:
            m["in"] = g
        decls.append(m)
        mi, ncont = ncont, ncont + 1
        for _ in range(rng.randint(2, 3)):
            a = gen_arg(rng, pool.pop(), mutex=True)
            a["kw"].pop("dest", None)
            a["in"] = mi
            decls.append(a)
    for _ in range(rng.randint(0 if shape != "plain" else 1, 2)):
        a = gen_arg(rng, pool.pop())
        a["kw"].pop("dest", None)
        if g is not None and rng.random() < 0.6:
            a["in"] = g
        decls.append(a)
    r = rng.random()
    if r < 0.35:
        # set_defaults(x=A) first, then add_argument("--x", default=B): argparse keeps B for the action
        flags = pool.pop()
        decls.append({"k": "set_defaults", "kv": {decl_dest({"flags": flags}): rng.choice([I(5), S("pd")])}})
        kw = rng.choice([{"default": S("own")}, {"default": I(6)}, {"default": S("8"), "type": "int"}, {}])
        decls.append({"k": "arg", "flags": flags, "kw": dict(kw)})
    elif r < 0.6:
        own = [decl_dest(d) for d in decls if d["k"] == "arg" and d["kw"].get("action", "store") in
               ("store", "store_const", "store_true", "store_false")]
        key = rng.choice(own + ["pextra", "pextra2"])
        decls.insert(rng.randint(0, len(decls)) if rng.random() < 0.5 else len(decls),
                     {"k": "set_defaults", "kv": {key: rng.choice([I(5), S("pd"), {"t": "none"}])}})
        decls = fix_order(decls)
    if prev_dests and rng.random() < 0.5:
        # only a default for an option that an EARLIER parent declares
        decls.append({"k": "set_defaults", "kv": {rng.choice(prev_dests): rng.choice([I(7), S("p2")])}})
    return decls


def gen_case(rng, op, kind="normal"):
    classes, regs = gen_forest(rng)
    pc, decls = gen_program(rng)
    no_dash = "-" not in pc.get("prefix_chars", "-")
    if no_dash:
        classes, regs, kind = [], [], "plain"
    # place the add_arguments calls inside the program
    for i in range(len(regs)):
        decls.insert(rng.randint(0, len(decls)), {"k": "add_arguments", "reg": i})
    regpos = [d["reg"] for d in decls if d["k"] == "add_arguments"]
    # registrations must happen in index order for determinism of dest clashes: renumber in program order
    order = {old: new for new, old in enumerate(regpos)}
    for d in decls:
        if d["k"] == "add_arguments":
            d["reg"] = order[d["reg"]]
    regs = [regs[old] for old in regpos]
    decls = fix_order(decls)
    c = {"parser": pc, "decls": decls, "classes": classes, "regs": regs,
         "api": rng.choice(["parse_args", "parse_known_args"]), "argv": [], "disjoint": True}
    if no_dash:
        c["api"] = "parse_known_args" if rng.random() < 0.7 else c["api"]
    cls_by = {k["name"]: k for k in classes}
    for i, r in enumerate(regs):
        # parser.set_defaults(<dest>={field: value}) AFTER add_arguments: stored in parser.constructor_arguments
        top = cls_by[r["cls"]]
        ints = [f for f in top["fields"] if f["ty"] == "int" and f.get("default") is not None and not f.get("positional")
                and f.get("init") is not False]
        if ints and not r.get("suppress") and not any(f["ty"] == "subgroup" for f in top["fields"]) and rng.random() < 0.07:
            pos = max(j for j, d in enumerate(c["decls"]) if d["k"] == "add_arguments" and d["reg"] == i)
            c["decls"].insert(rng.randint(pos + 1, len(c["decls"])),
                              {"k": "set_defaults_dc", "reg": i, "kv": {f["name"]: I(rng.randint(40, 49)) for f in ints[:2]}})
    if op == "post.parse" and kind == "normal" and not no_dash:
        r = rng.random()
        if r < 0.03:
            c["api"] = "parse_intermixed_args"     # third argparse entry point (open finding C09-intermixed)
        elif r < 0.07:
            c["namespace"] = {"pre": I(1)}         # a pre-filled namespace= object
    if kind == "parents" or (kind == "normal" and rng.random() < 0.08):
        # stdlib or simple-parsing parents; their options may be proper prefixes of dataclass options (an exact match
        # beats the abbreviation), they may carry set_defaults (for their own, the child's or undeclared dests)
        pool = [["--pv"], ["--pw"], ["-P", "--pflag"], ["--ep"], ["--wid"], ["--na"], ["--dep"], ["--di"], ["--use"],
                ["--json"], ["--yaml"], ["--px"], ["-Y", "--py"], ["--pa"], ["--pb"], ["--pc"], ["--pd"]]
        rng.shuffle(pool)
        parents = []
        for pi in range(rng.choice([1, 1, 2, 2, 2, 3])):
            prev = [decl_dest(d) for ps in parents for d in ps["decls"] if d["k"] == "arg"
                    and d["kw"].get("action", "store") == "store" and d["kw"].get("nargs") is None]
            parents.append({"sp": rng.random() < 0.5, "decls": gen_parent_decls(rng, pool, pi, prev)})
        if rng.random() < 0.7:
            # the SAME parser-level default on several parents (and maybe on the child): argparse's plain
            # `_defaults.update` lets the later one win, whatever the kinds of the values (int / str / None / list /
            # dict / nested dict — nothing is merged)
            shared = rng.choice(["env", "opts"])
            kinds = [I(3), S("inherit"), {"t": "none"}, {"t": "list", "v": [I(1), I(2)]},
                     {"t": "dict", "v": {"A": S("1")}}, {"t": "dict", "v": {"B": S("2")}},
                     {"t": "dict", "v": {"A": {"t": "dict", "v": {"x": I(1)}}}},
                     {"t": "dict", "v": {"A": {"t": "dict", "v": {"y": I(2)}}, "C": {"t": "list", "v": [I(9)]}}}]
            for ps in parents:
                if rng.random() < 0.85:
                    ps["decls"].insert(rng.randint(0, len(ps["decls"])), {"k": "set_defaults", "kv": {shared: rng.choice(kinds)}})
                    ps["decls"] = fix_order(ps["decls"])
            if rng.random() < 0.3:
                c["decls"].insert(rng.randint(0, len(c["decls"])), {"k": "set_defaults", "kv": {shared: rng.choice(kinds)}})
                c["decls"] = fix_order(c["decls"])
        c["parents"] = parents
    if kind == "collision":
        c["disjoint"] = False
        dest = regs[0]["dest"]
        how = rng.choice(["flag", "dest", "field-dest", "set_defaults-dotted", "set_defaults-dict", "subgroups-dest",
                          "subgroups-option"])
        if has_subgroup(c) and rng.random() < 0.5:
            how = rng.choice(["subgroups-dest", "subgroups-option"])
        if how.startswith("subgroups-") and not has_subgroup(c):
            how = "flag"
        c["collision"] = how
        if how == "subgroups-dest":
            # the add_arguments destination is literally `subgroups` (the reserved namespace attribute)
            regs[0]["dest"] = "subgroups"
        elif how == "subgroups-option":
            c["decls"].append({"k": "arg", "flags": ["--subgroups"], "kw": rng.choice([{}, {"default": S("u")}])})
        if how == "flag":
            c["decls"].append({"k": "arg", "flags": ["--" + dest], "kw": rng.choice([{}, {"default": "SUPPRESS"}, {"default": I(1)}])})
        elif how == "dest":
            c["decls"].append({"k": "arg", "flags": ["--clash"], "kw": {"dest": dest}})
        elif how == "field-dest":
            f0 = next((f for k in classes if k["name"] == regs[0]["cls"] for f in k["fields"]
                       if f["ty"] in ("int", "str", "float", "opt_int")), None)
            if f0 is not None:
                c["decls"].append({"k": "arg", "flags": ["--clash"], "kw": {"dest": dest + "." + f0["name"]}})
        elif how == "set_defaults-dict":
            # parser-level default stored under the destination BEFORE add_arguments: the one collision the code overwrites
            c["decls"].insert(0, {"k": "set_defaults", "kv": {dest: {"t": "dict", "v": {}}}})
        else:
            c["decls"].append({"k": "set_defaults", "kv": {dest + ".zzz": I(3)}})
    c["argv"] = gen_argv(rng, c, valid_only=rng.random() < (0.7 if op == "post.postprocess" else 0.5))
    if rng.random() < 0.04:
        c["argv"] = []
    if op == "post.postprocess" and kind == "ctor":
        # a root class whose constructor raises: the exception must come out of _postprocessing unchanged
        for k in classes:
            if k["name"] == regs[0]["cls"]:
                k["ctor_raises"] = True
        c["raw_edit"] = [{"k": "set", "key": "plain", "v": S("u")}]
    if op == "post.postprocess" and kind == "edit":
        edits = []
        ws = wrappers_of(c, {})
        keys = [f["dest"] for w in ws for f in w["fields"]]
        convs = {f["dest"]: f["conv"] for w in ws for f in w["fields"]}
        for _ in range(rng.randint(1, 2)):
            r = rng.random()
            if r < 0.35 and keys:
                edits.append({"k": "del", "key": rng.choice(keys)})
            elif r < 0.6:
                edits.append({"k": "set", "key": rng.choice([w["dest"] for w in ws]), "v": I(1)})
            elif r < 0.75:
                edits.append({"k": "set", "key": rng.choice(["zz.top", "user.dotted", "subgroups2", "plain"]), "v": S("u")})
            elif r < 0.82:
                edits.append({"k": "cargs_add", "key": rng.choice(["zz", "cfg.nowhere"])})
            elif keys:
                key = rng.choice(keys)
                v = rng.choice([I(5), S("s"), {"t": "none"}]) if convs[key] == "id" else rng.choice(
                    [{"t": "list", "v": [I(1), I(2)]}, {"t": "tuple", "v": [I(3), I(4)]}])
                edits.append({"k": "set", "key": key, "v": v})
        c["raw_edit"] = edits
    out = {"op": op, "case": c}
    if c["api"] == "parse_intermixed_args":
        out["model"] = False      # the model covers parse_known_args / parse_args; this API is judged by the oracle only
    return out


def gen_set_defaults_case(rng):
    classes, regs = gen_forest(rng, allow_subgroup=False)
    for r in regs:
        r.pop("suppress", None)
    pool = ["foo", "bar", "extra", "config_path", "config_path", "level"] + [r["dest"] for r in regs]
    kw = sorted(set(rng.sample(pool, rng.randint(1, 3))))
    return {"op": "post.set_defaults", "case": {"classes": classes, "regs": regs, "kw": kw, "cp_truthy": rng.random() < 0.6}}


def gen(rng, tier):
    n = 330 if tier == "quick" else 3600
    for i in range(n):
        r = rng.random()
        kind = "normal"
        if r < 0.05:
            kind = "collision"
        elif r < 0.14:
            kind = "parents"
        yield gen_case(rng, "post.parse", kind)
    for i in range(n // 3):
        r = rng.random()
        yield gen_case(rng, "post.postprocess", "edit" if r < 0.55 else ("ctor" if r < 0.62 else ("collision" if r < 0.75 else "normal")))
    for i in range(n // 15):
        yield gen_set_defaults_case(rng)


# ------------------------------------------------------------------------------------------------
# shrinking / neighbours


def shrink(case):
    c = case["case"]
    op = case["op"]
    for i in range(len(c["argv"])):
        yield {"op": op, "case": dict(c, argv=c["argv"][:i] + c["argv"][i + 1:])}
    for i, d in enumerate(c["decls"]):
        if d["k"] in ("arg", "set_defaults"):
            yield {"op": op, "case": dict(c, decls=c["decls"][:i] + c["decls"][i + 1:])}
    for k in ("prefix_chars", "conflict_handler", "allow_abbrev", "argument_default", "add_help", "exit_on_error", "cfg"):
        if k in c["parser"]:
            yield {"op": op, "case": dict(c, parser={a: b for a, b in c["parser"].items() if a != k})}
    if len(c["regs"]) > 1:
        keep = c["regs"][:1]
        decls = [d for d in c["decls"] if not (d["k"] == "add_arguments" and d["reg"] != 0)]
        yield {"op": op, "case": dict(c, regs=keep, decls=decls)}
    for ci, k in enumerate(c["classes"]):
        for fi in range(len(k["fields"])):
            if len(k["fields"]) > 1:
                nc = [dict(x, fields=list(x["fields"])) for x in c["classes"]]
                del nc[ci]["fields"][fi]
                yield {"op": op, "case": dict(c, classes=nc)}
    if c.get("parents"):
        yield {"op": op, "case": {k: v for k, v in c.items() if k != "parents"}}


def neighbours(case, rng):
    c = case["case"]
    for _ in range(20):
        yield {"op": case["op"], "case": dict(c, argv=gen_argv(rng, c))}
    for api in ("parse_args", "parse_known_args"):
        yield {"op": case["op"], "case": dict(c, api=api)}


_ = json
