"""C11 — ALWAYS_MERGE distributes one shared option over all merged destinations."""
from __future__ import annotations

import argparse
import copy
import re

from harness.core import sp
from harness.core.trees import Universe, get_path

PID = "C11"
RULE = ("a case is one dataclass C over {int,float,str,bool,enum (plain Enum, IntEnum, str-mixin Enum incl. one whose values "
        "are other members' names),List[T],Tuple[T,..] (homogeneous, and Tuple[int,str] / Tuple[str,int]),Tuple[T,...]} "
        "registered at n destinations under ALWAYS_MERGE in one of four shapes (flat: C at d0..d{n-1}, optionally with "
        "add_arguments(default=instance) at all / some / one of the destinations; wrapped: P{m:C} at n destinations, "
        "with/without a default_factory and an own field of P; siblings: S{m0..m{k-1}:C} at r destinations, n=r*k, "
        "per-member default instances, with/without an own field of S also for r>1; deep: Q{p:P{m:C}} at n destinations), "
        "with 1-3 fields, defaults incl. containers whose length equals n, and a command line giving each field absent / "
        "0..n+1 tokens (container tokens bare, quoted-blank-separated, comma, [..] and (..) forms; valid and invalid words), "
        "sometimes the same option twice. A systematic sweep n x field type x value count x default length is enumerated in "
        "both tiers, random multi-field cases on top; unit cases drive _parse_multiple_containers, FieldWrapper.__call__ "
        "(duplicate_if_needed + zip + postprocess), FieldWrapper.default/arg_options and DataclassWrapper.merge directly. "
        "Non-trivial = an end-to-end case where some field is given >= 1 token or has a container default; distinct by "
        "canonical JSON.")
ASSUMPTIONS = [
    "what a token denotes (oracle): a bare word is a one-element container; `[a,b]`, `a,b` and the quoted `a b` are the "
    "container of their words, each converted by the item type of ITS position; a `(..)` token is Python tuple syntax and "
    "is given a meaning only when every word is a Python literal (bools written True/False) — for other `(..)` tokens "
    "(the code keeps the parentheses: List[str] `(a,b)` gives ['(a','b)']) and for words that are no value of the item "
    "type the oracle demands nothing for that field",
    "an option given twice is compared with the model only (argparse `store`: last occurrence); the property text does "
    "not say which occurrence counts",
    "argparse nargs '*'/'+' consumption and type=/choices= application (stdlib)",
    "ast.literal_eval on the generated word shapes: canonical ints/floats/True/False/None are literals, identifier-like "
    "words are not (stdlib); generated float words satisfy repr(float(w)) == w",
    "tokens are ASCII words without blanks, commas, brackets or quotes; they never start with '-' followed by a letter",
]
TRUSTED = ["stdlib argparse and ast.literal_eval", "harness rendering of structured tokens to command-line strings "
           "(re-checked against the model's Tok.render in op merge.tok)"]
EXHAUSTIVE = {"quick": False, "thorough": False}
THOROUGH_ROUNDS = 2   # thorough tier: this many generator passes with derived PRNG states (vcheck)
MANIFEST = {
    "text": ("Proof (partial: four open findings name the gaps). Lean theorems over the model of the reused FieldWrapper, for "
             "every n >= 2 (no bound) and every field type (scalar, List, Tuple): option absent -> every destination gets the "
             "dataclass default whole (any default, a list/tuple of any length incl. n), or its own default instance's value "
             "when every destination carries one; one value -> every destination gets it; n values -> the i-th destination "
             "gets the i-th value in registration order (also stated by destination NAME for directly registered classes); any "
             "other count (incl. 0 with the option present) -> InconsistentArgumentError; a successful run has exactly one "
             "value per destination; tokens the type= callable accepts never fail later (success theorems); every token of a "
             "list/tuple field is one whole container whose items are values of the container's item type (a bare item is a "
             "one-element container; `[a,b]`, `a,b`, `a b` agree for identifier-like words; member names give members, "
             "str2bool words booleans); two fields of one class do not interfere; the last of two occurrences wins. "
             "DataclassWrapper.merge keeps destinations and default instances in registration order for directly registered "
             "classes and for a nested member below registered classes (any n). Witness theorems refute the full statements "
             "where the code fails them: heterogeneous tuples (all positions parsed by the first item type), default "
             "instances at only some destinations, member-major order when the enclosing class has an own field. Sampled "
             "only (correspondence + oracle, no theorem): what int/float words denote, deeper nesting than one member "
             "level, more than two fields, the mixed-levels finding."),
    "note": ("Trusted: Lean kernel + propext/Classical.choice/Quot.sound; stdlib argparse and ast.literal_eval (their effect on "
             "the structured token shapes is modelled, not verified); the harness (incl. which wrappers clash first, checked "
             "by op merge.dests). Modelled not verified: conflicts.py:324-361, dataclass_wrapper.py:255-275,422-445, "
             "field_wrapper.py:168-229,356-464,466-542,720-833, utils.py:623-727."),
    "technique": "Lean 4 induction/arith over n and token lists + differential correspondence on real ALWAYS_MERGE parsers",
    "design_ref": "DESIGN.md section 5, C11",
}

COLORS = ["RED", "GREEN", "BLUE"]
ENUM_T = {"k": "enum", "cls": "Color", "members": COLORS, "values": [0, 1, 2]}                       # plain Enum
PRIO_T = {"k": "enum", "cls": "Prio", "members": ["P0", "P1", "P2"], "values": [0, 1, 2]}          # IntEnum (P0 is falsy)
LEVEL_T = {"k": "enum", "cls": "Level", "members": ["LOW", "MID", "HIGH", "NONE"],                  # class Level(str, Enum)
           "values": ["low", "mid", "high", ""]}                                                   #   (NONE is falsy)
SWAP_T = {"k": "enum", "cls": "SwapS", "members": ["UP", "DOWN", "LEFT", "RIGHT"],                  # str-mixin whose VALUES are
          "values": ["DOWN", "UP", "RIGHT", "LEFT"]}                                               #   other members' names
ENUMS = [ENUM_T, PRIO_T, LEVEL_T, SWAP_T]
STR_MIXIN = {"Level", "SwapS"}     # members are `str` instances (Level via trees.ENUM_MIXINS, SwapS built here)
ENUM_BY_CLS = {e["cls"]: e for e in ENUMS}
ITEMS = [{"k": "int"}, {"k": "float"}, {"k": "str"}, {"k": "bool"}] + ENUMS


def new_universe():
    """a fresh Universe holding the four enum classes of this plug-in"""
    import enum as _enum

    U = Universe()
    U.enums["SwapS"] = _enum.Enum("SwapS", dict(zip(SWAP_T["members"], SWAP_T["values"])), type=str)
    for e in (ENUM_T, PRIO_T, LEVEL_T):
        U.enum(e["cls"], e["members"], e["values"])
    return U


def enum_invalid(it):
    """words that are no member NAME: foreign words, and member VALUES that are not names"""
    out = ["PINK", "4", it["members"][0].lower()]
    out += [str(v) for v in it["values"] if str(v) and str(v) not in it["members"] and " " not in str(v)]
    return [w for w in out if w not in it["members"]]
VALID = {
    "int": ["0", "4", "5", "-3", "12", "100", "7"],
    "float": ["1.5", "-0.25", "2.0", "3", "0.5", "10.75", "-2"],
    "str": ["a", "bc", "xyz", "q_r", "hello", "4", "True", "None", "1.5", "ab"],
    "bool": ["true", "false", "True", "False", "1", "0", "yes", "no", "t", "N", "Y", "f"],
    "enum": COLORS,
}
INVALID = {
    "int": ["x", "1.5", "abc"],
    "float": ["x", "abc"],
    "str": [],
    "bool": ["maybe", "2", "tru"],
    "enum": ["PINK", "4", "red"],
}
TRUE_W = ["yes", "true", "t", "y", "1"]
FALSE_W = ["no", "false", "f", "n", "0"]
LIT_RE = re.compile(r"-?(0|[1-9][0-9]*)(\.[0-9]+)?$")


def is_container(ty):
    return ty["k"] in ("list", "tuple", "vtuple")


def item_types(ty, m):
    """the item type of each of m positions of a container annotation"""
    if ty["k"] in ("list", "vtuple"):
        return [ty["item"]] * m
    return list(ty["items"]) if len(ty["items"]) == m else None


def is_literal_word(w):
    return w in ("True", "False", "None") or bool(LIT_RE.match(w))


# ------------------------------------------------------------------------------------------------
# token rendering (mirrors the model's Tok.render; compared in op merge.tok)


def render(tok):
    k = tok["k"]
    if k == "bare":
        return tok["w"]
    if k == "spaced":
        return " ".join(tok["ws"])
    if k == "comma":
        return ",".join(tok["ws"])
    ws = tok["ws"]
    if tok["sq"]:
        return "[" + ",".join(ws) + "]"
    if len(ws) == 1:
        return "(" + ws[0] + ",)"
    return "(" + ",".join(ws) + ")"


def tok_words(tok):
    return [tok["w"]] if tok["k"] == "bare" else list(tok["ws"])


# ------------------------------------------------------------------------------------------------
# the specification of values (independent of the model): what a word / token denotes


class Invalid(Exception):
    pass


def spec_item(it, w):
    k = it["k"]
    if k == "int":
        if not re.fullmatch(r"-?[0-9]+", w):
            raise Invalid(w)
        return {"t": "int", "v": str(int(w))}
    if k == "float":
        if not re.fullmatch(r"-?[0-9]+(\.[0-9]+)?", w):
            raise Invalid(w)
        return {"t": "float", "v": repr(float(w))}
    if k == "str":
        return {"t": "str", "v": w}
    if k == "bool":
        v = w.strip().lower()
        if v in TRUE_W:
            return {"t": "bool", "v": True}
        if v in FALSE_W:
            return {"t": "bool", "v": False}
        raise Invalid(w)
    if k == "enum":
        if w not in it["members"]:
            raise Invalid(w)
        return {"t": "enum", "cls": it["cls"], "v": w}
    raise ValueError(k)


def spec_container(ty, words):
    its = item_types(ty, len(words))
    if its is None:
        raise Invalid("arity")
    return {"t": "list" if ty["k"] == "list" else "tuple", "v": [spec_item(it, w) for it, w in zip(its, words)]}


def spec_value(ty, tok):
    """the value one token denotes for a field of this type"""
    if is_container(ty):
        if tok["k"] == "bracket" and not tok["sq"] and not all(is_literal_word(w) for w in tok["ws"]):
            raise Invalid("(..) is Python tuple syntax: only defined for Python literals")
        if tok["k"] == "bracket" and not tok["sq"]:
            its = item_types(ty, len(tok["ws"])) or []
            if any(it["k"] == "bool" and w not in ("True", "False") for it, w in zip(its, tok["ws"])):
                raise Invalid("inside Python tuple syntax a bool is written True/False")
        return spec_container(ty, tok_words(tok))
    return spec_item(ty, render(tok))


# ------------------------------------------------------------------------------------------------
# case construction


def dests_of(c):
    """the destinations in REGISTRATION order (registrations in order, members of one registration in field order)"""
    if c["shape"] == "flat":
        return [f"d{a}" for a in range(c["r"])]
    if c["shape"] == "wrapped":
        return [f"d{a}.m" for a in range(c["r"])]
    if c["shape"] == "deep":
        return [f"d{a}.p.m" for a in range(c["r"])]
    return [f"d{a}.m{b}" for a in range(c["r"]) for b in range(c["k"])]


def merged_order(c):
    """position in the merged wrapper's `destinations` -> index into dests_of(c).  Registration order, except for
    siblings at r > 1 destinations when S has an own field: the S wrappers clash (and merge) first, their children
    pairwise, so the order becomes member-major (open finding C11-order-depends-on-own-field; op merge.dests checks
    this computation against the real wrapper tree)."""
    if c["shape"] == "siblings" and c["r"] > 1 and c.get("own"):
        return [a * c["k"] + b for b in range(c["k"]) for a in range(c["r"])]
    return list(range(n_of(c)))


def n_of(c):
    return c["r"] * (c["k"] if c["shape"] == "siblings" else 1)


def dest_default(c, fi, j):
    """the dataclass default of field fi at destination j (a V, or None when there is none)"""
    f = c["fields"][fi]
    if c["shape"] == "flat" and c.get("reg_mask") and c["reg_mask"][j] and f.get("reg_overrides"):
        ov = f["reg_overrides"][j]
        if ov is not None:
            return ov
    if c["shape"] == "siblings" and c.get("member_default") and f.get("overrides"):
        ov = f["overrides"][j % c["k"]]
        if ov is not None:
            return ov
    return f["default"]


def src_of(c, fi):
    """where FieldWrapper.default takes the un-packaged default from (checked against the code by op merge.pack)"""
    f = c["fields"][fi]
    if c["shape"] == "flat" and c.get("reg_mask") and c["reg_mask"][0]:
        # `add_arguments(C, dest, default=inst)`: the merged wrapper carries the instances that were given — when the
        # FIRST registration has one (otherwise `self.defaults.extend` works on a temporary list and all are dropped)
        return {"k": "parents", "vs": [dest_default(c, fi, j) for j in range(c["r"]) if c["reg_mask"][j]]}
    if c["shape"] == "flat" or not c.get("member_default"):
        return {"k": "field", "v": f["default"]}
    return {"k": "parents", "vs": [dest_default(c, fi, j) for j in merged_order(c)]}


def class_specs(c):
    specs = []
    fields = []
    for f in c["fields"]:
        d = {"kind": "missing"} if f["default"] is None else {"kind": "value", "v": f["default"]}
        fields.append({"name": f["name"], "ty": f["ty"], "default": d})
    specs.append({"name": "C", "fields": fields})
    own = [{"name": "xown", "ty": {"k": "int"}, "default": {"kind": "value", "v": {"t": "int", "v": "9"}}}] if c.get("own") else []
    if c["shape"] == "wrapped":
        md = {"kind": "factory", "v": None} if c.get("member_default") else {"kind": "missing"}
        # a member without default must precede defaulted fields
        members = [{"name": "m", "ty": {"k": "dc", "cls": "C"}, "default": md}]
        specs.append({"name": "P", "fields": (members + own) if not c.get("member_default") else (own + members)})
    elif c["shape"] == "deep":      # Q{p: P{m: C}}: the merged class two levels below the registered one
        md = {"kind": "factory", "v": None} if c.get("member_default") else {"kind": "missing"}
        specs.append({"name": "P", "fields": [{"name": "m", "ty": {"k": "dc", "cls": "C"}, "default": md}]})
        specs.append({"name": "Q", "fields": [{"name": "p", "ty": {"k": "dc", "cls": "P"}, "default": md}]})
    elif c["shape"] == "siblings":
        members = []
        for b in range(c["k"]):
            if not c.get("member_default"):
                md = {"kind": "missing"}
            else:
                ov = [[f["name"], f["overrides"][b]] for f in c["fields"] if f.get("overrides") and f["overrides"][b] is not None]
                md = {"kind": "factory", "v": {"t": "inst", "cls": "C", "v": ov}} if ov else {"kind": "factory", "v": None}
            members.append({"name": f"m{b}", "ty": {"k": "dc", "cls": "C"}, "default": md})
        specs.append({"name": "P", "fields": (members + own) if not c.get("member_default") else (own + members)})
    return specs


def build_parser(c):
    U = new_universe().add_classes(class_specs(c))
    sp.reset_globals()
    parser = sp.make_parser({"cr": "ALWAYS_MERGE"})
    top = U.classes[{"flat": "C", "deep": "Q"}.get(c["shape"], "P")]
    for a in range(c["r"]):
        if c["shape"] == "flat" and c.get("reg_mask") and c["reg_mask"][a]:
            kw = {f["name"]: U.val(f["reg_overrides"][a]) for f in c["fields"]
                  if f.get("reg_overrides") and f["reg_overrides"][a] is not None}
            parser.add_arguments(top, dest=f"d{a}", default=top(**kw))
        else:
            parser.add_arguments(top, dest=f"d{a}")
    return parser, U


def argv_of(c):
    argv = []
    for occ in c["argv"]:
        argv.append("--" + c["fields"][occ["f"]]["name"])
        argv += [render(t) for t in occ["toks"]]
    return argv


def strip_cls(v):
    if isinstance(v, dict):
        return {k: strip_cls(x) for k, x in v.items() if not (k == "cls" and v.get("t") == "enum")}
    if isinstance(v, list):
        return [strip_cls(x) for x in v]
    return v


# ------------------------------------------------------------------------------------------------
# real code


def run_outcome(fn):
    """like sp.run_outcome, but str2bool's "Boolean value expected for argument" is a type error, not an nargs error"""
    with sp.capture() as cap:
        try:
            return {"o": "ok", "value": fn()}
        except SystemExit as e:
            res = {"o": "exit", "code": e.code if isinstance(e.code, int) else (0 if e.code is None else 1)}
        except BaseException as e:  # noqa: BLE001
            return {"o": "raise", "exc": type(e).__name__, "msg": str(e)[:300]}
    res["kind"] = "type" if "Boolean value expected" in cap.err else sp.classify_exit_message(cap.err)
    res["stderr_nonempty"] = bool(cap.err.strip())
    return res


def _outcome_only(out):
    if out["o"] == "exit":
        return {"o": "exit", "code": out["code"], "kind": out.get("kind"), "stderr_nonempty": out.get("stderr_nonempty")}
    return {"o": "raise", "exc": out.get("exc"), "msg": out.get("msg", "")[:160]}


def py_type(U, ty):
    return U.ty(ty)


def _one_field_parser(n, ty):
    c = {"shape": "flat", "r": n, "k": 1, "fields": [{"name": "fa", "ty": ty, "default": None}], "argv": []}
    parser, U = build_parser(c)
    parser._preprocessing(args=[])
    fw = [f for w in parser._wrappers for f in w.fields if f.name == "fa"][0]
    return parser, U, fw


def impl(case):
    op, c = case["op"], case["case"]
    if op in ("merge.run", "merge.mixed"):
        if op == "merge.mixed":
            return impl_mixed(c)
        parser, U = build_parser(c)
        argv = argv_of(c)
        out = run_outcome(lambda: parser.parse_args(argv))
        if out["o"] != "ok":
            return dict(_outcome_only(out), argv=argv)
        ns = out["value"]
        vals = []
        for f in c["fields"]:
            vals.append([sp.cv(get_path(ns, d + "." + f["name"])) for d in dests_of(c)])
        tops = {f"d{a}" for a in range(c["r"])}
        stray = sorted(k for k in vars(ns) if k not in tops)
        own_ok = True
        if c.get("own"):
            own_ok = all(getattr(getattr(ns, t), "xown") == 9 for t in tops)
        return {"o": "ok", "v": vals, "stray": stray, "own_ok": own_ok, "argv": argv}
    if op == "merge.tok":
        from simple_parsing import utils

        U = new_universe()
        s = render(c["tok"])
        if is_container(c["ty"]):
            fn = utils._parse_multiple_containers(py_type(U, c["ty"]))
        else:
            fn = {"int": int, "float": float, "str": str, "bool": utils.str2bool}.get(c["ty"]["k"])
            if fn is None:  # enum scalar: type=str, then argparse's choices check
                def fn(x):
                    if x not in c["ty"]["members"]:
                        raise _Choice()
                    return str(x)
        try:
            v = fn(s)
        except _Choice:
            return {"o": "exit", "code": 2, "kind": "choice"}
        except (ValueError, TypeError, argparse.ArgumentTypeError):
            return {"o": "exit", "code": 2, "kind": "type"}   # what argparse's _get_value turns them into
        except BaseException as e:  # noqa: BLE001
            return {"o": "raise", "exc": type(e).__name__}
        return {"o": "ok", "v": {"rendered": s, "value": sp.cv(v)}}
    if op == "merge.dist":
        parser, U, fw = _one_field_parser(c["n"], c["ty"])
        values = [U.val(v) for v in c["values"]]
        ca = {d: {} for d in fw.parent.destinations}
        try:
            fw(parser=parser, namespace=argparse.Namespace(), values=values, constructor_arguments=ca)
        except BaseException as e:  # noqa: BLE001
            return {"o": "raise", "exc": type(e).__name__}
        return {"o": "ok", "v": [sp.cv(ca[d].get("fa", _Missing)) for d in fw.parent.destinations]}
    if op == "merge.pack":
        cc = dict(c["shape_case"], argv=[])
        try:
            parser, U = build_parser(cc)
            parser._preprocessing(args=[])
        except BaseException as e:  # noqa: BLE001
            return {"o": "raise", "exc": type(e).__name__}
        fw = [f for w in parser._wrappers for f in w.fields if f.name == cc["fields"][c["fi"]]["name"]]
        if len(fw) != 1:
            return {"o": "raise", "exc": f"{len(fw)} wrappers for the field"}
        fw = fw[0]
        d = fw.arg_options.get("default")
        return {"o": "ok", "v": {"default": None if d is None else [sp.cv(x) for x in d], "required": bool(fw.arg_options.get("required")),
                                  "nargs": fw.arg_options.get("nargs")},
                "n_dest": len(fw.destinations), "dests": list(fw.parent.destinations)}
    if op == "merge.dests":
        cc = dict(c["shape_case"], argv=[])
        try:
            parser, U = build_parser(cc)
            flat = parser._conflict_resolver.resolve_and_flatten(parser._wrappers.copy())
        except BaseException as e:  # noqa: BLE001
            return {"o": "raise", "exc": type(e).__name__}
        root_cls = U.classes[c["root_cls"]]
        ws = [w for w in flat if w.dataclass is root_cls and w.multiple]
        if len(ws) != 1:
            return {"o": "raise", "exc": f"{len(ws)} merged wrappers of {c['root_cls']}"}

        def tree(w):
            return {"dests": list(w.destinations), "defaults": len(w.defaults), "children": [tree(ch) for ch in w._children]}

        return tree(ws[0])
    raise ValueError(op)


class _Choice(Exception):
    pass


class _MissingT:
    pass


_Missing = _MissingT()


def impl_mixed(c):
    """the class both at top level and as a member of another registered class (oracle only)"""
    specs = [
             {"name": "C", "fields": [{"name": "fa", "ty": {"k": "int"}, "default": {"kind": "value", "v": {"t": "int", "v": "1"}}}]},
             {"name": "P", "fields": [{"name": "m", "ty": {"k": "dc", "cls": "C"}, "default": {"kind": "factory", "v": None}}]}]
    U = new_universe().add_classes(specs)
    sp.reset_globals()
    parser = sp.make_parser({"cr": "ALWAYS_MERGE"})
    paths = []
    for i, kind in enumerate(c["regs"]):
        parser.add_arguments(U.classes["C" if kind == "C" else "P"], dest=f"d{i}")
        paths.append(f"d{i}" if kind == "C" else f"d{i}.m")
    argv = (["--fa"] + c["words"]) if c["words"] is not None else []
    out = run_outcome(lambda: parser.parse_args(argv))
    if out["o"] != "ok":
        return dict(_outcome_only(out), argv=argv, paths=paths)
    ns = out["value"]
    tops = {f"d{i}" for i in range(len(c["regs"]))}
    return {"o": "ok", "v": [[sp.cv(get_path(ns, p + ".fa")) for p in paths]], "stray": sorted(k for k in vars(ns) if k not in tops),
            "argv": argv, "paths": paths}


# ------------------------------------------------------------------------------------------------
# model side


def model_case(case, obs):
    op, c = case["op"], case["case"]
    if op == "merge.run":
        return {"n": n_of(c), "fields": [{"ty": f["ty"], "src": src_of(c, i)} for i, f in enumerate(c["fields"])],
                "argv": c["argv"]}
    if op == "merge.pack":
        cc = c["shape_case"]
        return {"n": n_of(cc), "ty": cc["fields"][c["fi"]]["ty"], "src": src_of(cc, c["fi"])}
    if op == "merge.dests":
        return {"root": c["root"], "first": c["first"], "others": c["others"]}
    if op == "merge.dist":
        unwrap = len(c["values"]) == 1 and c["values"][0].get("t") in ("list", "tuple") and len(c["values"][0]["v"]) == c["n"]
        return dict(c, values=[_as_code_sees(c["ty"], v, unwrap) for v in c["values"]])
    return c


def _as_code_sees(ty, v, unwrap=False):
    """A member of a str-mixin Enum IS a `str` (its value) for `isinstance(x, str)`, `E[x]` and `tuple(x)`: where the code
    applies one of those to a parsed value, the model is given that str.  (tuple field: `tuple(x)` of a bare item; scalar enum fields needed this too until fix 69d4809.)"""
    def conv(x):
        if x.get("t") == "enum" and x.get("cls") in STR_MIXIN:
            e = ENUM_BY_CLS[x["cls"]]
            return {"t": "str", "v": e["values"][e["members"].index(x["v"])]}
        return x

    if ty["k"] == "enum":
        # since fix 69d4809 `postprocess` leaves a value that already is a member alone (it used to look every `str`,
        # hence every member of a str-mixin Enum, up by name again): nothing to translate for enum fields any more
        return v
    if ty["k"] in ("tuple", "vtuple") and v.get("t") == "enum":
        return conv(v)
    return v


def project(case, obs):
    op = case["op"]
    if op in ("merge.run", "merge.tok", "merge.dist", "merge.pack"):
        if obs["o"] == "ok":
            return {"o": "ok", "v": strip_cls(obs["v"])}
        if obs["o"] == "exit":
            return {"o": "exit", "code": obs["code"], "kind": obs["kind"]}
        return {"o": "raise", "exc": obs["exc"]}
    return obs


def project_model(case, mo):
    if case["op"] == "merge.run" and isinstance(mo, dict) and mo.get("o") == "ok":
        perm = merged_order(case["case"])
        if perm != list(range(len(perm))):
            out = []
            for vs in mo["v"]:
                reg = [None] * len(perm)
                for pos, j in enumerate(perm):
                    if pos < len(vs):
                        reg[j] = vs[pos]
                out.append(reg)
            return dict(mo, v=out)
        return mo
    if case["op"] == "merge.dests":
        def conv(t):
            return {"dests": t["dests"], "defaults": len(t["defaults"]), "children": [conv(x) for x in t["children"]]}
        return conv(mo)
    return mo


def model_unmodelled(mo):
    return isinstance(mo, dict) and mo.get("o") == "unmodelled"


# ------------------------------------------------------------------------------------------------
# the property itself, on real observations


def _expect_field(c, fi, occ):
    """('ok', [V per destination] alternatives) | ('reject', allowed outcome set) | ('skip',) for one field"""
    f = c["fields"][fi]
    n = n_of(c)
    ty = f["ty"]
    if occ is None:
        ds = [dest_default(c, fi, j) for j in range(n)]
        if any(d is None for d in ds):
            return ("reject", {"exit2"})
        return ("ok", [ds])
    toks = occ["toks"]
    try:
        vals = [spec_value(ty, t) for t in toks]
        invalid = False
    except Invalid:
        vals, invalid = None, True
    if invalid:
        return ("skip",)
    k = len(toks)
    if k == 1:
        main = ("ok", [[vals[0]] * n])
    elif k == n:
        main = ("ok", [vals])
    elif k == 0:
        # the option given with no value: "any other number of values" -> InconsistentArgumentError; a field without
        # default is required, and argparse itself rejects a required option without value (status 2)
        has_default = all(dest_default(c, fi, j) is not None for j in range(n))
        main = ("reject", {"InconsistentArgumentError"} if has_default else {"exit2"})
    else:
        main = ("reject", {"InconsistentArgumentError"})
    return main


def oracle(case, obs):
    op, c = case["op"], case["case"]
    if op == "merge.mixed":
        return oracle_mixed(c, obs)
    if op != "merge.run":
        return []
    fails = []
    n = n_of(c)
    occs = {}
    for occ in c["argv"]:
        if occ["f"] in occs:
            return []  # an option given twice: the property does not say which occurrence counts (correspondence only)
        occs[occ["f"]] = occ
    exps = [_expect_field(c, fi, occs.get(fi)) for fi in range(len(c["fields"]))]
    if any(e[0] == "skip" for e in exps):
        # a word that is no value of the item type: the property says nothing about that field — but when the parse
        # nevertheless succeeded, the other fields are still judged
        if obs["o"] != "ok" or any(e[0] == "reject" for e in exps):
            return []

    def mains(e):
        return [e] if e[0] != "either" else [e[1], e[2]]

    allowed_rejects = set()
    must_reject = False
    for e in exps:
        ms = mains(e)
        if all(m[0] == "reject" for m in ms):
            must_reject = True
        for m in ms:
            if m[0] == "reject":
                allowed_rejects |= m[1]
    got = obs["o"]
    gotname = "exit2" if (got == "exit" and obs.get("code") == 2) else (obs.get("exc") if got == "raise" else got)
    if got != "ok":
        if gotname in allowed_rejects:
            return []
        clause = "other-count" if must_reject else "outcome"
        return [{"clause": clause, "detail": f"argv {obs.get('argv')}: {gotname} ({obs.get('msg', '')}); the property allows "
                                             f"{sorted(allowed_rejects) or 'a normal result'}", "got": gotname}]
    if must_reject:
        bad = [c["fields"][i]["name"] for i, e in enumerate(exps) if all(m[0] == "reject" for m in mains(e))]
        return [{"clause": "other-count", "detail": f"argv {obs['argv']} (n={n}) was accepted although field(s) {bad} have a value "
                                                    f"count outside {{1,{n}}} / no default: got {obs['v']}", "got": "ok"}]
    for fi, e in enumerate(exps):
        if e[0] == "skip":
            continue
        oks = [m for m in mains(e) if m[0] == "ok"]
        if not oks:
            continue
        got_v = obs["v"][fi]
        if any(got_v == alt for m in oks for alt in m[1]):
            continue
        exp_v = oks[0][1][0]
        occ = occs.get(fi)
        k = None if occ is None else len(occ["toks"])
        ty = c["fields"][fi]["ty"]
        miss = [j for j in range(n) if got_v[j] != exp_v[j]]
        cont = "list" if ty["k"] == "list" else "tuple"
        if is_container(ty) and any(got_v[j].get("t") != cont for j in miss):
            clause = "whole-container"
        else:
            clause = "absent" if occ is None else ("one" if k == 1 else "n-values")
        fails.append({"clause": clause, "field": fi, "dests": miss, "given": k,
                      "detail": f"field {c['fields'][fi]['name']}: {ty} n={n} argv {obs['argv']}: destinations {miss} got "
                                f"{[got_v[j] for j in miss]}, the property says {[exp_v[j] for j in miss]}",
                      "got": [got_v[j] for j in miss], "exp": [exp_v[j] for j in miss]})
    if obs.get("stray"):
        fails.append({"clause": "namespace", "detail": f"stray namespace attributes {obs['stray']}"})
    if not obs.get("own_ok", True):
        fails.append({"clause": "other-field", "detail": "the enclosing class's own field changed"})
    return fails


def oracle_mixed(c, obs):
    n = len(c["regs"])
    words = c["words"]
    if words is None:
        exp = ("ok", [{"t": "int", "v": "1"}] * n)
    elif len(words) == 1:
        exp = ("ok", [{"t": "int", "v": str(int(words[0]))}] * n)
    elif len(words) == n:
        exp = ("ok", [{"t": "int", "v": str(int(w))} for w in words])
    else:
        exp = ("reject",)
    if exp[0] == "reject":
        if obs["o"] == "raise" and obs["exc"] == "InconsistentArgumentError":
            return []
        return [{"clause": "other-count", "detail": f"regs {c['regs']} argv {obs.get('argv')}: {obs['o']} {obs.get('exc', '')}", "mixed": True}]
    if obs["o"] != "ok":
        return [{"clause": "outcome", "detail": f"regs {c['regs']} argv {obs.get('argv')}: {obs['o']} {obs.get('exc')} {obs.get('msg', '')}",
                 "mixed": True, "got": obs.get("exc")}]
    fails = []
    if obs["v"][0] != exp[1]:
        fails.append({"clause": "n-values" if words and len(words) == n else "one", "mixed": True,
                      "detail": f"regs {c['regs']} argv {obs['argv']}: destinations {obs['paths']} got {obs['v'][0]}, the property says {exp[1]}"})
    if obs.get("stray"):
        fails.append({"clause": "namespace", "mixed": True, "detail": f"stray namespace attributes {obs['stray']}"})
    return fails


# ------------------------------------------------------------------------------------------------
# open findings: narrow signatures


def _mixed(case, obs, fail):
    """the class registered both at top level and as a nested member: set-up crashes (nested first) or the nested
    destination is written to a stray dotted namespace attribute (top-level first)"""
    if case["op"] != "merge.mixed" or not fail.get("mixed"):
        return False
    regs = case["case"]["regs"]
    if not ("C" in regs and "P" in regs):
        return False
    if obs["o"] == "raise":
        return obs["exc"] == "ValueError" and regs[0] == "P"
    if obs["o"] == "ok":
        return regs[0] == "C" and bool(obs.get("stray")) and all("." in s for s in obs["stray"])
    return False


def is_hetero(ty):
    return ty["k"] == "tuple" and any(it != ty["items"][0] for it in ty["items"])


def _first_type_items(ty, tok):
    """what the code makes of one token of a heterogeneous tuple: EVERY word converted by the FIRST item type
    (None = that type rejects a word -> argparse error)"""
    try:
        return {"t": "tuple", "v": [spec_item(ty["items"][0], w) for w in tok_words(tok)]}
    except Invalid:
        return None


def _hetero(case, obs, fail):
    """a Tuple[T1,T2,..] with different item types, given on the command line: all positions are parsed by T1 —
    values of the later types are rejected (exit 2) or arrive as T1 values"""
    if case["op"] != "merge.run":
        return False
    c = case["case"]
    n = n_of(c)
    occs = {o["f"]: o for o in c["argv"]}
    given = {fi: o for fi, o in occs.items() if is_hetero(c["fields"][fi]["ty"]) and o["toks"]}
    if not given:
        return False
    if fail.get("clause") in ("outcome", "other-count"):
        return fail.get("got") == "exit2" and any(_first_type_items(c["fields"][fi]["ty"], t) is None
                                                  for fi, o in given.items() for t in o["toks"])
    fi = fail.get("field")
    if fi not in given or obs["o"] != "ok" or fail.get("clause") not in ("one", "n-values"):
        return False
    toks = given[fi]["toks"]
    if len(toks) not in (1, n):
        return False
    ty = c["fields"][fi]["ty"]
    for j in fail["dests"]:
        got, pred = obs["v"][fi][j], _first_type_items(ty, toks[j if len(toks) == n else 0])
        if got.get("t") != "tuple" or any(x.get("t") != ty["items"][0]["k"] for x in got["v"]):
            return False        # not "every position parsed by the first item type"
        if pred is not None and got != pred:
            return False        # (pred None: a literal the first type converts in its own way, e.g. int(1.5))
    return True


def _partial_defaults(case, obs, fail):
    """flat registrations, `default=instance` at some but not all destinations: with an instance at d0 only every
    destination gets d0's values; without one at d0 all instances are dropped; with 2..n-1 instances incl. d0 set-up
    raises AssertionError"""
    if case["op"] != "merge.run":
        return False
    c = case["case"]
    mask = c.get("reg_mask")
    if c["shape"] != "flat" or not mask or all(mask) or not any(mask):
        return False
    n, m = n_of(c), sum(1 for x in mask if x)
    if fail.get("clause") in ("outcome", "other-count"):
        return fail.get("got") == "AssertionError" and mask[0] and 1 < m < n
    fi = fail.get("field")
    if fi is None or fail.get("given") is not None or obs["o"] != "ok" or fail.get("clause") not in ("absent", "whole-container"):
        return False
    if mask[0] and m > 1:
        return False
    predicted = dest_default(c, fi, 0) if mask[0] else c["fields"][fi]["default"]
    return all(obs["v"][fi][j] == predicted for j in fail["dests"])


def _order_own(case, obs, fail):
    """S{m0..m{k-1}: C} with an own field on S at r > 1 destinations: n values are handed out member-major
    (d0.m0, d1.m0, .., d0.m1, ..) instead of in registration order"""
    if case["op"] != "merge.run":
        return False
    c = case["case"]
    if not (c["shape"] == "siblings" and c["r"] > 1 and c.get("own")) or obs["o"] != "ok":
        return False
    fi = fail.get("field")
    n = n_of(c)
    if fi is None or fail.get("given") != n or fail.get("clause") not in ("n-values", "whole-container"):
        return False
    toks = [o for o in c["argv"] if o["f"] == fi][0]["toks"]
    try:
        vals = [spec_value(c["fields"][fi]["ty"], t) for t in toks]
    except Invalid:
        return False
    predicted = [None] * n
    for pos, j in enumerate(merged_order(c)):
        predicted[j] = vals[pos]
    return obs["v"][fi] == predicted


FINDINGS = {"C11-mixed-levels": _mixed, "C11-hetero-tuple": _hetero, "C11-partial-default-instances": _partial_defaults,
            "C11-order-depends-on-own-field": _order_own}


# ------------------------------------------------------------------------------------------------
# generators


def V_item(it, w):
    return spec_item(it, w)


def rand_word(rng, it, invalid_p=0.0):
    k = it["k"]
    if k == "enum":
        return rng.choice(enum_invalid(it)) if rng.random() < invalid_p else rng.choice(it["members"])
    if INVALID[k] and rng.random() < invalid_p:
        return rng.choice(INVALID[k])
    return rng.choice(VALID[k])


def rand_default_word(rng, it):
    k = it["k"]
    if k == "enum":
        return rng.choice(it["members"])
    return rng.choice(VALID[k])


def rand_tok(rng, ty, invalid_p=0.05, shape=None):
    if not is_container(ty):
        return {"k": "bare", "w": rand_word(rng, ty, invalid_p)}
    shape = shape or rng.choice(["bare", "bare", "spaced", "comma", "sq", "sq", "paren"])
    fixed = len(ty["items"]) if ty["k"] == "tuple" else None

    def words(lo, hi):
        m = fixed if (fixed is not None and rng.random() < 0.8) else rng.randint(lo, hi)
        its = item_types(ty, m)
        if its is None:
            its = [ty["items"][0]] * m
        return [rand_word(rng, it, invalid_p) for it in its]

    if shape == "bare":
        it = ty["item"] if ty["k"] != "tuple" else ty["items"][0]
        return {"k": "bare", "w": rand_word(rng, it, invalid_p)}
    if shape == "spaced":
        return {"k": "spaced", "ws": words(2, 4) if (fixed or 2) >= 2 else words(2, 3)}
    if shape == "comma":
        return {"k": "comma", "ws": words(2, 4)}
    ws = words(0, 4)
    return {"k": "bracket", "sq": shape == "sq", "ws": ws}


NEG_NUM = re.compile(r"-\d+$|-\d*\.\d+$")


def _fix_len(tok):
    """spaced/comma tokens need >= 2 words; a token starting with '-' must look like a negative number to argparse"""
    if tok["k"] in ("spaced", "comma") and (len(tok["ws"]) < 2 or tok["ws"][0].startswith("-")):
        return {"k": "bracket", "sq": True, "ws": tok["ws"]}
    if tok["k"] == "bare" and tok["w"].startswith("-") and not NEG_NUM.match(tok["w"]):
        return {"k": "bracket", "sq": True, "ws": [tok["w"]]}
    return tok


def rand_default(rng, ty, n, force_len=None):
    """a default V for the annotation (None = no default)"""
    if not is_container(ty):
        return spec_item(ty, rand_default_word(rng, ty))
    if ty["k"] == "tuple":
        m = len(ty["items"])
    else:
        m = force_len if force_len is not None else rng.choice([0, 1, 2, 3, n, n, n + 1])
    its = item_types(ty, m)
    return {"t": "list" if ty["k"] == "list" else "tuple", "v": [spec_item(it, rand_default_word(rng, it)) for it in its]}


HETERO = [{"k": "tuple", "items": [{"k": "int"}, {"k": "str"}]}, {"k": "tuple", "items": [{"k": "str"}, {"k": "int"}]}]


def field_types(n):
    out = []
    for it in ITEMS:
        out.append(it)
    for it in ITEMS:
        out.append({"k": "list", "item": it})
        out.append({"k": "vtuple", "item": it})
        out.append({"k": "tuple", "items": [it] * n})
        out.append({"k": "tuple", "items": [it] * 2})
        out.append({"k": "tuple", "items": [it]})
    out += HETERO
    return out


def mk_case(shape, r, k, fields, argv, member_default=False, own=False):
    return {"op": "merge.run", "case": {"shape": shape, "r": r, "k": k, "member_default": member_default, "own": own,
                                        "fields": fields, "argv": argv}}


def sweep(rng, tier):
    """systematic: n x field type x value count (absent, 0..n+1) x default length (n / other / none)"""
    ns = [2, 3, 4] if tier == "quick" else [2, 3, 4, 5, 6]
    for n in ns:
        for ty in field_types(n):
            for count in [None] + list(range(0, n + 2)):
                dkinds = ["n", "other", "none"] if (is_container(ty) and ty["k"] != "tuple") else ["some", "none"]
                if tier == "quick" and count is not None and count not in (0, 1, n):
                    dkinds = dkinds[:1]
                for dk in dkinds:
                    if dk == "none":
                        d = None
                    elif dk == "n":
                        d = rand_default(rng, ty, n, force_len=n)
                    elif dk == "other":
                        d = rand_default(rng, ty, n, force_len=rng.choice([x for x in (0, 1, 2, 3, n + 1) if x != n]))
                    else:
                        d = rand_default(rng, ty, n)
                    if count is None:
                        argv = []
                    else:
                        shape = rng.choice([None, None, "bare", "sq"])
                        argv = [{"f": 0, "toks": [_fix_len(rand_tok(rng, ty, 0.0, shape)) for _ in range(count)]}]
                    yield mk_case("flat", n, 1, [{"name": "fa", "ty": ty, "default": d}], argv)


def random_cases(rng, tier):
    total = 2000 if tier == "quick" else 20000
    ns = [2, 3, 4] if tier == "quick" else [2, 3, 4, 5, 6]
    for _ in range(total):
        shape = rng.choice(["flat", "flat", "flat", "wrapped", "siblings", "siblings", "deep"])
        if shape == "siblings":
            r, k = rng.choice([(1, 2), (1, 3), (2, 2), (1, 4), (3, 2), (2, 3)] if tier == "thorough" else [(1, 2), (1, 3), (2, 2), (2, 2), (1, 4)])
        else:
            r, k = rng.choice(ns), 1
        n = r * k
        nf = rng.choice([1, 2, 2, 3])
        member_default = shape != "flat" and rng.random() < 0.6
        fields = []
        tys = field_types(n)
        for i in range(nf):
            ty = rng.choice(tys)
            d = rand_default(rng, ty, n) if (member_default or rng.random() < 0.8) else None
            f = {"name": ["fa", "fb", "fc"][i], "ty": ty, "default": d}
            if shape == "siblings" and member_default and rng.random() < 0.5:
                f["overrides"] = [rand_default(rng, ty, n) if rng.random() < 0.5 else None for _ in range(k)]
            fields.append(f)
        fields.sort(key=lambda f: f["default"] is not None)   # dataclass rule: fields without default first
        for i, f in enumerate(fields):
            f["name"] = ["fa", "fb", "fc"][i]
        argv = []
        order = list(range(nf))
        rng.shuffle(order)
        for fi in order:
            ty = fields[fi]["ty"]
            mode = rng.choice(["absent", "one", "n", "n", "other", "zero"])
            if mode == "absent":
                continue
            cnt = {"one": 1, "n": n, "zero": 0}.get(mode)
            if cnt is None:
                cnt = rng.choice([x for x in range(2, n + 2) if x != n])
            argv.append({"f": fi, "toks": [_fix_len(rand_tok(rng, ty, 0.04)) for _ in range(cnt)]})
        if argv and rng.random() < 0.06:
            # the same option a second time (argparse `store`: the last occurrence counts; correspondence only)
            fi = rng.choice(argv)["f"]
            cnt = rng.choice([1, n, n, 2])
            argv.insert(rng.randrange(len(argv) + 1),
                        {"f": fi, "toks": [_fix_len(rand_tok(rng, fields[fi]["ty"], 0.04)) for _ in range(cnt)]})
        own = shape in ("wrapped", "siblings") and rng.random() < 0.5
        case = mk_case(shape, r, k, fields, argv, member_default=member_default, own=own)
        if shape == "flat":
            x = rng.random()
            if x < 0.25:
                add_reg_defaults(rng, case["case"], [True] * r)
            elif x < 0.40 and all(f["default"] is not None for f in fields):
                # default instances at only some destinations (open finding C11-partial-default-instances)
                mask = rng.choice([[i == 0 for i in range(r)], [i != 0 for i in range(r)], [rng.random() < 0.5 for _ in range(r)]])
                add_reg_defaults(rng, case["case"], mask)
        yield case


def add_reg_defaults(rng, c, mask):
    """register destination a with `default=C(...)` where mask[a]; every field gets a value there (own or class default)"""
    n = n_of(c)
    c["reg_mask"] = list(mask)
    for f in c["fields"]:
        ovs = []
        for a in range(c["r"]):
            if not mask[a]:
                ovs.append(None)
            elif f["default"] is None or rng.random() < 0.7:
                ovs.append(rand_default(rng, f["ty"], n))
            else:
                ovs.append(None)
        f["reg_overrides"] = ovs


def tok_cases(rng, tier):
    total = 1000 if tier == "quick" else 6000
    tys = field_types(2) + [{"k": "tuple", "items": [{"k": "float"}, {"k": "bool"}, {"k": "int"}]}]
    for _ in range(total):
        ty = rng.choice(tys)
        if is_container(ty) and rng.random() < 0.35:
            # mixed-type words: exercise the literal / fall-back split and the conversions of literals
            m = rng.randint(0, 3)
            ws = [rng.choice(rng.choice(list(VALID.values()) + [e["members"] for e in ENUMS]) + ["x", "PINK", "maybe", "low"])
                  for _ in range(m)]
            shape = rng.choice(["bare", "spaced", "comma", "sq", "paren"])
            if shape == "bare":
                tok = {"k": "bare", "w": ws[0] if ws else "4"}
            elif shape in ("spaced", "comma"):
                tok = _fix_len({"k": shape, "ws": ws})
            else:
                tok = {"k": "bracket", "sq": shape == "sq", "ws": ws}
        else:
            tok = _fix_len(rand_tok(rng, ty, 0.15))
        yield {"op": "merge.tok", "case": {"ty": ty, "tok": tok}}


def rand_value(rng, ty, n):
    """a python-side parsed value for op merge.dist: mostly what argparse would hand back, sometimes not"""
    r = rng.random()
    if is_container(ty):
        it = ty["item"] if ty["k"] != "tuple" else ty["items"][0]
        if r < 0.2:
            return spec_item(it, rand_default_word(rng, it))
        m = rng.choice([0, 1, 2, n])
        return {"t": rng.choice(["list", "tuple"]) if r < 0.5 else ("list" if ty["k"] == "list" else "tuple"),
                "v": [spec_item(it, rand_default_word(rng, it)) for _ in range(m)]}
    if ty["k"] == "enum" and r < 0.7:
        return {"t": "str", "v": rng.choice(ty["members"] + enum_invalid(ty)[:1])}
    if r < 0.85:
        return spec_item(ty, rand_default_word(rng, ty))
    m = rng.choice([1, 2, n, n])
    return {"t": rng.choice(["list", "tuple"]), "v": [spec_item(ty, rand_default_word(rng, ty)) for _ in range(m)]}


def dist_cases(rng, tier):
    total = 1000 if tier == "quick" else 5000
    for _ in range(total):
        n = rng.choice([2, 3, 4] if tier == "quick" else [2, 3, 4, 5, 6])
        ty = rng.choice(field_types(n))
        cnt = rng.choice([0, 1, 1, n, n, n + 1, 2])
        yield {"op": "merge.dist", "case": {"n": n, "ty": ty, "values": [rand_value(rng, ty, n) for _ in range(cnt)]}}


def shape_cases(rng, tier):
    """set-up only: packaged defaults / nargs / required of one field (merge.pack) and the merged wrapper tree (merge.dests)"""
    total = 600 if tier == "quick" else 2500
    for _ in range(total):
        shape = rng.choice(["flat", "wrapped", "siblings", "siblings", "deep"])
        if shape == "siblings":
            r, k = rng.choice([(1, 2), (1, 3), (2, 2), (1, 4), (2, 3), (3, 2)])
        else:
            r, k = rng.choice([2, 3, 4, 5]), 1
        n = r * k
        member_default = shape != "flat" and rng.random() < 0.6
        ty = rng.choice(field_types(n))
        d = rand_default(rng, ty, n) if (member_default or rng.random() < 0.8) else None
        f = {"name": "fa", "ty": ty, "default": d}
        if shape == "siblings" and member_default and rng.random() < 0.5:
            f["overrides"] = [rand_default(rng, ty, n) if rng.random() < 0.5 else None for _ in range(k)]
        own = shape in ("wrapped", "siblings") and rng.random() < 0.5
        sc = {"shape": shape, "r": r, "k": k, "member_default": member_default, "own": own, "fields": [f]}
        if shape == "flat" and rng.random() < 0.5:
            # default instances at all / some / one of the destinations (set-up only: op merge.pack)
            add_reg_defaults(rng, sc, rng.choice([[True] * r, [rng.random() < 0.5 for _ in range(r)], [i == 0 for i in range(r)]]))
        yield {"op": "merge.pack", "case": {"shape_case": sc, "fi": 0}}
        yield dests_case(sc)


def dests_case(sc):
    """the DataclassWrapper trees that `_fix_conflict_merge` merges for this shape (first, others) and the class whose
    merged wrapper is observed"""
    shape, r, k = sc["shape"], sc["r"], sc["k"]
    md = 1 if sc.get("member_default") else 0

    def leaf(dest, idx):
        return {"dests": [dest], "defaults": [idx] if md else [], "children": []}

    if shape == "flat":
        mask = sc.get("reg_mask") or [False] * r
        trees = [{"dests": [f"d{a}"], "defaults": [a] if mask[a] else [], "children": []} for a in range(r)]
        root = "C"
    elif shape == "deep":   # Q{p: P{m: C}}: the C wrappers (depth 2) clash directly
        trees = [leaf(f"d{a}.p.m", a) for a in range(r)]
        root = "C"
    elif shape == "wrapped":
        if sc.get("own"):  # the first clash is on P's own field: P wrappers merge, children pairwise
            trees = [{"dests": [f"d{a}"], "defaults": [], "children": [leaf(f"d{a}.m", a)]} for a in range(r)]
            root = "P"
        else:
            trees = [leaf(f"d{a}.m", a) for a in range(r)]
            root = "C"
    else:
        if sc.get("own") and r > 1:
            # first the P wrappers merge (children pairwise: m_b with m_b), then the k merged children merge
            merged_children = []
            for b in range(k):
                merged_children.append({"dests": [f"d{a}.m{b}" for a in range(r)],
                                        "defaults": [a * k + b for a in range(r)] if md else [], "children": []})
            trees = merged_children
            root = "C"
        else:
            trees = [leaf(f"d{a}.m{b}", a * k + b) for a in range(r) for b in range(k)]
            root = "C"
    is_root = (shape == "flat") or (shape == "wrapped" and bool(sc.get("own")))   # registered directly with add_arguments
    return {"op": "merge.dests", "case": {"shape_case": sc, "root_cls": root, "root": is_root, "first": trees[0], "others": trees[1:]}}


def mixed_cases(rng, tier):
    for regs in (["C", "P"], ["P", "C"], ["C", "C", "P"], ["C", "P", "P"], ["P", "C", "P"], ["C", "C"], ["P", "P"]):
        for words in (None, ["5"], [str(i + 2) for i in range(len(regs))], [str(i + 2) for i in range(len(regs) + 1)]):
            yield {"op": "merge.mixed", "case": {"regs": regs, "words": words}, "model": False}


def gen(rng, tier):
    yield from sweep(rng, tier)
    yield from random_cases(rng, tier)
    yield from tok_cases(rng, tier)
    yield from dist_cases(rng, tier)
    yield from shape_cases(rng, tier)
    yield from mixed_cases(rng, tier)


# ------------------------------------------------------------------------------------------------


def nontrivial(case, obs):
    if case["op"] != "merge.run":
        return False
    c = case["case"]
    return any(o["toks"] for o in c["argv"]) or any(f["default"] and f["default"].get("t") in ("list", "tuple") for f in c["fields"])


def tags(case, obs):
    op, c = case["op"], case["case"]
    t = [f"op:{op}"]
    if op == "merge.run":
        n = n_of(c)
        t += [f"shape:{c['shape']}", f"n:{n}", f"fields:{len(c['fields'])}"]
        occs = {o["f"]: o for o in c["argv"]}
        if len(occs) < len(c["argv"]):
            t.append("option-repeated")
        if c.get("own"):
            t.append("own-field" + (":siblings-r>1" if c["shape"] == "siblings" and c["r"] > 1 else ""))
        mask = c.get("reg_mask")
        if mask:
            t.append("default-instances:" + ("all" if all(mask) else "none" if not any(mask) else
                                             "d0-only" if mask[0] and sum(mask) == 1 else "not-d0" if not mask[0] else "some-incl-d0"))
        for fi, f in enumerate(c["fields"]):
            ty = f["ty"]
            t.append("ty:" + ty["k"] + (":hetero" if is_hetero(ty) else ""))
            it = ty if not is_container(ty) else (ty["item"] if ty["k"] != "tuple" else ty["items"][0])
            if it["k"] == "enum":
                t.append("enum:" + it["cls"])
            t.append("src:" + src_of(c, fi)["k"])
            if f["default"] is None:
                t.append("default:none")
            o = occs.get(fi)
            if o is None:
                t.append("count:absent")
            else:
                kk = len(o["toks"])
                t.append("count:" + ("0" if kk == 0 else "1" if kk == 1 else "n" if kk == n else "n+1.." if kk > n else "2..n-1"))
                for tk in o["toks"]:
                    t.append("tok:" + (tk["k"] if tk["k"] != "bracket" else ("sq" if tk["sq"] else "paren")))
            d = f["default"]
            if d and d.get("t") in ("list", "tuple") and len(d["v"]) == n:
                t.append("default-len-eq-n")
        t.append("out:" + (obs["o"] if obs["o"] != "raise" else "raise:" + str(obs.get("exc"))))
    elif "o" in obs:
        t.append(f"{op}:out:" + (obs["o"] if obs["o"] != "raise" else "raise:" + str(obs.get("exc"))))
    return sorted(set(t))


def shrink(case):
    if case["op"] != "merge.run":
        return
    c = case["case"]
    # drop a field
    for i in range(len(c["fields"])):
        if len(c["fields"]) > 1:
            nc = copy.deepcopy(c)
            del nc["fields"][i]
            nc["argv"] = [dict(o, f=o["f"] - (1 if o["f"] > i else 0)) for o in nc["argv"] if o["f"] != i]
            yield {"op": case["op"], "case": nc}
    # drop an occurrence
    for i in range(len(c["argv"])):
        nc = copy.deepcopy(c)
        del nc["argv"][i]
        yield {"op": case["op"], "case": nc}
    if c["shape"] != "flat":
        nc = copy.deepcopy(c)
        n = n_of(c)
        nc.update(shape="flat", r=n, k=1, member_default=False, own=False)
        for f in nc["fields"]:
            f.pop("overrides", None)
        yield {"op": case["op"], "case": nc}
    if c.get("own"):
        yield {"op": case["op"], "case": dict(copy.deepcopy(c), own=False)}
    for f_i, f in enumerate(c["fields"]):
        if f.get("overrides"):
            nc = copy.deepcopy(c)
            nc["fields"][f_i].pop("overrides")
            yield {"op": case["op"], "case": nc}


def neighbours(case, rng):
    if case["op"] == "merge.run":
        c = case["case"]
        for cnt in range(0, n_of(c) + 2):
            for fi, f in enumerate(c["fields"]):
                nc = copy.deepcopy(c)
                nc["argv"] = [{"f": fi, "toks": [_fix_len(rand_tok(rng, f["ty"], 0.0)) for _ in range(cnt)]}]
                yield {"op": "merge.run", "case": nc}
    elif case["op"] in ("merge.tok", "merge.dist", "merge.pack", "merge.dests"):
        c = case["case"]
        ty = c.get("ty") or c["shape_case"]["fields"][0]["ty"]
        n = c.get("n") or n_of(c["shape_case"]) if "shape_case" in c or "n" in c else 2
        for cnt in (None, 0, 1, n, n + 1):
            argv = [] if cnt is None else [{"f": 0, "toks": [_fix_len(rand_tok(rng, ty, 0.0)) for _ in range(cnt)]}]
            for dl in (n, 1):
                yield mk_case("flat", n, 1, [{"name": "fa", "ty": ty, "default": rand_default(rng, ty, n, force_len=dl)}], argv)
