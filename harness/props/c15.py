"""C15 — a file written by save() reproduces the instance when used as a config file."""
from __future__ import annotations

import atexit
import copy
import dataclasses
import os
import shutil
import tempfile

from harness.core import gen_types as G
from harness.core import sp
from harness.core.trees import Universe

PID = "C15"
RULE = ("a case is a tree of dataclasses (depth <= 4, 0-5 fields each, incl. classes without fields) over the intersection of the "
        "command-line and the serialization grammar {int,float,str,bool,Enum (plain, str-mixin, IntEnum),Path,Literal (incl. "
        "values with colliding str()),Union of primitives,List[T],Tuple[T..] (incl. Tuple[()]),Tuple[T,...],Optional of these, "
        "nested dataclass, Optional[dataclass]}; about a third of the root classes have a field (leaf, or nested member whose "
        "field names repeat the outer class's) NAMED like the destination (`config`, a custom dest=); definition defaults are "
        "missing / value / None without Optional annotation (`a: int = None`) / default_factory instance; x is a type-correct "
        "instance (boundaries: 0, '', 'None', 'true', 10^30, inf, empty containers, None in Optionals, enum names equal to "
        "other members' values, multi-line and yaml-special strings; nan is excluded: nan != nan) x 4 formats x "
        "{config_path=, --config_path} x {parse(), ArgumentParser with a dest-keyed file}; the file is written by the real "
        "save() and the real parse of an empty command line must return x. Every second base is built to be fileSafe "
        "(stratum `safe`, tag domain:filesafe: deeper trees, no finding applies; a failure there is never attributed to an "
        "open finding), and op cl.filesafe asserts on one real loop per base that the theorem's predicate fileSafe(spec, x) "
        "is true exactly when the real result equals x. A further stream mutates the file (dropped / null / unknown keys, "
        "scalars for classes, wrong layout, ill-typed strings) for the correspondence only. Non-trivial = >= 2 leaves and a "
        "container / enum / path / optional / nested value; distinct by canonical JSON.")
ASSUMPTIONS = ["json / yaml (PyYAML safe_load) / pickle read back the dict of primitives they were given (exercised on every case: "
               "the file is really written and read, and its content is sniffed to be of the format its extension names)",
               "dataclass construction and equality of the stdlib; pathlib.Path(str(p)) == p",
               "float conversion is a table parameter of the model (used for ill-typed string values and str members of Unions)",
               "float('nan') is outside the property (x != x)"]
TRUSTED = ["stdlib argparse: only its empty-command-line behaviour is used (defaults stored, required check, string defaults "
           "converted by type=), modelled in ConfigLoop.emptyArgvValue"]
EXHAUSTIVE = {"quick": False, "thorough": False}
THOROUGH_ROUNDS = 3   # thorough tier: this many generator passes with derived PRNG states (vcheck)
MANIFEST = {
    "text": ("Proof (partial): Lean model of to_dict/encode on the command-line grammar, of set_defaults(config_path) for both "
             "file layouts, of DataclassWrapper.set_default, of the FieldWrapper default cascade (a null is an absent key), of "
             "get_arg_options with definition default and effective default told apart (`a: int = None`), of the empty-argv "
             "argparse step (string defaults converted by type=) and of postprocess / bottom-up instantiation incl. "
             "Optional[dataclass]. Theorem c15_loop: for every class tree and every conforming instance x that is fileSafe, "
             "parse(config = save x) = x for the parse() and the ArgumentParser file layout (induction over the class tree; one "
             "lemma per type constructor incl. Union and Literal); c15_loop_syntactic replaces the one semantic clause of fileSafe "
             "by a syntactic condition on the class's defaults, c15_loop_decidable takes all hypotheses in executable form. The "
             "full statement is refuted by five witnesses (container items needing conversion stay str; None saved for an "
             "Optional leaf whose effective default is not None comes back as that default; None saved for an "
             "Optional[dataclass] with a default_factory comes back as the factory instance; a Literal str value shadowed by a "
             "later value of the same str(); a str member of a Union re-parsed by an earlier member), all open findings, all "
             "excluded by the decidable predicate fileSafe; limits of the model are the separate predicate inModel. The four "
             "file formats and the two routes (config_path= / --config_path) are NOT in the theorem: they are sampled (all 16 "
             "combinations of every generated instance are run on the real code). The model is tied to the code by cl.loop, "
             "cl.parse_file (mutated files), cl.encode (to_dict) and cl.filesafe (fileSafe(spec, x) <=> the real loop returns x); "
             "the property itself is evaluated on every real loop."),
    "note": ("Trusted: Lean kernel + standard axioms; harness; json/yaml/pickle round trip of primitive trees. Modelled not "
             "verified: parsing.py:385-438,794-991,1135-1167, dataclass_wrapper.py:256-315, field_wrapper.py:231-533,711-794,891, "
             "serializable.py:616-637,707-774, encoding.py. Outside the model (predicate inModel): Any, Union container items, "
             "Unions with non-primitive members, Optional[Literal], Enum-valued Literals, paths needing normalisation; not part of "
             "this property: dict/set fields, subgroups, reused fields, several config files (C06), _type_ keys. The engine "
             "shortcut is proved equal to the argparse engine model for one store action only (emptyArgv_engine_*)."),
    "technique": "Lean 4 round-trip theorem by induction over the class tree + differential check on real save/parse loops",
    "design_ref": "DESIGN.md section 5, C15",
}

_WORKDIR = None  # (path, pid of the creating process)


def workdir():
    """one scratch directory per check process (created in the parent before the worker pool forks, so the workers share it
    and write per-pid file names); removed by the creating process at exit"""
    global _WORKDIR
    if _WORKDIR is None:
        d = tempfile.mkdtemp(prefix=f"spverif_c15_{os.getpid()}_")
        _WORKDIR = (d, os.getpid())

        def cleanup(d=d, pid=os.getpid()):
            if os.getpid() == pid:
                shutil.rmtree(d, ignore_errors=True)

        atexit.register(cleanup)
    return _WORKDIR[0]


FMTS = [".json", ".yaml", ".yml", ".pkl"]
ROUTES = ["ctor", "cli"]
APIS = ["parse", "parser"]
DEST = "config"
FIELD_NAMES = ["a", "b", "lr", "size", "name", "flag", "items", "tup", "opt", "mode", "w", "path", "n_items", "q", "on", "e",
               "val", "k", "seed", "tag"]
SUB_NAMES = ["sub", "inner", "net", "opt_cfg", "child", "n", "m", "cfg2"]


# -----------------------------------------------------------------------------------------------
# generator


def is_dc(t):
    return t["k"] == "dc" or (t["k"] == "opt" and t["inner"]["k"] == "dc")


def dc_name(t):
    return t["cls"] if t["k"] == "dc" else t["inner"]["cls"]


def class_of(classes, name):
    return next(c for c in classes if c["name"] == name)


def default_instance(classes, name):
    """cls() as a canonical tree, or None if some field has no default"""
    c = class_of(classes, name)
    out = []
    for f in c["fields"]:
        d = f["default"]
        if d["kind"] == "missing":
            return None
        out.append([f["name"], copy.deepcopy(d["v"])])
    return {"t": "inst", "cls": name, "v": out}


SAFE_BASES = ["int", "float", "str", "bool"]
SPECIAL_STRS = ["a\nb: c", "- x", "key: value", "# c", " lead", "trail ", "{a: 1}", "~", "null", "yes", "1e3", "0x10",
                "2024-01-01", "a\tb", "'", '"', "[x", "!tag", "&a", "*a", "%", "@", "|", ">", "line1\nline2\n"]


def literal_collides(t):
    names = [_lit_name(v) for v in t["vals"]]
    return len(set(names)) != len(names)


def gen_leaf_ty(rng, safe=False):
    """a leaf annotation of the intersection grammar.  safe=True: only annotations all of whose values round-trip today
    (containers of int/float/str/bool, no Union, no Literal with colliding names) — the fileSafe-by-construction stratum"""
    for _ in range(200):
        if rng.random() < 0.02:
            return {"k": "tuple", "items": []}  # Tuple[()]
        t = G.gen_ty(rng, p_opt=0.3, p_union=0.0 if safe else 0.06)
        inner = t["inner"] if t["k"] == "opt" else t
        if inner["k"] == "literal" and safe and literal_collides(inner):
            continue
        if safe:
            items = [inner.get("item")] if inner["k"] in ("list", "vtuple") else inner.get("items", []) if inner["k"] == "tuple" else []
            if any(it["k"] not in SAFE_BASES for it in items):
                continue
        return t
    return {"k": "int"}


def gen_leaf_default(rng, t, safe):
    r = rng.random()
    if r < 0.25:
        return {"kind": "missing"}
    if t["k"] == "opt" and (safe or r < 0.6):
        return {"kind": "value", "v": {"t": "none"}}     # safe stratum: an Optional leaf's default is None (or missing)
    if t["k"] not in ("opt", "literal") and r > 0.95 and not (t["k"] == "enum" and t["cls"] == "Level"):
        # `a: int = None`: a None default without an Optional annotation.  (Not for the str-mixin Enum `Level`: there the
        # real code raises KeyError(<Level.X>) for ANY value, command line or file — postprocess() sees a member that is also
        # a str and looks it up by name again; reported as a finding candidate, it is not specific to this property.)
        return {"kind": "value", "v": {"t": "none"}}
    return {"kind": "value", "v": G.gen_value(rng, t)}


def gen_instance(rng, classes, name, p_none=0.25):
    c = class_of(classes, name)
    out = []
    for f in c["fields"]:
        t = f["ty"]
        if is_dc(t):
            if t["k"] == "opt" and rng.random() < p_none:
                out.append([f["name"], {"t": "none"}])
            else:
                out.append([f["name"], gen_instance(rng, classes, dc_name(t), p_none)])
        else:
            r = rng.random()
            d = f["default"]
            if r < 0.15 and d["kind"] != "missing" and (t["k"] == "opt" or d["v"]["t"] != "none"):
                out.append([f["name"], copy.deepcopy(d["v"])])  # the value equals the definition default
            else:
                v = G.gen_value(rng, t)
                v = spice(rng, t, v)
                out.append([f["name"], v])
    return {"t": "inst", "cls": name, "v": out}


def spice(rng, t, v):
    """now and then a multi-line / yaml-special string where a str is held (str, Optional[str], str items)"""
    inner = t["inner"] if t["k"] == "opt" else t
    if inner["k"] == "str" and v["t"] == "str" and rng.random() < 0.2:
        return {"t": "str", "v": rng.choice(SPECIAL_STRS)}
    if inner["k"] in ("list", "vtuple") and inner["item"]["k"] == "str" and v["t"] in ("list", "tuple") and rng.random() < 0.2:
        return {"t": v["t"], "v": [{"t": "str", "v": rng.choice(SPECIAL_STRS)} if rng.random() < 0.5 else x for x in v["v"]]}
    return v


def gen_class(rng, classes, counter, depth, safe=False, root=False):
    """appends the class (and the classes it needs) to `classes`; returns its name"""
    n_fields = rng.choice([1, 2, 2, 3, 3, 4, 5])
    if not root and rng.random() < 0.04:
        n_fields = 0  # a class without leaf fields (possibly without any field)
    names = rng.sample(FIELD_NAMES, n_fields)
    fields = []
    for nm in names:
        t = gen_leaf_ty(rng, safe)
        fields.append({"name": nm, "ty": t, "default": gen_leaf_default(rng, t, safe)})
    n_sub = 0
    if depth > 0:
        n_sub = rng.choice([0, 1, 1, 2]) if depth >= 2 else rng.choice([0, 0, 1])
        if safe:
            n_sub = max(n_sub, 1)
    for nm in rng.sample(SUB_NAMES, n_sub):
        existing = [c["name"] for c in classes]
        if existing and rng.random() < 0.2:
            sub = rng.choice(existing)
        else:
            sub = gen_class(rng, classes, counter, depth - 1, safe)
        optional = rng.random() < 0.4
        t = {"k": "opt", "inner": {"k": "dc", "cls": sub}} if optional else {"k": "dc", "cls": sub}
        dflt = default_instance(classes, sub)
        r = rng.random()
        if optional and (safe or r < 0.45):
            # safe stratum: an Optional class member has no default instance (None or nothing)
            d = {"kind": "value", "v": {"t": "none"}} if r < 0.7 else {"kind": "missing"}
        elif r < 0.25:
            d = {"kind": "missing"}
        elif (safe or r < 0.6) and dflt is not None:
            d = {"kind": "factory", "v": dflt}
        elif safe:
            d = {"kind": "missing"}
        else:
            d = {"kind": "factory", "v": gen_instance(rng, classes, sub)}  # a factory returning non-default values
        fields.append({"name": nm, "ty": t, "default": d})
    rng.shuffle(fields)
    fields.sort(key=lambda f: f["default"]["kind"] != "missing")  # dataclasses: fields without default first
    counter[0] += 1
    name = f"K{counter[0]}"
    classes.append({"name": name, "fields": fields})
    return name


OTHER_DESTS = ["cfg", "run_1", "options"]


def add_dest_named_field(rng, classes, root, dest, safe=False):
    """give the root class a field whose NAME is the destination the instance is parsed into: a leaf, or a nested dataclass
    member whose own field names are (a subset of) the outer class's leaf names — so that its dict could be mistaken for
    the defaults of the whole class if the file's top-level `dest` key were read as a dest-keyed layout"""
    rc = class_of(classes, root)
    if any(f["name"] == dest for f in rc["fields"]):
        return
    leaves = [f for f in rc["fields"] if not is_dc(f["ty"])]
    if leaves and rng.random() < 0.6:
        picked = rng.sample(leaves, rng.randint(1, len(leaves)))
        sub_fields = []
        for f in picked:
            d = f["default"]
            if safe and f["ty"]["k"] == "opt":
                nd = {"kind": "value", "v": {"t": "none"}}
            elif d["kind"] == "missing" or rng.random() < 0.5:
                nd = {"kind": "value", "v": G.gen_value(rng, f["ty"])}
            else:
                nd = copy.deepcopy(d)
            sub_fields.append({"name": f["name"], "ty": copy.deepcopy(f["ty"]), "default": nd})
        name = f"K{len(classes) + 1}o"
        classes.insert(len(classes) - 1, {"name": name, "fields": sub_fields})  # before the root (dependency order)
        optional = rng.random() < 0.3
        t = {"k": "opt", "inner": {"k": "dc", "cls": name}} if optional else {"k": "dc", "cls": name}
        r = rng.random()
        if r < 0.3:
            d = {"kind": "missing"}
        elif optional and (safe or r < 0.5):
            d = {"kind": "value", "v": {"t": "none"}}
        else:
            d = {"kind": "factory", "v": default_instance(classes, name)}
        rc["fields"].append({"name": dest, "ty": t, "default": d})
    else:
        t = gen_leaf_ty(rng, safe)
        rc["fields"].append({"name": dest, "ty": t, "default": gen_leaf_default(rng, t, safe)})
    rc["fields"].sort(key=lambda f: f["default"]["kind"] != "missing")


def gen_base(rng, safe=False):
    """safe=True: the fileSafe-by-construction stratum (deeper trees, every leaf and every None position round-trips today)"""
    classes: list[dict] = []
    root = gen_class(rng, classes, [0], rng.choice([1, 2, 2, 3, 3]) if safe else rng.choice([0, 1, 1, 2, 2, 3]), safe, root=True)
    # the destination: parse()'s default `config`, a custom dest=, or the name of one of the root's own fields
    r = rng.random()
    names = [f["name"] for f in class_of(classes, root)["fields"]]
    if r < 0.55:
        dest = DEST
    elif r < 0.7:
        dest = rng.choice(OTHER_DESTS)
    else:
        dest = rng.choice(names)
    if rng.random() < 0.35:
        add_dest_named_field(rng, classes, root, dest, safe)
    x = gen_instance(rng, classes, root)
    return classes, root, x, dest


def py_encode(v):
    """the file tree of a canonical value (generator-side transcription, used only to derive mutated files)"""
    t = v["t"]
    if t == "inst":
        return {"k": "obj", "v": [[n, py_encode(x)] for n, x in v["v"]]}
    if t == "enum":
        return {"k": "val", "v": {"t": "str", "v": v["v"]}}
    if t == "path":
        return {"k": "val", "v": {"t": "str", "v": v["v"]}}
    if t in ("list", "tuple"):
        return {"k": "val", "v": {"t": "list", "v": [py_encode(x)["v"] for x in v["v"]]}}
    return {"k": "val", "v": v}


def mutate_file(rng, classes, root, entries):
    """one random mutation of a valid file tree (list of [name, entry])"""
    entries = copy.deepcopy(entries)

    def levels(es, cls, acc):
        acc.append((es, cls))
        c = class_of(classes, cls)
        for n, e in es:
            if e["k"] == "obj":
                f = next((f for f in c["fields"] if f["name"] == n), None)
                if f is not None and is_dc(f["ty"]):
                    levels(e["v"], dc_name(f["ty"]), acc)
        return acc

    lv = levels(entries, root, [])
    es, cls = rng.choice(lv)
    kind = rng.choice(["drop", "null", "unknown", "scalar_for_sub", "bad_str", "bad_enum", "str_for_any", "dict_for_leaf", "clear"])
    if kind == "unknown":
        present = {n for n, _ in es}  # a dict has no duplicate keys
        es.insert(rng.randint(0, len(es)), [rng.choice([n for n in ["zzz", "extra", "config", "cfg"] if n not in present]), {"k": "val", "v": {"t": "int", "v": "1"}}])
        return kind, entries
    if kind == "clear":
        del es[:]
        return kind, entries
    if not es:
        return "none", entries
    i = rng.randrange(len(es))
    n, e = es[i]
    if kind == "drop":
        del es[i]
    elif kind == "null":
        es[i] = [n, {"k": "val", "v": {"t": "none"}}]
    elif kind == "scalar_for_sub":
        subs = [j for j, (_, e2) in enumerate(es) if e2["k"] == "obj"]
        if subs:
            j = rng.choice(subs)
            es[j] = [es[j][0], {"k": "val", "v": rng.choice([{"t": "int", "v": "7"}, {"t": "str", "v": "x"}, {"t": "list", "v": []}])}]
    elif kind == "bad_str":
        if e["k"] == "val":
            es[i] = [n, {"k": "val", "v": {"t": "str", "v": rng.choice(["12", "ab", "1.5", "yes", "", "RED", "no"])}}]
    elif kind == "bad_enum":
        if e["k"] == "val" and e["v"]["t"] == "str":
            es[i] = [n, {"k": "val", "v": {"t": "str", "v": "PURPLE"}}]
    elif kind == "str_for_any":
        if e["k"] == "val":
            es[i] = [n, {"k": "val", "v": rng.choice([{"t": "int", "v": "3"}, {"t": "bool", "v": True}, {"t": "float", "v": "2.5"},
                                                     {"t": "list", "v": [{"t": "str", "v": "a"}]}])}]
    elif kind == "dict_for_leaf":
        if e["k"] == "val":
            es[i] = [n, {"k": "obj", "v": [["zz", {"k": "val", "v": {"t": "int", "v": "1"}}]]}]
    return kind, entries


def gen(rng, tier):
    workdir()
    n = 300 if tier == "quick" else 4700
    for i in range(n):
        safe = i % 2 == 1
        classes, root, x, dest = gen_base(rng, safe)
        base = {"classes": classes, "root": root, "x": x, "dest": dest, "stratum": "safe" if safe else "any"}
        for fmt in FMTS:
            for route in ROUTES:
                for api in APIS:
                    yield {"op": "cl.loop", "case": dict(base, fmt=fmt, route=route, api=api)}
        yield {"op": "cl.encode", "case": {"classes": classes, "root": root, "x": x}}
        # the theorem's exclusion predicate against the real outcome: fileSafe(spec, x) <=> the real loop returns x
        yield {"op": "cl.filesafe", "case": dict(base, fmt=rng.choice(FMTS), route=rng.choice(ROUTES), api=rng.choice(APIS))}
        # mutated files (correspondence of the default machinery on files save() would not write)
        valid = py_encode(x)["v"]
        for _ in range(3):
            kind, entries = mutate_file(rng, classes, root, valid)
            api = rng.choice(APIS)
            lay = rng.random()
            if lay < 0.8:
                top = entries if api == "parse" else [[dest, {"k": "obj", "v": entries}]]
            elif lay < 0.9:
                top = [[dest, {"k": "obj", "v": entries}]] if api == "parse" else entries  # the other front end's layout
                kind += "+layout"
            else:
                top = [[dest, rng.choice([{"k": "val", "v": {"t": "none"}}, {"k": "val", "v": {"t": "int", "v": "3"}}])]]
                kind += "+dest-scalar"
            yield {"op": "cl.parse_file", "case": {"classes": classes, "root": root, "dest": dest, "file": top, "api": api,
                                                   "fmt": rng.choice(FMTS), "route": rng.choice(ROUTES), "mutation": kind}}


# -----------------------------------------------------------------------------------------------
# real code


def enums_of(classes):
    out = {}

    def walk(t):
        if t["k"] == "enum":
            out[t["cls"]] = (t["members"], t.get("values"))
        for key in ("inner", "item"):
            if key in t:
                walk(t[key])
        for key in ("items", "alts"):
            for x in t.get(key, []):
                walk(x)

    for c in classes:
        for f in c["fields"]:
            walk(f["ty"])
    return out


def build(classes):
    u = Universe()
    for cls, (members, values) in enums_of(classes).items():
        u.enum(cls, members, values)
    for c in classes:
        k = u.add_class(c["name"], c)
        # make_dataclass puts the classes in module "types": simple-parsing's docstring lookup would then parse the source
        # of the stdlib module for every field (9 ms each). A module name without source makes that lookup fail fast.
        k.__module__ = "spverif_c15_generated"
    return u


def raw_py(e):
    """file tree entry -> the Python object handed to save()"""
    if e["k"] == "obj":
        return {n: raw_py(x) for n, x in e["v"]}
    v = e["v"]
    t = v["t"]
    if t == "none":
        return None
    if t == "int":
        return int(v["v"])
    if t == "float":
        return float(v["v"])
    if t == "bool":
        return bool(v["v"])
    if t == "str":
        return v["v"]
    if t == "list":
        return [raw_py({"k": "val", "v": x}) for x in v["v"]]
    raise ValueError(t)


def tree_of_raw(d):
    out = []
    for k, v in d.items():
        if isinstance(v, dict):
            out.append([k, {"k": "obj", "v": tree_of_raw(v)}])
        else:
            out.append([k, {"k": "val", "v": sp.cv(v)}])
    return out


def run_config(u, cls, c, payload):
    """write `payload` with the real save() and parse an empty command line with it as the config file"""
    import simple_parsing
    from simple_parsing.helpers.serialization import save

    path = os.path.join(workdir(), f"saved_{os.getpid()}" + c["fmt"])
    try:
        try:
            save(payload, path)
        except BaseException as e:  # noqa: BLE001
            return {"o": "raise", "exc": type(e).__name__, "stage": "save", "msg": str(e)[:200]}
        seen = sniff_format(path)
        sp.reset_globals()
        # a parser that has a config path can be parsed only once (DESIGN D6): a fresh parser per parse
        if c["api"] == "parse":
            if c["route"] == "ctor":
                r = sp.run_outcome(lambda: simple_parsing.parse(cls, config_path=path, args=[], dest=c["dest"]))
            else:
                r = sp.run_outcome(lambda: simple_parsing.parse(cls, add_config_path_arg=True, args=["--config_path", path],
                                                                dest=c["dest"]))
            inst = r.get("value")
        else:
            if c["route"] == "ctor":
                parser = simple_parsing.ArgumentParser(config_path=path)
                argv = []
            else:
                parser = simple_parsing.ArgumentParser(add_config_path_arg=True)
                argv = ["--config_path", path]
            parser.add_arguments(cls, dest=c["dest"])
            r = sp.run_outcome(lambda: parser.parse_args(argv))
            inst = getattr(r["value"], c["dest"], None) if r["o"] == "ok" else None
    finally:
        try:
            os.unlink(path)
        except OSError:
            pass
    if r["o"] == "ok":
        return {"o": "ok", "inst": sp.cv(inst), "format_seen": seen}
    return dict({k: v for k, v in r.items() if k != "value"}, format_seen=seen)


def sniff_format(path):
    """what the written file looks like, independently of its extension: pickle protocol header, JSON text (json.dump writes
    no trailing newline), otherwise YAML (yaml.dump always ends with a newline)"""
    import json

    with open(path, "rb") as f:
        data = f.read()
    if data[:1] == b"\x80":
        return "pickle"
    try:
        text = data.decode("utf-8")
    except UnicodeDecodeError:
        return "binary"
    if not text.endswith("\n"):
        try:
            json.loads(text)
            return "json"
        except ValueError:
            return "text"
    return "yaml"


FORMAT_OF_EXT = {".json": "json", ".yaml": "yaml", ".yml": "yaml", ".pkl": "pickle"}


def impl(case):
    from simple_parsing.helpers.serialization import to_dict

    c = case["case"]
    u = build(c["classes"])
    cls = u.classes[c["root"]]
    if case["op"] == "cl.encode":
        x = u.val(c["x"])
        r = sp.run_outcome(lambda: to_dict(x))
        if r["o"] != "ok":
            return {k: v for k, v in r.items() if k != "value"}
        return {"file": tree_of_raw(r["value"])}
    if case["op"] in ("cl.loop", "cl.filesafe"):
        x = u.val(c["x"])
        assert sp.cv(x) == c["x"], "the generated instance is not what the case says"
        if c["api"] == "parse":
            payload = x  # save(x, path): to_dict is applied by save itself
        else:
            payload = {c["dest"]: to_dict(x)}
        obs = run_config(u, cls, c, payload)
        if case["op"] == "cl.filesafe":
            # did the real loop reproduce x?  (the property's own statement, evaluated here because it IS the observation)
            fails = loop_failures(c, obs)
            return {"filesafe": not fails, "n_fails": len(fails), "first": (fails[0].get("detail", "")[:300] if fails else "")}
        return obs
    # cl.parse_file
    return run_config(u, cls, c, {n: raw_py(e) for n, e in c["file"]})


# -----------------------------------------------------------------------------------------------
# model side


def spec_tree(classes, name):
    out = []
    for f in class_of(classes, name)["fields"]:
        t = f["ty"]
        if is_dc(t):
            sub = dc_name(t)
            d = f["default"]
            if d["kind"] == "missing":
                dflt = {"kind": "missing"}
            elif d["v"]["t"] == "none":
                dflt = {"kind": "none"}
            else:
                dflt = {"kind": "inst", "v": inst_tree(classes, sub, d["v"])}
            out.append({"k": "sub", "name": f["name"], "cls": sub, "optional": t["k"] == "opt", "dflt": dflt,
                        "fields": spec_tree(classes, sub)})
        else:
            d = f["default"]
            out.append({"k": "leaf", "f": {"name": f["name"], "ty": t,
                                            "default": d if d["kind"] == "missing" else {"kind": "value", "v": d["v"]}}})
    return out


def inst_tree(classes, name, v):
    out = []
    fields = {f["name"]: f for f in class_of(classes, name)["fields"]}
    for n, x in v["v"]:
        t = fields[n]["ty"]
        if is_dc(t):
            if x["t"] == "none":
                out.append([n, {"k": "subnone"}])
            else:
                out.append([n, {"k": "sub", "cls": x["cls"], "v": inst_tree(classes, x["cls"], x)}])
        else:
            out.append([n, {"k": "leaf", "v": x}])
    return out


def strings_in(j, acc):
    if isinstance(j, dict):
        if j.get("t") in ("str", "path", "enum") and isinstance(j.get("v"), str):
            acc.append(j["v"])
        for v in j.values():
            strings_in(v, acc)
    elif isinstance(j, list):
        for v in j:
            strings_in(v, acc)
    return acc


def model_case(case, obs):
    c = case["case"]
    if case["op"] == "cl.encode":
        return {"x": inst_tree(c["classes"], c["root"], c["x"])}
    spec = spec_tree(c["classes"], c["root"])
    m = {"api": c["api"], "dest": c["dest"], "cls": c["root"], "spec": spec}
    if case["op"] in ("cl.loop", "cl.filesafe"):
        m["x"] = inst_tree(c["classes"], c["root"], c["x"])
        m["floats"] = G.floats_table(strings_in([c["x"], c["classes"]], []))
    else:
        m["file"] = c["file"]
        m["floats"] = G.floats_table(strings_in([c["file"], c["classes"]], []))
    return m


def project(case, obs):
    if case["op"] == "cl.encode":
        return obs if "file" in obs else {"o": obs["o"], "exc": obs.get("exc")}
    if case["op"] == "cl.filesafe":
        return {"filesafe": obs["filesafe"]}
    if obs["o"] == "ok":
        return {"o": "ok", "inst": obs["inst"]}
    if obs["o"] == "exit":
        return {"o": "exit", "code": obs["code"]}
    return {"o": "raise", "exc": obs["exc"]}


def model_unmodelled(mo):
    return isinstance(mo, dict) and mo.get("o") == "unmodelled"


# -----------------------------------------------------------------------------------------------
# the property itself


def definition_candidates(classes, root, path):
    """every definition default that could be 'the default in effect' for the leaf at `path` (a list of names):
    the field's own default and the corresponding attribute of every enclosing default_factory instance"""
    out = []
    cls = root
    pending = []  # instances of enclosing factories, positioned at the current class
    for i, nm in enumerate(path):
        f = next(f for f in class_of(classes, cls)["fields"] if f["name"] == nm)
        d = f["default"]
        last = i == len(path) - 1
        nxt = []
        for inst in pending:
            attr = dict((n, v) for n, v in inst["v"]).get(nm) if inst.get("t") == "inst" else None
            if attr is not None:
                if last:
                    out.append(attr)
                else:
                    nxt.append(attr)
        if last:
            if d["kind"] != "missing":
                out.append(d["v"])
        else:
            if d["kind"] != "missing":
                nxt.append(d["v"])
            cls = dc_name(f["ty"])
        pending = nxt
    return out


def compare(classes, cls, exp, got, path, fails, root):
    """leaf-by-leaf: equality with x and the declared type of every leaf"""
    if got.get("t") != "inst" or got.get("cls") != cls:
        fails.append({"clause": "equal", "path": ".".join(path), "kind": "class", "expected": exp, "got": got,
                      "detail": f"{'.'.join(path) or '<root>'}: expected an instance of {cls}, got {got}"})
        return
    gotd = dict((n, v) for n, v in got["v"])
    for (n, e), f in zip(exp["v"], class_of(classes, cls)["fields"]):
        assert n == f["name"]
        g = gotd.get(n, {"t": "raw", "py": "<absent>"})
        t = f["ty"]
        p = path + [n]
        if is_dc(t):
            if e["t"] == "none":
                if g != e:
                    fails.append({"clause": "equal", "path": ".".join(p), "kind": "optional-class", "expected": e, "got": g,
                                  "candidates": definition_candidates(classes, root, p),
                                  "detail": f"{'.'.join(p)}: saved None, received {g}"})
            else:
                compare(classes, dc_name(t), e, g, p, fails, root)
            continue
        if not G.value_type_ok(g, t):
            fails.append({"clause": "type", "path": ".".join(p), "ty": t, "expected": e, "got": g,
                          "candidates": definition_candidates(classes, root, p),
                          "detail": f"{'.'.join(p)}: received {g}, which is not of the declared type {t} (saved {e})"})
        elif g != e:
            fails.append({"clause": "equal", "path": ".".join(p), "ty": t, "expected": e, "got": g,
                          "candidates": definition_candidates(classes, root, p),
                          "detail": f"{'.'.join(p)}: saved {e}, received {g}"})


def loop_failures(c, obs):
    """the property on one real loop: the file was accepted, the result equals x leaf by leaf, every leaf has its declared
    type, and the file really was of the format its extension names"""
    fails = []
    if obs.get("format_seen") not in (None, FORMAT_OF_EXT[c["fmt"]]):
        fails.append({"clause": "format", "detail": f"save() to a {c['fmt']} file wrote {obs.get('format_seen')} content"})
    if obs["o"] != "ok":
        fails.append({"clause": "accepted", "detail": f"the saved file was not accepted as config file ({c['fmt']}, {c['route']}, "
                                                      f"{c['api']}): {obs}"})
        return fails
    compare(c["classes"], c["root"], c["x"], obs["inst"], [], fails, c["root"])
    return fails


def oracle(case, obs):
    c = case["case"]
    fails = []
    if case["op"] == "cl.encode":
        if "file" not in obs:
            fails.append({"clause": "save", "detail": f"to_dict failed: {obs}"})
        return fails
    if case["op"] == "cl.filesafe":
        # by construction the `safe` stratum lies inside the theorem's domain: the real loop must reproduce x
        if c.get("stratum") == "safe" and not obs["filesafe"]:
            fails.append({"clause": "safe-stratum", "stratum": "safe", "detail": "an instance built to be fileSafe did not round-trip: " + obs["first"]})
        return fails
    if case["op"] != "cl.loop":
        return fails  # mutated files: the property says nothing about files save() did not write
    fails = loop_failures(c, obs)
    if c.get("stratum") == "safe":
        for f in fails:
            f["stratum"] = "safe"   # never attributed to an open finding (see FINDINGS)
    return fails


# -----------------------------------------------------------------------------------------------
# open findings (narrow signatures)


def _item_types(t):
    inner = t["inner"] if t["k"] == "opt" else t
    return inner


def sig_container_items(case, obs, fail):
    """D17a: the only difference is inside a List/Tuple leaf: the container is of the right kind and length, and every
    differing item is an Enum member / Path that came back as its name / path *string*."""
    if fail.get("clause") not in ("type", "equal") or "ty" not in fail:
        return False
    t = _item_types(fail["ty"])
    if t["k"] not in ("list", "tuple", "vtuple"):
        return False
    e, g = fail["expected"], fail["got"]
    if e.get("t") not in ("list", "tuple") or g.get("t") != e["t"] or len(g["v"]) != len(e["v"]):
        return False
    diff = False
    for a, b in zip(e["v"], g["v"]):
        if a == b:
            continue
        if a["t"] in ("enum", "path") and b == {"t": "str", "v": a["v"]}:
            diff = True
            continue
        return False
    return diff


def sig_none_optional(case, obs, fail):
    """D17b: an Optional leaf holding None came back as (one of) its definition default(s), which is not None."""
    if fail.get("clause") not in ("equal",) or "ty" not in fail:
        return False
    if fail["ty"]["k"] != "opt" or fail["expected"] != {"t": "none"}:
        return False
    g = fail["got"]
    if g == {"t": "none"}:
        return False
    for cand in fail.get("candidates", []):
        if g == cand:
            return True
        # … or that default after the Union's type= re-parsed it (it is a string default too: C15-union-str-reparsed)
        if cand.get("t") == "str" and _union_reparsed_to(fail["ty"], cand, g):
            return True
    return False


def sig_none_class(case, obs, fail):
    """an Optional[dataclass] field holding None came back as (one of) its definition default instance(s): the field has a
    default_factory (or an enclosing default_factory instance holds an instance there)"""
    if fail.get("clause") != "equal" or fail.get("kind") != "optional-class":
        return False
    g = fail["got"]
    return fail["expected"] == {"t": "none"} and g.get("t") == "inst" and any(g == cand for cand in fail.get("candidates", []))


def _lit_name(v):
    """str(v) of a Literal value (what choice_dict is keyed by)"""
    if v["t"] == "bool":
        return "True" if v["v"] else "False"
    return v["v"] if v["t"] in ("str", "int", "enum") else None


def _collides_to(ty, e, g):
    """g is what the Literal `ty` turns the str value e into: the LAST value with the same str(), which is not e itself"""
    if ty.get("k") != "literal" or e.get("t") != "str":
        return False
    vals = ty["vals"]
    if e not in vals or g not in vals or e == g:
        return False
    same = [v for v in vals if _lit_name(v) == e["v"]]
    return len(same) >= 2 and same[-1] == g and vals.index(g) > vals.index(e)


def _union_reparsed_to(ty, e, g):
    """g is what an EARLIER member of the Union `ty` makes of the str value e"""
    t = ty["inner"] if ty.get("k") == "opt" else ty
    if t.get("k") != "union" or e.get("t") != "str" or g.get("t") not in ("int", "float", "bool"):
        return False
    alts = [a["k"] for a in t["alts"]]
    if "str" not in alts or g["t"] not in alts[: alts.index("str")]:
        return False
    txt = e["v"]
    try:
        if g["t"] == "int":
            return str(int(txt)) == g["v"]
        if g["t"] == "float":
            return repr(float(txt)) == g["v"]
        from simple_parsing.utils import str2bool

        return str2bool(txt) is g["v"]
    except Exception:  # noqa: BLE001
        return False


def _inst_eq_mod(classes, cls, exp, got):
    """(equal up to Literal name collisions / Union re-parses at leaves, #collisions, #re-parses)"""
    if got.get("t") != "inst" or exp.get("t") != "inst" or got.get("cls") != cls or exp.get("cls") != cls:
        return False, 0, 0
    fields = {f["name"]: f for f in class_of(classes, cls)["fields"]}
    gd = dict((n, v) for n, v in got["v"])
    n_lit = n_un = 0
    for n, e in exp["v"]:
        f, g = fields[n], gd.get(n)
        if g == e:
            continue
        if g is None:
            return False, 0, 0
        if is_dc(f["ty"]):
            ok, a, b = _inst_eq_mod(classes, dc_name(f["ty"]), e, g)
            if not ok:
                return False, 0, 0
            n_lit += a
            n_un += b
        elif _collides_to(f["ty"], e, g):
            n_lit += 1
        elif _union_reparsed_to(f["ty"], e, g):
            n_un += 1
        else:
            return False, 0, 0
    return True, n_lit, n_un


def _is_defaults_mod(classes, g):
    """instance g is what the class builds from its definition defaults (None where there is none), up to Literal collisions /
    Union re-parses at leaves — own leaves and, recursively, every nested member that is not None (below a member whose
    default is None the nested wrappers' defaults are None too, so nested members are built from their own field defaults):
    (ok, #collisions, #re-parses)"""
    if g.get("t") != "inst":
        return False, 0, 0
    gd = dict((n, v) for n, v in g["v"])
    n_lit = n_un = 0
    for f in class_of(classes, g["cls"])["fields"]:
        got = gd.get(f["name"], {})
        if is_dc(f["ty"]):
            if got == {"t": "none"}:
                continue
            if got.get("t") != "inst" or got.get("cls") != dc_name(f["ty"]):
                return False, 0, 0
            ok, a, b = _is_defaults_mod(classes, got)
            if not ok:
                return False, 0, 0
            n_lit += a
            n_un += b
            continue
        e = f["default"]["v"] if f["default"]["kind"] != "missing" else {"t": "none"}
        if got == e:
            continue
        if _collides_to(f["ty"], e, got):
            n_lit += 1
        elif _union_reparsed_to(f["ty"], e, got):
            n_un += 1
        else:
            return False, 0, 0
    return True, n_lit, n_un


def _none_class_composite(case, fail):
    """for a failure "Optional[class] member: saved None, received an instance": (via_factory, via_unequal_default, #lit, #union)
    via_factory: the instance is a definition default instance up to collisions / re-parses inside it;
    via_unequal_default: it is the class built from its definition defaults, with >= 1 leaf (its own or of a nested member:
    `_is_at_default` looks into nested members) converted by a collision / re-parse — the documented rule of the two open
    findings and nothing else — so that the member is "not at its defaults" and is built instead of staying None"""
    c = case["case"]
    g = fail["got"]
    if fail.get("kind") != "optional-class" or fail.get("expected") != {"t": "none"} or g.get("t") != "inst":
        return None
    for cand in fail.get("candidates", []):
        if cand.get("t") == "inst":
            ok, a, b = _inst_eq_mod(c["classes"], g["cls"], cand, g)
            if ok:
                return ("factory", a, b)
    ok, a, b = _is_defaults_mod(c["classes"], g)
    if ok and a + b >= 1:
        return ("unequal-default", a, b)
    return None


def sig_literal_collision(case, obs, fail):
    """(a) the leaf is a Literal[...] in which a LATER value has the same str() as the saved (str) value, and the value
    received is exactly the last value of that name; or the same collision hits a definition DEFAULT of a class that x holds
    None for: (b) the default_factory instance comes back (finding C15-none-class-is-absent) with its colliding literal
    replaced, (c) the Optional[class] = None member comes back as an instance because the collided default no longer
    equals the default (`arg_value != default_value`), its own leaves being the definition defaults up to the collision"""
    if fail.get("clause") != "equal":
        return False
    if fail.get("kind") == "optional-class":
        r = _none_class_composite(case, fail)
        return r is not None and r[1] >= 1
    return "ty" in fail and _collides_to(fail["ty"], fail["expected"], fail["got"])


def sig_union_reparsed(case, obs, fail):
    """the leaf is a Union (or Optional[Union]) holding a str; the value received is what an EARLIER member of the Union
    makes of that string (int(s) / float(s) / str2bool(s)) — or the same re-parse hits a definition default of a class x holds
    None for (see sig_literal_collision (b), (c))"""
    if fail.get("kind") == "optional-class":
        r = _none_class_composite(case, fail)
        return r is not None and r[2] >= 1
    if fail.get("clause") not in ("equal", "type") or "ty" not in fail:
        return False
    return _union_reparsed_to(fail["ty"], fail["expected"], fail["got"])


def _not_safe_stratum(pred):
    """a failure inside the fileSafe-by-construction stratum is never a known finding"""
    return lambda case, obs, fail: fail.get("stratum") != "safe" and pred(case, obs, fail)


FINDINGS = {
    "C15-union-str-reparsed": sig_union_reparsed,
    "C15-literal-name-collision": sig_literal_collision,
    "C15-D17a-container-items-stay-str": sig_container_items,
    "C15-D17b-none-is-absent": sig_none_optional,
    "C15-none-class-is-absent": sig_none_class,
}
FINDINGS = {k: _not_safe_stratum(v) for k, v in FINDINGS.items()}


# -----------------------------------------------------------------------------------------------
# evidence helpers


def leaves(v, acc):
    for n, x in v["v"]:
        if x["t"] == "inst":
            leaves(x, acc)
        else:
            acc.append(x)
    return acc


def depth_of(v):
    return 1 + max([depth_of(x) for _, x in v["v"] if x["t"] == "inst"] or [0])


def nontrivial(case, obs):
    c = case["case"]
    if case["op"] == "cl.parse_file":
        return len(c["file"]) >= 1
    ls = leaves(c["x"], [])
    return len(ls) >= 2 and (depth_of(c["x"]) >= 2 or any(x["t"] in ("list", "tuple", "enum", "path", "none") for x in ls))


def tags(case, obs):
    c = case["case"]
    t = [f"op:{case['op']}"]
    if case["op"] == "cl.encode":
        return t
    if case["op"] == "cl.filesafe":
        return t + [f"filesafe:{obs['filesafe']}", "domain:" + ("filesafe" if c.get("stratum") == "safe" else "any"),
                    f"filesafe-depth:{depth_of(c['x'])}:{obs['filesafe']}"]
    root_names = [f["name"] for f in class_of(c["classes"], c["root"])["fields"]]
    t.append("dest:" + ("config" if c["dest"] == DEST else "custom") + ("+is-field-name" if c["dest"] in root_names else ""))
    t += [f"api:{c['api']}", f"fmt:{c['fmt']}", f"route:{c['route']}", "out:" + (obs["o"] + (":" + obs.get("exc", "") if obs["o"] == "raise" else ""))]
    if case["op"] == "cl.parse_file":
        t.append("mut:" + c["mutation"])
        return t
    t += [f"depth:{depth_of(c['x'])}", f"leaves:{min(len(leaves(c['x'], [])), 12)}",
          "domain:" + ("filesafe" if c.get("stratum") == "safe" else "any")]
    if c.get("stratum") == "safe":
        t.append(f"domain:filesafe+depth:{depth_of(c['x'])}")
    for cl in c["classes"]:
        for f in cl["fields"]:
            ty = f["ty"]
            k = ty["k"]
            if k == "opt":
                k = "opt-" + ty["inner"]["k"]
            t.append("ty:" + k)
            if is_dc(ty):
                t.append("subdefault:" + f["default"]["kind"] + ("-none" if f["default"].get("v", {}).get("t") == "none" else ""))

    def walk(v):
        for n, x in v["v"]:
            if x["t"] == "inst":
                walk(x)
            elif x["t"] == "none":
                t.append("value:none")

    walk(c["x"])
    return sorted(set(t))


def strip_field(v, cls, fname):
    """remove field `fname` of class `cls` from every instance inside the canonical value v"""
    if not isinstance(v, dict) or v.get("t") != "inst":
        return v
    out = [[n, strip_field(x, cls, fname)] for n, x in v["v"] if not (v["cls"] == cls and n == fname)]
    return {"t": "inst", "cls": v["cls"], "v": out}


def shrink(case):
    if case["op"] != "cl.loop":
        return
    c = case["case"]
    for key, val in (("fmt", ".json"), ("route", "ctor"), ("api", "parse")):
        if c[key] != val:
            yield {"op": case["op"], "case": dict(c, **{key: val})}
    for ci, cl in enumerate(c["classes"]):
        for fi, f in enumerate(cl["fields"]):
            if len(cl["fields"]) <= 1:
                continue
            classes = copy.deepcopy(c["classes"])
            del classes[ci]["fields"][fi]
            for cl2 in classes:
                for f2 in cl2["fields"]:
                    if f2["default"]["kind"] != "missing":
                        f2["default"]["v"] = strip_field(f2["default"]["v"], cl["name"], f["name"])
            x = strip_field(c["x"], cl["name"], f["name"])
            yield {"op": case["op"], "case": dict(c, classes=classes, x=x)}
