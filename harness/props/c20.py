"""C20 — callable front-ends (`main`, `config_for`/`Partial`) pass exactly the parsed values to the wrapped callable."""
from __future__ import annotations

import atexit
import contextlib
import dataclasses
import importlib
import inspect
import itertools
import json
import os
import shutil
import sys
import tempfile
import textwrap

from harness.core import sp

PID = "C20"
RULE = ("cases: generated function / class signatures written as real modules in a per-process temp directory "
        "(1-6 parameters over {int,float,str,Path,bool,Enum,List,Tuple,Optional,Union,Literal,dataclass,unannotated} x "
        "{positional-only, positional-or-keyword, keyword-only} x {no default, value, None, function default}, with/without "
        "docstring Args section and postponed annotations) x argv (valid: every required parameter given; malformed: "
        "missing / bad / unknown / extra). A recording stub captures the raw call and the callee's bound values; the same "
        "argv is parsed with the equivalent hand-written dataclass and the callable is called directly with those values. "
        "config_for cases: function and class targets with ignore lists, **defaults overrides, class annotations and "
        "inferred types; Partial call with explicit kwargs; cache histories over several targets and argument forms. "
        "config_for targets carry Google-style docstrings (function, class and/or __init__) whose Args entries have second "
        "colons (ratios, URLs, 'one of: …'), type suffixes 'x (int)', padding, multi-line continuations, undocumented and "
        "phantom names, and a small malformed stream; help text per option is compared. call.cachemany: the same callable is "
        "requested again after config classes were derived for k in {1,50,130,300} other callables (identity, isinstance of "
        "the earlier object, equality of re-parses). "
        "Round 2: mutable defaults (list, dict, non-frozen dataclass instance), zero-parameter callables, the three ways of "
        "applying main (direct, factory form, sys.argv), config targets over the CLI type grammar (Path, Enum, List, Optional, "
        "Literal, Union) incl. positional-only parameters, Partial[f], equal-but-differently-typed **defaults (1/1.0/True). "
        "Unit ops: only_keep_action_args over all stock action names, CPython binding, type inference, the Args-section "
        "reader on generated and hand-written docstrings. Non-trivial = a "
        "signature with >= 2 parameters and (non-empty argv | an ignore list / override | >= 2 cache calls | a filtered "
        "key); distinct by canonical JSON of the case.")
ASSUMPTIONS = [
    "inspect.signature / functools.wraps(__wrapped__) report the generated signature (stdlib)",
    "dataclasses.make_dataclass builds the class from the (name, type, field) triples it is given (stdlib)",
    "the parse of the synthesised class is taken as a parameter: its outcome is the outcome of parsing the equivalent "
    "hand-written dataclass (checked on every case by the oracle, proved for nothing)",
    "functools.lru_cache(typed=True) keys on (positional args, keyword items in call order) and the TYPE of each value "
    "(stdlib; since 4d0f313): the model's cache key holds the typed **defaults values (1, 1.0 and True are three keys)",
    "READING of 'the same object for the same callable': identity is claimed for identically WRITTEN calls only — "
    "config_for(f) / config_for(f, frozen=True) / ignore_args='b' vs ('b',) / a different order of **defaults are different "
    "cache keys and give different classes (Lean: c20_cache_spelling_witness); Partial[f] is config_for(f)",
    "EXCLUDED signatures: *args / **kwargs parameters (outside `Kind`; `main` turns them into REQUIRED options --args/--kw, "
    "`def f(*args: int, **kw: str)` exits 2 on []); for config_for a parameter with neither annotation nor default is "
    "dropped with a warning and an untyped `= None` default raises NotImplementedError for the whole callable (Lean: "
    "c20_config_untyped_dropped, c20_config_none_default_witness) — the oracle makes no demand there",
    "config_for marks a default-less Optional[...] parameter required=True while a hand-written Optional field is optional: "
    "such parameters are not generated for config targets",
]
TRUSTED = ["CPython argument binding (modelled by `bind`, compared against real calls by op call.bind)",
           "stdlib argparse action constructor signatures (table `stockCtorArgs`, compared by op call.keep)"]
EXHAUSTIVE = {"quick": False, "thorough": False}
THOROUGH_ROUNDS = 8   # thorough tier: this many generator passes with derived PRNG states (vcheck)

# ------------------------------------------------------------------------------------------------
# type table: annotation source -> class for the model, default literals, argv tokens for one value

TY = {
    "int": {"cls": "plain", "dflt": ["1", "42", "0", "None"], "tok": [["5"], ["12"], ["0"]], "bad": [["x1"]]},
    "float": {"cls": "plain", "dflt": ["1.5", "0.0", "2.0"], "tok": [["2.5"], ["3"], ["1e-3"]], "bad": [["abc"]]},
    "str": {"cls": "plain", "dflt": ['"x"', '""', '"hello world"'], "tok": [["word"], ["a b"], ["7"]], "bad": []},
    "Path": {"cls": "plain", "dflt": ['Path("d/e")'], "tok": [["some/p"], ["q.txt"]], "bad": []},
    "bool": {"cls": "bool", "dflt": ["True", "False", "None"], "tok": [[], ["true"], ["False"]], "bad": [["maybe"]]},
    "Color": {"cls": "enum", "dflt": ["Color.RED", "Color.BLUE"], "tok": [["GREEN"], ["RED"]], "bad": [["PURPLE"]]},
    "List[int]": {"cls": "list", "dflt": ["@[1, 2]", "@[]", "@[1, 2]", "[1, 2]"], "tok": [["3", "4"], ["9"], []], "bad": [["z"]]},
    "List[str]": {"cls": "list", "dflt": ['@["a"]', '@["p", "q"]'], "tok": [["u", "v"], ["w"]], "bad": []},
    "Tuple[int, str]": {"cls": "tuple", "dflt": ['(1, "a")'], "tok": [["3", "q"]], "bad": [["3"]]},
    "Optional[int]": {"cls": "optional", "dflt": ["None", "3"], "tok": [["7"]], "bad": [["no"]]},
    "Optional[str]": {"cls": "optional", "dflt": ["None", '"o"'], "tok": [["txt"]], "bad": []},
    "Union[int, str]": {"cls": "union", "dflt": ["1", '"u"'], "tok": [["9"], ["zz"]], "bad": []},
    'Literal["a", "b"]': {"cls": "choice", "dflt": ['"a"'], "tok": [["b"], ["a"]], "bad": [["c"]]},
    "N": {"cls": "dc", "dflt": ["N(3, 'q')", "N()"], "tok": [["--x", "4"], ["--y", "zz"], ["--x", "8", "--y", "w"], []],
          "bad": [["--x", "t"]]},
    # a config_for()/Partial class used as a parameter type; its instances are functools.partial objects
    "OptCfg": {"cls": "dc", "dflt": ["OptCfg(lr=0.5)", "OptCfg()", "OptCfg(momentum=0.0)"],
               "tok": [["--lr", "0.25"], ["--momentum", "0.5"], ["--lr", "2", "--momentum", "3"], []], "bad": [["--lr", "t"]]},
    # an ordinary (non-frozen) dataclass: its instances are unhashable, i.e. "mutable defaults" for dataclasses
    "M": {"cls": "dc", "dflt": ["M()", "M(5)"], "tok": [["--u", "4"], []], "bad": [["--u", "t"]]},
    # ordinary parameters whose default is a callable *object* (not a plain function): passed as is, never called
    "Any": {"cls": "plain", "dflt": ["functools.partial(pow, 2)", "3", "functools.partial(int, base=2)"],
            "tok": [["tok"], ["5"]], "bad": []},
    None: {"cls": None, "dflt": ["3", '"s"', "None", "2.5", "@7", "functools.partial(pow, 2)", "[1, 2]", "{}"], "tok": [["tok"], ["5"]], "bad": []},
}
DC_TYPES = ("N", "OptCfg", "M")
MUTABLE_DFLTS = {"[1, 2]", "[]", "{}", "M()", "M(5)", "{1, 2}"}     # values of an unhashable class
SINGLE_TOKEN = ["int", "float", "str", "Path", "Color", "Union[int, str]", 'Literal["a", "b"]', None, "Any"]
NAMES = ["a", "b", "c", "k", "rate", "my_val", "n_items", "seed", "tag", "out_dir", "w", "q", "beta", "mode", "e", "flag"]
KINDS = ["posOnly", "posOrKw", "kwOnly"]

PRELUDE = '''\
import enum, functools
from dataclasses import dataclass
from pathlib import Path
from typing import Any, List, Optional, Tuple, Union
from typing_extensions import Literal
from simple_parsing import field


class Color(enum.Enum):
    RED = "r"
    GREEN = "g"
    BLUE = "b"


@dataclass(frozen=True)
class N:
    x: int = 1
    y: str = "a"


@dataclass
class M:
    u: int = 1


CALLS = []
'''

MAIN_PRELUDE = PRELUDE + '''
from simple_parsing.helpers.partial import config_for


def make_opt(lr: float = 0.1, momentum: float = 0.9):
    return ("opt", lr, momentum)


OptCfg = config_for(make_opt)
'''

# ------------------------------------------------------------------------------------------------
# temp modules


_TMPROOT = None


def _tmproot():
    global _TMPROOT
    if _TMPROOT is None or not os.path.isdir(_TMPROOT) or not _TMPROOT.endswith(f".{os.getpid()}"):
        base = os.environ.get("TMPDIR", "/tmp")
        _TMPROOT = os.path.join(base, f"spverif.c20.{os.getpid()}")
        os.makedirs(_TMPROOT, exist_ok=True)
        atexit.register(shutil.rmtree, _TMPROOT, True)
    return _TMPROOT


_COUNTER = itertools.count()


@contextlib.contextmanager
def temp_module(source: str):
    """Write `source` as a real module file, import it, and remove every trace afterwards."""
    d = tempfile.mkdtemp(prefix="m", dir=_tmproot())
    name = f"spv_c20_{os.getpid()}_{next(_COUNTER)}"
    path = os.path.join(d, name + ".py")
    with open(path, "w") as f:
        f.write(source)
    sys.path.insert(0, d)
    try:
        importlib.invalidate_caches()
        mod = importlib.import_module(name)
        yield mod
    finally:
        sys.modules.pop(name, None)
        with contextlib.suppress(ValueError):
            sys.path.remove(d)
        shutil.rmtree(d, ignore_errors=True)
        with contextlib.suppress(OSError):
            os.rmdir(_tmproot())     # removed when empty (pool workers do not run atexit handlers)


def _cv(v):
    import functools

    if isinstance(v, functools.partial) and not dataclasses.is_dataclass(v):
        # a plain functools.partial object: identified by what it wraps (two evaluations of the same literal are equal)
        return {"t": "partial", "func": getattr(v.func, "__name__", repr(v.func)), "args": [_cv(a) for a in v.args],
                "kw": [[k, _cv(x)] for k, x in sorted(v.keywords.items())]}
    return sp.cv(v)       # config_for/Partial instances are dataclasses: {"t":"inst","cls":…,"v":[fields]}


def cs(v) -> str:
    """canonical string of a Python value (typed tree, see DESIGN Appendix A)"""
    return json.dumps(_cv(v), sort_keys=True, ensure_ascii=False, separators=(",", ":"))


# ------------------------------------------------------------------------------------------------
# signature source


def param_default_src(p, fn_names):
    d = p["dflt"]
    if d is None:
        return None
    if d.startswith("@"):
        return fn_names[p["name"]]
    return d


def sig_source(params, fn_names):
    parts = []
    kinds = [p["kind"] for p in params]
    for i, p in enumerate(params):
        if p["kind"] == "kwOnly" and (i == 0 or kinds[i - 1] != "kwOnly"):
            parts.append("*")
        s = p["name"]
        if p["ty"] is not None:
            s += f": {p['ty']}"
        d = param_default_src(p, fn_names)
        if d is not None:
            s += (" = " if p["ty"] is not None else "=") + d
        parts.append(s)
        if p["kind"] == "posOnly" and (i + 1 == len(params) or kinds[i + 1] != "posOnly"):
            parts.append("/")
    return ", ".join(parts)


def factory_defs(params):
    out, names = [], {}
    for p in params:
        if p["dflt"] is not None and p["dflt"].startswith("@"):
            fn = f"_df_{p['name']}"
            names[p["name"]] = fn
            out.append(f"def {fn}():\n    return {p['dflt'][1:]}\n")
    return "\n".join(out), names


def doc_source(c):
    if not c.get("doc"):
        return ""
    lines = ['"""Run the thing.', "", "A longer description.", "", "Args:"]
    for p in c["params"]:
        if p.get("doc"):
            lines.append(f"    {p['name']}: the {p['name']} value")
    lines.append('"""')
    return textwrap.indent("\n".join(lines), "    ") + "\n"


def help_of(c, p):
    return f"the {p['name']} value" if c.get("doc") and p.get("doc") else ""


def main_module_source(c):
    params = c["params"]
    facs, fn_names = factory_defs(params)
    names = [p["name"] for p in params]
    src = ("from __future__ import annotations\n" if c.get("future") else "") + MAIN_PRELUDE + "\n" + facs + "\n"
    src += f"def target({sig_source(params, fn_names)}):\n{doc_source(c)}"
    src += "    return {" + ", ".join(f'"{n}": {n}' for n in names) + "}\n\n"
    src += ("@functools.wraps(target)\ndef rec(*args, **kwargs):\n    CALLS.append((args, dict(kwargs)))\n"
            "    return target(*args, **kwargs)\n\n")
    # the equivalent hand-written dataclass: parameters without default first (stable), same annotations/defaults
    ordered = [p for p in params if p["dflt"] is None] + [p for p in params if p["dflt"] is not None]
    src += "@dataclass\nclass Plain:\n"
    for p in ordered:
        ann = p["ty"] if p["ty"] is not None else "Any"
        kw = []
        d = param_default_src(p, fn_names)
        if d is not None:
            if p["dflt"] in MUTABLE_DFLTS:      # Python does not allow writing it as `= value` in a dataclass
                kw.append("default_factory=lambda: " + d)
            else:
                kw.append(("default_factory=" if p["dflt"].startswith("@") else "default=") + d)
        if p["kind"] == "posOnly":
            kw.append("positional=True")
        src += f"    {p['name']}: {ann}" + (f" = field({', '.join(kw)})" if kw else "") + "\n"
    if not ordered:
        src += "    pass\n"
    return src


def argv_of(c):
    pos, opts = [], []
    for p in c["params"]:
        g = p.get("given")
        if g is None:
            continue
        if p["ty"] in DC_TYPES:
            opts += g["tok"]
        elif p["kind"] == "posOnly":
            pos += g["tok"]
        else:
            n = p["name"]
            form = g.get("form", "long")
            if form == "neg":
                opts += ["--no" + n]
            elif form == "short" and len(n) == 1:
                opts += ["-" + n] + g["tok"]
            elif form == "eq" and len(g["tok"]) == 1:
                opts += [f"--{n}={g['tok'][0]}"]
            else:
                opts += ["--" + n] + g["tok"]
    extra = c.get("extra", [])
    return (opts + pos if c.get("opts_first") else pos + opts) + extra


def model_param(c, p, mod):
    d, mutable = None, False
    if p["dflt"] is not None:
        if p["dflt"].startswith("@"):
            fn = getattr(mod, f"_df_{p['name']}")
            d = {"k": "func", "fn": cs(fn), "v": cs(fn())}
        else:
            v = eval(p["dflt"], vars(mod))  # noqa: S307 - literal written by the generator
            d = {"k": "value", "v": cs(v), "none": v is None}
            mutable = type(v).__hash__ is None
    return {"name": p["name"], "kind": p["kind"], "ann": TY[p["ty"]]["cls"] if p["ty"] is not None else None,
            "dflt": d, "help": help_of(c, p), "mutable": mutable}


# ------------------------------------------------------------------------------------------------
# generators


def gen_params(rng, n=None, allow_bool=True, types=None, pos_types=None):
    n = n if n is not None else rng.choice([0, 1, 1, 2, 2, 2, 3, 3, 3, 4, 4, 5, 5, 6, 6])
    names = rng.sample(NAMES, n)
    n_po = rng.choice([0, 0, 1, 1, 2, 3])
    n_po = min(n_po, n)
    n_ko = rng.choice([0, 0, 1, 2]) if n - n_po > 0 else 0
    n_ko = min(n_ko, n - n_po)
    n_pk = n - n_po - n_ko
    kinds = ["posOnly"] * n_po + ["posOrKw"] * n_pk + ["kwOnly"] * n_ko
    n_positional = n_po + n_pk
    first_default = rng.randrange(0, n_positional + 1)    # defaults are a suffix of the positional parameters
    types = types or [t for t in TY if t not in DC_TYPES]
    have_dc = set()
    params = []
    for i, (name, kind) in enumerate(zip(names, kinds)):
        if kind == "posOnly":
            ty = rng.choice(pos_types or (SINGLE_TOKEN * 4 + ["Tuple[int, str]", "N", "OptCfg", "Optional[int]", "List[int]", "bool"]))
        else:
            ty = rng.choice(types + [t for t in DC_TYPES if t not in have_dc])
        if ty == "bool" and (not allow_bool or rng.random() < 0.2):
            ty = "int"
        if kind == "posOnly" and ty in TY and TY[ty]["cls"] == "list" and i + 1 < n_po:
            ty = "int"      # a `*` positional followed by further positionals is split by argparse's own rules
        if ty in DC_TYPES:
            if ty in have_dc:
                ty = "str"
            else:
                have_dc.add(ty)
        has_d = (i >= first_default) if i < n_positional else rng.random() < 0.6
        d = rng.choice(TY[ty]["dflt"]) if has_d else None
        if d == "None" and ty in ("int", "bool") and rng.random() < 0.7:
            d = TY[ty]["dflt"][0]
        if d in MUTABLE_DFLTS and rng.random() < 0.75:      # keep the mutable-default finding from drowning everything else
            d = TY[ty]["dflt"][0]
        params.append({"name": name, "kind": kind, "ty": ty, "dflt": d, "doc": rng.random() < 0.6})
    return params


def give(rng, p, bad=False):
    t = TY[p["ty"]]
    if bad and t["bad"]:
        tok = rng.choice(t["bad"])
    else:
        tok = rng.choice(t["tok"])
    g = {"tok": list(tok), "form": "long"}
    if p["ty"] == "bool" and p["dflt"] == "None":
        g = {"tok": [rng.choice(["true", "False"])], "form": "long"}      # `bool = None` is a plain store option: no --no flag
    elif p["ty"] == "bool":
        r = rng.random()
        if p["kind"] != "posOnly" and r < 0.3:
            g = {"tok": [], "form": "neg"}
        elif p["kind"] == "posOnly" and not tok:
            g["tok"] = ["true"]
    elif p["kind"] != "posOnly" and p["ty"] not in DC_TYPES:
        r = rng.random()
        if r < 0.15:
            g["form"] = "short"
        elif r < 0.3:
            g["form"] = "eq"
    return g


def gen_main_case(rng, malformed=False, **kw):
    params = gen_params(rng, **kw)
    c = {"params": params, "future": rng.random() < 0.25, "doc": rng.random() < 0.5, "opts_first": rng.random() < 0.3,
         "extra": [], "other_kw": [], "other_args": [],
         # how the decorator is applied: main(f, args=…), the factory form main(args=…)(f), or main(f) reading sys.argv
         "form": rng.choice(["direct", "direct", "factory", "sysargv"])}
    # positional-only: a prefix is supplied, covering at least the required ones
    po = [p for p in params if p["kind"] == "posOnly" and p["ty"] not in DC_TYPES]
    n_req = sum(1 for p in po if p["dflt"] is None)
    m = rng.randrange(n_req, len(po) + 1) if po else 0
    for i, p in enumerate(po):
        p["given"] = give(rng, p) if i < m else None
    for p in params:
        if p["kind"] == "posOnly" and p["ty"] not in DC_TYPES:
            continue
        if p["ty"] in DC_TYPES:
            p["given"] = give(rng, p) if rng.random() < 0.7 else None
        else:
            p["given"] = give(rng, p) if (p["dflt"] is None or rng.random() < 0.55) else None
    # a variable-length option in front of positional tokens would swallow them (argparse semantics, not ours)
    if c["opts_first"] and any(p.get("given") and p["kind"] != "posOnly" and
                               (TY[p["ty"]]["cls"] in ("list", "dc", "bool", "optional") or p["dflt"] == "None")
                               for p in params) and any(p.get("given") and p["kind"] == "posOnly" for p in params):
        c["opts_first"] = False
    c["malformed"] = None
    if malformed:
        k = rng.choice(["drop", "bad", "unknown", "extrapos"])
        cand = [p for p in params if p.get("given") is not None]
        c["malformed"] = k
        if k == "drop" and cand:
            rng.choice(cand)["given"] = None
        elif k == "bad" and cand:
            p = rng.choice(cand)
            p["given"] = give(rng, p, bad=True)
        elif k == "unknown":
            c["extra"] = ["--zzz", "1"]
        else:
            c["malformed"] = "extrapos"
            c["extra"] = ["stray"]
    r = rng.random()
    kwable = [p for p in params if p["kind"] != "posOnly"]
    if r < 0.08 and kwable:
        c["other_kw"] = [[rng.choice(kwable)["name"], rng.randrange(100, 200)]]
    elif r < 0.11:
        c["other_kw"] = [["not_a_param", 5]]
    elif r < 0.14:
        c["other_args"] = [rng.randrange(100, 200)]
    return c


def gen_bind_case(rng):
    params = gen_params(rng, types=["int"], pos_types=["int"])
    for p in params:
        p["ty"] = "int"
        if p["dflt"] is not None:
            p["dflt"] = str(rng.randrange(1, 50)) if rng.random() < 0.85 else "@7"
        p.pop("doc", None)
    positional = [p for p in params if p["kind"] != "kwOnly"]
    n_args = rng.randrange(0, len(positional) + 1)
    if rng.random() < 0.12:
        n_args = len(positional) + 1
    args = [rng.randrange(1000, 2000) for _ in range(n_args)]
    kw = []
    for i, p in enumerate(params):
        covered = p["kind"] != "kwOnly" and positional.index(p) < n_args
        if covered:
            if rng.random() < 0.08:
                kw.append([p["name"], rng.randrange(2000, 3000)])      # multiple values
        elif p["kind"] == "posOnly":
            if rng.random() < 0.25:
                kw.append([p["name"], rng.randrange(2000, 3000)])      # positional-only by keyword
        elif p["dflt"] is None:
            if rng.random() < 0.9:
                kw.append([p["name"], rng.randrange(2000, 3000)])
        elif rng.random() < 0.5:
            kw.append([p["name"], rng.randrange(2000, 3000)])
    if rng.random() < 0.08:
        kw.append(["nope", 1])
    rng.shuffle(kw)
    return {"params": params, "args": args, "kw": kw}


ACTIONS = ["store", "store_const", "store_true", "store_false", "append", "append_const", "count", "help", "version",
           "parsers", "custom", "extend", "BooleanOptionalAction"]
OPTION_KEYS = ["self", "option_strings", "dest", "nargs", "const", "default", "type", "choices", "required", "help",
               "metavar", "action", "name", "version", "prog", "parser_class", "_conflict_prefix", "negative_prefix",
               "foo", "positional"]


def gen_keep_case(rng):
    keys = rng.sample(OPTION_KEYS, rng.randrange(0, 10))
    return {"keys": keys, "action": rng.choice(ACTIONS)}


# ---- config_for

CFG_TY = {       # parameter types of config_for targets: the CLI type grammar
    "int": {"dflt": ["2", "9", "0"], "toks": [["5"], ["12"]]},
    "float": {"dflt": ["2.5", "0.5"], "toks": [["3.5"], ["1e-3"]]},
    "str": {"dflt": ['"s"', '""', '"two words"'], "toks": [["word"], ["a b"]]},
    "bool": {"dflt": ["True", "False"], "toks": []},
    "Tuple[int, int]": {"dflt": ["(3, 4)"], "toks": [["7", "8"]]},
    "Path": {"dflt": ['Path("d/e")'], "toks": [["some/p"]]},
    "Color": {"dflt": ["Color.RED", "Color.BLUE"], "toks": [["GREEN"], ["RED"]]},
    "List[int]": {"dflt": ["(1, 2)", "[1, 2]"], "toks": [["3", "4"], ["9"]]},
    "Optional[int]": {"dflt": ["None", "3"], "toks": [["7"]]},
    'Literal["a", "b"]': {"dflt": ['"a"'], "toks": [["b"]]},
    "Union[int, str]": {"dflt": ["1", '"u"'], "toks": [["9"], ["zz"]]},
}
CFG_BASIC = ["int", "float", "str", "bool", "Tuple[int, int]"]
CFG_UNANN_DFLT = [("2", "int", "int"), ("9", "int", "int"), ("2.5", "float", "float"), ('"s"', "str", "str"),
                  ("True", "bool", "bool"), ("(3, 4)", {"tuple": ["int", "int"]}, "Tuple[int, int]"),
                  ('(2, "b")', {"tuple": ["int", "str"]}, None), ("None", "other", None), ('Path("p")', "other", None),
                  ("[1, 2]", {"list": ["int", "int"]}, None), ("[]", {"list": []}, None), ("{}", {"dict": True}, None)]


def shape_of_src(src):
    for s, sh, _ in CFG_UNANN_DFLT:
        if s == src:
            return sh
    v = eval(src, {"Path": __import__("pathlib").Path})  # noqa: S307
    return shape_of(v)


def shape_of(v):
    if isinstance(v, bool):
        return "bool"
    if isinstance(v, int):
        return "int"
    if isinstance(v, float):
        return "float"
    if isinstance(v, str):
        return "str"
    if isinstance(v, tuple):
        return {"tuple": [shape_of(x) for x in v]}
    if isinstance(v, list):
        return {"list": [shape_of(x) for x in v]}
    if isinstance(v, dict):
        return {"dict": len(v) == 0}
    return "unhashable" if type(v).__hash__ is None else "other"


def gen_cfg_target(rng, idx=0, e2e=False, mutable_ok=True):
    """a function or class target for config_for"""
    n = rng.choice([0, 1, 1, 2, 2, 3, 3, 3, 4, 4, 5, 5])
    names = rng.sample([x for x in NAMES if x != "flag"], n)
    is_class = rng.random() < 0.4
    n_po = 1 if (n and rng.random() < 0.1) else 0
    n_ko = rng.choice([0, 0, 1, 2])
    n_ko = min(n_ko, n - n_po)
    kinds = ["posOnly"] * n_po + ["posOrKw"] * (n - n_po - n_ko) + ["kwOnly"] * n_ko
    n_positional = n - n_ko
    first_default = rng.randrange(0, n_positional + 1)
    params, class_ann = [], []
    for i, (name, kind) in enumerate(zip(names, kinds)):
        has_d = (i >= first_default) if i < n_positional else rng.random() < 0.6
        r = rng.random()
        if r < 0.55:                                   # annotated
            ty = rng.choice(CFG_BASIC * 2 + list(CFG_TY))
            d = rng.choice(CFG_TY[ty]["dflt"]) if has_d else None
            if d in MUTABLE_DFLTS and (not mutable_ok or rng.random() < 0.6):
                d = CFG_TY[ty]["dflt"][0]
            if d is None and ty.startswith("Optional"):
                ty = "int"      # config_for marks a default-less parameter required=True; a hand-written Optional field is not
            params.append({"name": name, "kind": kind, "ty": ty, "dflt": d, "vty": ty})
        elif r < 0.7 and is_class:                     # class-level annotation only
            ty = rng.choice(["int", "float", "str"])
            d = rng.choice(CFG_TY[ty]["dflt"]) if has_d else None
            params.append({"name": name, "kind": kind, "ty": None, "dflt": d, "vty": ty})
            class_ann.append([name, ty])
        else:                                          # unannotated: type inferred from the default, or skipped
            if has_d:
                cands = CFG_UNANN_DFLT[:6] if e2e else CFG_UNANN_DFLT
                d, _, vty = rng.choice(cands)
                params.append({"name": name, "kind": kind, "ty": None, "dflt": d, "vty": vty})
            else:
                params.append({"name": name, "kind": kind, "ty": None, "dflt": None, "vty": None})
    t = {"name": f"Tgt{idx}" if is_class else f"tgt{idx}", "is_class": is_class, "params": params,
         "class_ann": class_ann}
    t["docs"] = gen_docs(rng, t, allow_malformed=not e2e)
    return t


# descriptions as people write them: second colons (ratios, URLs, "one of: …"), brackets, dashes, percent signs
DESCS = ["the {n} value", "ratio like 1:2", "address, e.g. https://example.org:443", "one of: a, b, c", "plain text",
         "", "100% (approx.) [see notes]", "uses a - dash -- and = equals", "time as HH:MM:SS; default: none",
         "Default: 3. Range: 0..9", "path such as C:/tmp/x"]
CONTS = ["continued on a second line", "note: with a colon", "and a third: line", "(optional)"]
HEADERS = ["Args:", "Args:", "Arguments:", "Parameters:"]


def gen_doc_block(rng, names, malformed=None):
    """one docstring with an Args section (a spec; `doc_text` renders it with the indentation of its position)"""
    entries = []
    documented = [n for n in names if rng.random() < 0.8]
    rng.shuffle(documented) if rng.random() < 0.3 else None
    for n in documented:
        key = n
        r = rng.random()
        if r < 0.2:
            key = f"{n} (int)"
        elif r < 0.27:
            key = f"{n} "
        entries.append({"key": key, "desc": rng.choice(DESCS).format(n=n), "pre": rng.choice([" ", " ", " ", "", "   "]),
                        "trail": rng.choice(["", "", "", "  "]), "cont": [rng.choice(CONTS) for _ in range(rng.choice([0, 0, 0, 1, 2]))],
                        "blank_after": rng.random() < 0.15})
    if rng.random() < 0.3:      # a documented name that is not a parameter
        entries.insert(rng.randrange(len(entries) + 1), {"key": rng.choice(["ghost", "zz_extra", "self"]), "desc": "not in the signature: ignored",
                                                         "pre": " ", "trail": "", "cont": [], "blank_after": False})
    block = {"header": rng.choice(HEADERS), "entries": entries, "intro": rng.choice([None, "Longer text: it has a colon too.", "Usage::"]),
             "returns": rng.random() < 0.5, "malformed": malformed}
    return block


def gen_docs(rng, t, allow_malformed=False):
    """where the target carries docstrings: function docstring, or class docstring and/or __init__ docstring"""
    if rng.random() < 0.35:
        return {"class": None, "init": None}
    names = [p["name"] for p in t["params"]]
    mal = None
    if allow_malformed and rng.random() < 0.06:
        mal = rng.choice(["nocolon", "orphan-cont"])
    if not t["is_class"]:
        return {"class": gen_doc_block(rng, names, mal), "init": None}
    r = rng.random()
    if r < 0.35:
        return {"class": gen_doc_block(rng, names, mal), "init": None}
    if r < 0.75:
        return {"class": None, "init": gen_doc_block(rng, names, mal)}
    return {"class": gen_doc_block(rng, names), "init": gen_doc_block(rng, names, mal)}


def doc_text(block, ind):
    """the raw `__doc__` (first line unindented, the rest at the indentation `ind` of the definition body)"""
    if block is None:
        return None
    pad = " " * ind
    lines = ["A target.", ""]
    if block["intro"]:
        lines += [pad + block["intro"], ""]
    lines.append(pad + block["header"])
    if block.get("malformed") == "orphan-cont":
        lines.append(pad + "        dangling continuation before any entry")
    for e in block["entries"]:
        lines.append(pad + "    " + e["key"] + ":" + e["pre"] + e["desc"] + e["trail"])
        for k, cont in enumerate(e["cont"]):
            lines.append(pad + "        " + ("  " if k else "") + cont)
        if e["blank_after"]:
            lines.append("")
    if block.get("malformed") == "nocolon":
        lines.append(pad + "    an entry line without the separator")
    if block["returns"]:
        lines += ["", pad + "Returns:", pad + "    dict: the arguments it received"]
    lines.append(pad)
    return "\n".join(lines)


def documented_help(block, name):
    """descriptions (whitespace-normalised) the docstring gives for the parameter `name` itself: entries whose key is the
    name, optionally followed by a type in parentheses (`name (int)`)"""
    if block is None:
        return []
    out = []
    for e in block["entries"]:
        if e["key"].split()[:1] == [name]:
            out.append(" ".join((e["desc"] + " " + " ".join(e["cont"])).split()))
    return out


def docs_malformed(t):
    d = t.get("docs") or {}
    return any(b is not None and b.get("malformed") for b in (d.get("class"), d.get("init")))


def cfg_target_source(t):
    params = t["params"]
    sig = sig_source(params, {})
    names = [p["name"] for p in params]
    body = "CALLS.append((args, dict(kwargs)))"
    ret = "{" + ", ".join(f'"{n}": {n}' for n in names) + "}"
    docs = t.get("docs") or {"class": None, "init": None}
    if t["is_class"]:
        cdoc, idoc = doc_text(docs["class"], 4), doc_text(docs["init"], 8)
        src = f"class {t['name']}:\n"
        if cdoc is not None:
            src += f"    {cdoc!r}\n"
        for n, ty in t["class_ann"]:
            src += f"    {n}: {ty}\n"
        src += f"    def _real_init(self, {sig}):\n" + (f"        {idoc!r}\n" if idoc is not None else "") + f"        self.bound = {ret}\n\n"
        src += (f"    @functools.wraps(_real_init)\n    def __init__(self, *args, **kwargs):\n        {body}\n"
                f"        self._real_init(*args, **kwargs)\n\n")
        return src
    fdoc = doc_text(docs["class"], 4)
    src = f"def {t['name']}_impl({sig}):\n" + (f"    {fdoc!r}\n" if fdoc is not None else "") + f"    return {ret}\n\n"
    src += (f"@functools.wraps({t['name']}_impl)\ndef {t['name']}(*args, **kwargs):\n    {body}\n"
            f"    return {t['name']}_impl(*args, **kwargs)\n\n")
    return src


def gen_ignore(rng, names):
    r = rng.random()
    k = rng.choice([0, 1, 1, 2])
    chosen = rng.sample(names, min(k, len(names)))
    if rng.random() < 0.1:
        chosen = chosen + ["not_there"]
    if r < 0.3:
        return {"form": "absent"}
    if r < 0.5 and len(chosen) >= 1:
        return {"form": "str", "s": chosen[0]}
    if r < 0.85:
        return {"form": "tuple", "names": chosen}
    return {"form": "list", "names": chosen}


def ignore_names(ig):
    if ig["form"] == "absent":
        return []
    if ig["form"] == "str":
        return [ig["s"]]
    return list(ig["names"])


def ignore_src(ig):
    if ig["form"] == "absent":
        return ""
    if ig["form"] == "str":
        return f"ignore_args={ig['s']!r}"
    if ig["form"] == "tuple":
        return f"ignore_args={tuple(ig['names'])!r}"
    return f"ignore_args={list(ig['names'])!r}"


def gen_overrides(rng, t, e2e=False):
    out = []
    for p in t["params"]:
        if e2e and p["vty"] is None:
            continue        # an override would turn an untyped parameter into an inferred field
        if rng.random() < 0.2:
            vty = p["vty"] or rng.choice(["int", "str"])
            if vty in CFG_TY:
                cands = [d for d in CFG_TY[vty]["dflt"] if d != p["dflt"]] or CFG_TY[vty]["dflt"]
                out.append([p["name"], rng.choice(cands)])
    if rng.random() < 0.05:
        out.append(["not_a_param", "3"])
    return out


def gen_config_case(rng, e2e=False):
    t = gen_cfg_target(rng, e2e=e2e)
    names = [p["name"] for p in t["params"]]
    return {"target": t, "ignore": gen_ignore(rng, names), "overrides": gen_overrides(rng, t, e2e=e2e),
            "frozen": rng.choice([None, None, True, False])}


def gen_partial_case(rng, malformed=False):
    c = gen_config_case(rng, e2e=True)
    t = c["target"]
    ign = set(ignore_names(c["ignore"]))
    ov = dict(c["overrides"])
    given, call_kw, call_args = [], [], []
    for i, p in enumerate(t["params"]):
        name = p["name"]
        is_field = name not in ign and (p["ty"] is not None or p["vty"] is not None)
        eff_default = ov.get(name, p["dflt"])
        if is_field:
            vty = p["vty"]
            if vty == "bool":
                if rng.random() < 0.5:
                    given.append([name, rng.choice(["pos", "neg"]), []])
            elif vty in CFG_TY:
                if eff_default is None or rng.random() < 0.5:
                    given.append([name, "long", list(rng.choice(CFG_TY[vty]["toks"]))])
            if rng.random() < 0.15 and p["kind"] != "posOnly":
                call_kw.append([name, rng.randrange(500, 600)])          # explicit kwarg overrides the field
        else:
            # not an option: must come from the call (or the callee's own default)
            if p["dflt"] is None or rng.random() < 0.4:
                if i == 0 and p["kind"] != "kwOnly" and (p["kind"] == "posOnly" or rng.random() < 0.3):
                    call_args.append(rng.randrange(700, 800))
                else:
                    call_kw.append([name, rng.randrange(500, 600)])
    extra = []
    vtys = {p["name"]: p["vty"] for p in t["params"]}
    if malformed:
        k = rng.choice(["drop", "unknown", "bad"])
        if k == "drop" and given:
            given.pop(rng.randrange(len(given)))
        elif k == "bad" and any(g[1] == "long" and vtys[g[0]] in ("int", "float") for g in given):
            g = rng.choice([g for g in given if g[1] == "long" and vtys[g[0]] in ("int", "float")])
            g[2] = ["@@"]
        else:
            extra = ["--zzz", "1"]
    c.update({"given": given, "extra": extra, "call_kw": call_kw, "call_args": call_args})
    return c


MARKS = {"int": ["11", "22", "33", "44"], "float": ["1.5", "2.5", "3.5", "4.5"], "str": ["wa", "wb", "wc", "wd"]}


def gen_multipos_params(rng):
    """2-4 positional-only parameters WITHOUT defaults (all of one type with distinct marker values, or of distinct
    types — a swap shows as a wrong value or as a conversion error inside the target), then 0-2 defaulted positional-only
    ones, then 0-2 ordinary parameters"""
    k = rng.choice([2, 2, 3, 4])
    same = rng.random() < 0.5
    tys = [rng.choice(["int", "float", "str"])] * k if same else [["int", "str", "float", "int"][i] for i in range(k)]
    names = rng.sample([x for x in NAMES if x != "flag"], k + 4)
    params = [{"name": names[i], "kind": "posOnly", "ty": tys[i], "dflt": None, "vty": tys[i]} for i in range(k)]
    for j in range(rng.choice([0, 0, 1, 2])):
        ty = rng.choice(["int", "str"])
        params.append({"name": names[k + j], "kind": "posOnly", "ty": ty, "dflt": rng.choice(CFG_TY[ty]["dflt"]), "vty": ty})
    for j in range(rng.choice([0, 1, 2])):
        ty = rng.choice(["int", "float", "str", "bool"])
        params.append({"name": names[k + 2 + j], "kind": rng.choice(["posOrKw", "kwOnly"]) if j == 0 else "kwOnly", "ty": ty,
                       "dflt": rng.choice(CFG_TY[ty]["dflt"]), "vty": ty})
    # posOrKw may not follow kwOnly; defaults are a suffix: both hold by construction
    return params, k


def gen_partial_multipos_case(rng):
    """config_for / Partial target with several positional-only parameters: every required one gets its marker on the
    command line; optionally the first m are ignored and passed as extra *args at call time"""
    params, k = gen_multipos_params(rng)
    t = {"name": "Tgt0" if rng.random() < 0.4 else "tgt0", "params": params, "class_ann": []}
    t["is_class"] = t["name"] == "Tgt0"
    t["docs"] = {"class": None, "init": None}
    m = rng.choice([0, 0, 1, 2]) if k > 2 else rng.choice([0, 0, 1])
    ignored = [p["name"] for p in params[:m]]
    given, call_args = [], []
    for i, p in enumerate(params):
        if i < m:
            call_args.append(900 + i)
        elif p["dflt"] is None or rng.random() < 0.5:
            if p["vty"] == "bool":
                given.append([p["name"], rng.choice(["pos", "neg"]), []])
            else:
                given.append([p["name"], "long", [MARKS[p["vty"]][i % 4]]])
    return {"target": t, "ignore": {"form": "tuple", "names": ignored} if ignored else {"form": "absent"}, "overrides": [],
            "frozen": rng.choice([None, True]), "given": given, "extra": [], "call_kw": [], "call_args": call_args}


def gen_main_multipos_case(rng):
    """@main with 2-4 positional-only parameters without defaults carrying distinct markers"""
    cparams, k = gen_multipos_params(rng)
    params = []
    n_po_given = rng.randrange(k, sum(1 for p in cparams if p["kind"] == "posOnly") + 1)
    for i, p in enumerate(cparams):
        q = {"name": p["name"], "kind": p["kind"], "ty": p["ty"], "dflt": p["dflt"], "doc": False, "given": None}
        if p["kind"] == "posOnly":
            if i < n_po_given:
                q["given"] = {"tok": [MARKS[p["ty"]][i % 4]], "form": "long"}
        elif rng.random() < 0.5:
            q["given"] = {"tok": [], "form": "long"} if p["ty"] == "bool" else {"tok": [MARKS[p["ty"]][i % 4]], "form": "long"}
        params.append(q)
    return {"params": params, "future": rng.random() < 0.2, "doc": False, "opts_first": False, "extra": [], "other_kw": [],
            "other_args": [], "form": rng.choice(["direct", "factory", "sysargv"]), "malformed": None}


def gen_cache_case(rng):
    targets = [gen_cfg_target(rng, idx=i, e2e=True, mutable_ok=False) for i in range(rng.choice([1, 2, 3]))]
    forms = []
    for ti, t in enumerate(targets):
        names = [p["name"] for p in t["params"]]
        for _ in range(rng.choice([1, 2, 3])):
            ov = gen_overrides(rng, t, e2e=True) if rng.random() < 0.4 else []
            ov = [o for o in ov if o[0] != "not_a_param" and o[1] not in MUTABLE_DFLTS]
            if len(ov) > 1 and rng.random() < 0.5:
                ov = ov[::-1]
            forms.append({"target": ti, "ignore": gen_ignore(rng, names), "frozen": rng.choice([None, None, True, False]),
                          "overrides": ov, "unhashable_default": False})
    for ti, t in enumerate(targets):
        # the other front-end named in the property: `Partial[f]` (= config_for(f) written without arguments)
        if rng.random() < 0.5:
            forms.append({"target": ti, "ignore": {"form": "absent"}, "frozen": None, "overrides": [], "unhashable_default": False,
                          "via": "Partial"})
            forms.append({"target": ti, "ignore": {"form": "absent"}, "frozen": None, "overrides": [], "unhashable_default": False})
        # `**defaults` values that are equal but of different types (1 == 1.0 == True)
        nums = [p for p in t["params"] if p["ty"] in ("int", "float", "bool")]
        if nums and rng.random() < 0.35:
            p = rng.choice(nums)
            for lit in rng.sample(["1", "1.0", "True"], rng.choice([2, 3])):
                forms.append({"target": ti, "ignore": {"form": "absent"}, "frozen": None, "overrides": [[p["name"], lit]],
                              "unhashable_default": False})
    calls = [dict(rng.choice(forms)) for _ in range(rng.randrange(2, 9))]
    if rng.random() < 0.15 and targets[calls[0]["target"]]["params"]:
        # an unhashable **defaults value: never cached
        i = 0
        t = targets[calls[i]["target"]]
        calls[i] = dict(calls[i], overrides=[[t["params"][0]["name"], "[1, 2]"]], unhashable_default=True,
                        ignore={"form": "tuple", "names": [t["params"][0]["name"]]}, via=None)
    return {"targets": targets, "calls": calls}


DOC_LITERALS = ["", "Args:", "No section at all: just text.", "Args:\n  x: indented by two only", "Args:\n\tx: a tab",
                "Args:\n    x: first\nArgs:\n    y: after a second header", "  Args:\n      x: one\n      x: twice\n    y: dedented",
                "Args:\n    x: a\n        more\n          even more: deep\n    y (int):b:c:d\n", "Parameters: inline text\n    p: q",
                "Args:\n    : empty key\n    k:\n        only continuation", "Args:\n        too deep first\n    x: y",
                "Args:\n    x: y\n    no separator here\n    z: w", "Arguments:\n    url: http://h:80/p?q=1:2 \n    \n    n:  3  "]


def gen_docargs_case(rng):
    names = rng.sample(NAMES, rng.choice([1, 2, 3, 4]))
    mal = rng.choice([None, None, None, None, "nocolon", "orphan-cont"])
    block = gen_doc_block(rng, names, mal)
    ind = rng.choice([0, 4, 8])
    return {"doc": doc_text(block, ind), "block": block, "ind": ind}


CACHE_KS = [1, 50, 130, 300]


def gen_cachemany_case(rng, k):
    def parses(c):      # every required option is on the command line
        ign, ov, given = set(ignore_names(c["ignore"])), dict(c["overrides"]), {g[0] for g in c["given"]}
        if any(ov.get(p["name"], p["dflt"]) in MUTABLE_DFLTS for p in c["target"]["params"]):
            return False
        return all(p["name"] in given for p in c["target"]["params"]
                   if p["name"] not in ign and p["vty"] is not None and ov.get(p["name"], p["dflt"]) is None)

    c = gen_partial_case(rng)
    for _ in range(30):
        if parses(c):
            break
        c = gen_partial_case(rng)
    if c["ignore"]["form"] == "list":
        c["ignore"] = {"form": "tuple", "names": list(c["ignore"]["names"])}
    c["k"] = k
    return c


SHAPE_VALUES = ["3", "2.5", '"s"', "True", "None", "()", "(1,)", '(1, "a", 2.5)', "((1, 2), 3)", "(None,)", "[]", "[1, 2]",
                '["a"]', "[None]", "[[1]]", "[(1, 2)]", "{}", '{"a": 1}', "(1, [2])", "([],)", "({},)", '({"a": 1},)',
                "b'x'", "(1, (2, (3, None)))", "[{}]", "[[]]"]


def gen(rng, tier):
    q = tier == "quick"
    # unit: only_keep_action_args
    for a in ACTIONS:
        yield {"op": "call.keep", "case": {"keys": list(OPTION_KEYS), "action": a}}
    for _ in range(150 if q else 500):
        yield {"op": "call.keep", "case": gen_keep_case(rng)}
    # unit: inference
    for s in SHAPE_VALUES:
        yield {"op": "call.infer", "case": {"src": s}}
    # unit: binding
    for _ in range(250 if q else 1500):
        yield {"op": "call.bind", "case": gen_bind_case(rng)}
    # main: one-parameter sweep over every type x kind x default (fields + end-to-end)
    for ty in TY:
        for kind in KINDS:
            for d in [None] + TY[ty]["dflt"]:
                p = {"name": "flag" if ty == "bool" else "v", "kind": kind, "ty": ty, "dflt": d, "doc": True}
                base = {"params": [p], "future": False, "doc": ty in ("int", "bool"), "opts_first": False, "extra": [],
                        "other_kw": [], "other_args": []}
                yield {"op": "call.fields", "case": json.loads(json.dumps(base))}
                gs = [None] if d is not None else []
                gs += [{"tok": list(t), "form": "long"} for t in TY[ty]["tok"][:2]]
                for g in gs:
                    cc = json.loads(json.dumps(base))
                    if g is not None and ty == "bool" and kind == "posOnly" and not g["tok"]:
                        g = {"tok": ["true"], "form": "long"}
                    cc["params"][0]["given"] = g
                    yield {"op": "call.main", "case": cc}
    n_main = 260 if q else 2500
    for i in range(n_main):
        r = rng.random()
        c = gen_main_case(rng, malformed=r < 0.15, allow_bool=r > 0.2)
        yield {"op": "call.main", "case": c}
        if i % 3 == 0:
            yield {"op": "call.fields", "case": {k: v for k, v in c.items()}}
    # config_for
    for _ in range(150 if q else 1200):
        yield {"op": "call.config", "case": gen_config_case(rng)}
    for _ in range(150 if q else 1200):
        yield {"op": "call.partial", "case": gen_partial_case(rng, malformed=rng.random() < 0.12)}
    # several positional-only parameters (order!): Partial with / without extra *args, and @main
    for _ in range(40 if q else 250):
        yield {"op": "call.partial", "case": gen_partial_multipos_case(rng)}
    for _ in range(25 if q else 150):
        yield {"op": "call.main", "case": gen_main_multipos_case(rng)}
    for _ in range(80 if q else 500):
        yield {"op": "call.cache", "case": gen_cache_case(rng)}
    # the same callable requested again after k OTHER callables had their config classes derived
    for k in CACHE_KS:
        for _ in range(2):
            yield {"op": "call.cachemany", "case": gen_cachemany_case(rng, k)}
    # unit: the docstring Args-section reader
    for d in DOC_LITERALS:
        yield {"op": "call.docargs", "case": {"doc": d, "block": None, "ind": 0}}
    for _ in range(120 if q else 500):
        yield {"op": "call.docargs", "case": gen_docargs_case(rng)}


# ------------------------------------------------------------------------------------------------
# real code


def _outcome(r):
    """strip run_outcome's result to JSON"""
    if r["o"] == "ok":
        return {"o": "ok"}
    if r["o"] == "exit":
        return {"o": "exit", "code": r["code"], "kind": r.get("kind")}
    return {"o": "raise", "exc": r["exc"], "msg": r.get("msg", "")}


def impl_keep(c):
    from simple_parsing.helpers.custom_actions import BooleanOptionalAction
    from simple_parsing.wrappers.field_wrapper import only_keep_action_args

    class Custom:  # any class that is not one of the stock names
        pass

    action = {"custom": Custom, "BooleanOptionalAction": BooleanOptionalAction}.get(c["action"], c["action"])
    options = {k: i for i, k in enumerate(c["keys"])}
    kept = only_keep_action_args(dict(options), action)
    return {"kept": sorted(kept.keys()), "values_untouched": all(options[k] == v for k, v in kept.items())}


def impl_infer(c):
    from simple_parsing.helpers.partial import infer_type_annotation_from_default

    v = eval(c["src"], {})  # noqa: S307
    try:
        infer_type_annotation_from_default(v)
        ok = True
    except NotImplementedError:
        ok = False
    return {"ok": ok, "shape": shape_of(v)}


def impl_bind(c):
    params = c["params"]
    facs, fn_names = factory_defs(params)
    names = [p["name"] for p in params]
    src = facs + f"\ndef target({sig_source(params, fn_names)}):\n    return [" + ", ".join(f'("{n}", {n})' for n in names) + "]\n"
    ns: dict = {}
    exec(src, ns)  # noqa: S102 - generated signature
    sig = []
    for p in params:
        d = None
        if p["dflt"] is not None:
            if p["dflt"].startswith("@"):
                fn = ns[f"_df_{p['name']}"]
                d = {"k": "func", "fn": cs(fn), "v": cs(fn())}
            else:
                v = eval(p["dflt"], ns)  # noqa: S307
                d = {"k": "value", "v": cs(v), "none": v is None}
        sig.append({"name": p["name"], "kind": p["kind"], "ann": "plain", "dflt": d, "help": ""})
    try:
        bound = ns["target"](*c["args"], **dict(c["kw"]))
        out = {"o": "ok", "bound": [[n, cs(v)] for n, v in bound]}
    except TypeError:
        out = {"o": "TypeError"}
    return {"out": out, "sig": sig}


def _fields_obs(cls):
    from simple_parsing.wrappers.dataclass_wrapper import DataclassWrapper

    w = DataclassWrapper(cls, "args")
    by_name = {fw.name: fw for fw in w.fields}
    out = []
    for f in dataclasses.fields(cls):
        custom = f.metadata.get("custom_args", {})
        if f.default is not dataclasses.MISSING:
            dk = "value"
        elif f.default_factory is not dataclasses.MISSING:
            dk = "factory"
        else:
            dk = "missing"
        fw = by_name.get(f.name)
        out.append({"name": f.name, "positional": bool(f.metadata.get("positional", False)), "dflt": dk,
                    "custom": sorted(custom.keys()), "help": custom.get("help", "") or "",
                    "keys": sorted(fw.arg_options.keys()) if fw is not None else None})
    return out


def _capture_main_class(mod):
    """the dataclass `main` synthesises, observed by standing in for `parsing.parse` (harness-side only)"""
    from simple_parsing import decorators, parsing

    captured = []

    class _Stop(BaseException):
        pass

    def fake(config_class, **kw):
        captured.append(config_class)
        raise _Stop

    orig = parsing.parse
    parsing.parse = fake
    try:
        try:
            decorators.main(mod.rec, args=[])()
        except _Stop:
            pass
    finally:
        parsing.parse = orig
    return captured[0] if captured else None


def _setup_outcome(cls):
    def setup():
        sp.reset_globals()
        parser = sp.make_parser({}, add_config_path_arg=False)
        parser.add_arguments(cls, dest="args")
        parser._preprocessing(args=[])
        return None

    r = sp.run_outcome(setup)
    return {"o": "ok"} if r["o"] == "ok" else {"o": "raise", "exc": r.get("exc", r["o"]), "msg": r.get("msg", "")}


def impl_fields(c):
    def observe(get_cls):
        # every step runs code under test (signature -> class, wrapper construction, default factories)
        r = sp.run_outcome(lambda: (lambda cls: None if cls is None else (_fields_obs(cls), cls))(get_cls()))
        if r["o"] != "ok" or r["value"] is None:
            return {"o": "raise", "exc": r.get("exc"), "msg": r.get("msg", "")}
        fields, cls = r["value"]
        return {"fields": fields, "setup": _setup_outcome(cls)}

    with temp_module(main_module_source(c)) as mod:
        sig = [model_param(c, p, mod) for p in c["params"]]
        return {"sig": sig, "main": observe(lambda: _capture_main_class(mod)), "plain": observe(lambda: mod.Plain)}


def _plain_values(c, inst):
    return [[p["name"], cs(getattr(inst, p["name"]))] for p in c["params"]]


def impl_main(c):
    import simple_parsing
    from simple_parsing import decorators

    argv = argv_of(c)
    with temp_module(main_module_source(c)) as mod:
        sig = [model_param(c, p, mod) for p in c["params"]]
        # (1) the equivalent hand-written dataclass, parsed directly; then a direct call with those values
        sp.reset_globals()
        pr = sp.run_outcome(lambda: simple_parsing.parse(mod.Plain, dest="args", args=list(argv), add_config_path_arg=False))
        plain = _outcome(pr)
        expected = None
        if pr["o"] == "ok":
            inst = pr["value"]
            plain["vals"] = _plain_values(c, inst)
            pos = [getattr(inst, p["name"]) for p in c["params"] if p["kind"] == "posOnly"]
            kws = {p["name"]: getattr(inst, p["name"]) for p in c["params"] if p["kind"] != "posOnly"}
            expected = [[n, cs(v)] for n, v in mod.target(*pos, **kws).items()]
        # (2) the front-end
        sp.reset_globals()
        mod.CALLS.clear()
        form = c.get("form", "direct")
        if form == "factory":
            wrapped = decorators.main(args=list(argv))(mod.rec)
        elif form == "sysargv":
            wrapped = decorators.main(mod.rec)
        else:
            wrapped = decorators.main(mod.rec, args=list(argv))
        saved_argv = sys.argv
        try:
            if form == "sysargv":
                sys.argv = ["prog"] + list(argv)
            mr = sp.run_outcome(lambda: wrapped(*c.get("other_args", []), **dict(c.get("other_kw", []))))
        finally:
            sys.argv = saved_argv
        m = _outcome(mr)
        m["n_calls"] = len(mod.CALLS)
        if mod.CALLS:
            a, k = mod.CALLS[-1]
            m["args"] = [cs(v) for v in a]
            m["kwargs"] = sorted([n, cs(v)] for n, v in k.items())
        if mr["o"] == "ok":
            m["bound"] = [[n, cs(v)] for n, v in mr["value"].items()]
        # the signature's own defaults, read from the callable (independent of the Plain class)
        sig_defaults = {}
        for n, prm in inspect.signature(mod.target).parameters.items():
            if prm.default is not inspect.Parameter.empty:
                sig_defaults[n] = cs(prm.default() if inspect.isfunction(prm.default) else prm.default)
        return {"sig": sig, "argv": argv, "plain": plain, "expected": expected, "main": m, "sig_defaults": sig_defaults}


def _cfg_module_source(targets):
    return PRELUDE + "\n" + "\n".join(cfg_target_source(t) for t in targets)


def _config_for_src(tname, ignore, overrides, frozen):
    parts = [tname]
    if ignore_src(ignore):
        parts.append(ignore_src(ignore))
    if frozen is not None:
        parts.append(f"frozen={frozen}")
    parts += [f"{k}={v}" for k, v in overrides]
    return "config_for(" + ", ".join(parts) + ")"


def _cfg_sig(t, mod):
    out = []
    for p in t["params"]:
        d = None
        if p["dflt"] is not None:
            v = eval(p["dflt"], vars(mod))  # noqa: S307
            d = {"v": cs(v), "shape": shape_of(v)}
        out.append({"name": p["name"], "annotated": p["ty"] is not None, "dflt": d})
    return out


def _cfg_fields(cls):
    out = []
    for f in dataclasses.fields(cls):
        req = f.default is dataclasses.MISSING and f.default_factory is dataclasses.MISSING
        dv = f.default if f.default is not dataclasses.MISSING else (None if req else f.default_factory())
        out.append({"name": f.name, "required": req, "default": None if req else cs(dv),
                    "help": f.metadata.get("custom_args", {}).get("help")})
    return out


def _doc_entries(doc):
    """what the real `_parse_args_from_docstring` reads from a docstring (used to tell when the help is ambiguous)"""
    from simple_parsing.helpers.partial import _parse_args_from_docstring

    try:
        return {"o": "ok", "entries": [[k, v] for k, v in _parse_args_from_docstring(doc or "").items()]}
    except (ValueError, KeyError) as e:
        return {"o": "raise", "exc": type(e).__name__}


def _target_docs(target):
    cd = target.__doc__
    idoc = target.__init__.__doc__ if inspect.isclass(target) else None
    return {"class_doc": cd, "init_doc": idoc, "class_entries": _doc_entries(cd),
            "init_entries": _doc_entries(idoc) if inspect.isclass(target) else {"o": "ok", "entries": []}}


def _options_per_field(cls):
    """for each field of the derived class: number of parser actions writing to it"""
    sp.reset_globals()
    parser = sp.make_parser({}, add_config_path_arg=False)
    parser.add_arguments(cls, dest="cfg")
    parser._preprocessing(args=[])
    counts = {}
    for a in parser._actions:
        if a.dest.startswith("cfg."):
            counts[a.dest[4:]] = counts.get(a.dest[4:], 0) + 1
            counts["help:" + a.dest[4:]] = a.help
    return counts


def impl_config(c):
    from simple_parsing.helpers.partial import config_for

    t = c["target"]
    with temp_module(_cfg_module_source([t])) as mod:
        env = dict(vars(mod), config_for=config_for)
        sig = _cfg_sig(t, mod)
        ov = []
        for k, v in c["overrides"]:
            val = eval(v, vars(mod))  # noqa: S307
            ov.append([k, {"v": cs(val), "shape": shape_of(val)}])
        src = _config_for_src(t["name"], c["ignore"], c["overrides"], c["frozen"])
        r = sp.run_outcome(lambda: eval(src, env))  # noqa: S307
        obs = {"sig": sig, "overrides": ov, "call": src, "docs": _target_docs(getattr(mod, t["name"]))}
        if r["o"] != "ok":
            obs["out"] = {"o": "raise", "exc": r.get("exc"), "msg": r.get("msg", "")}
            return obs
        cls = r["value"]
        obs["out"] = {"o": "ok", "fields": _cfg_fields(cls)}
        obs["target_ok"] = cls._target_ is getattr(mod, t["name"])
        oc = sp.run_outcome(lambda: _options_per_field(cls))
        obs["options"] = oc["value"] if oc["o"] == "ok" else {"error": oc.get("exc")}
        obs["again_same"] = None
        if c["ignore"]["form"] != "list" and not any(v in MUTABLE_DFLTS for _, v in c["overrides"]):
            obs["again_same"] = eval(src, env) is cls  # noqa: S307
        return obs


def _partial_argv(c):
    argv = []
    for name, form, tok in c["given"]:
        if form == "neg":
            argv.append("--no" + name)
        elif form == "pos":
            argv.append("--" + name)
        else:
            argv += ["--" + name] + list(tok)
    return argv + list(c.get("extra", []))


def _bound_of(result):
    b = result if isinstance(result, dict) else getattr(result, "bound", None)
    return [[n, cs(v)] for n, v in b.items()] if isinstance(b, dict) else None


def _plain_default_src(d):
    if d is None:
        return ""
    return f" = field(default_factory=lambda: {d})" if d in MUTABLE_DFLTS else f" = {d}"


def _direct_call(target, params, call_args, vals, call_kw):
    """the direct call with the same values: a parsed value of a positional-only parameter goes positionally (as Python
    requires); what the caller wrote explicitly stays as written"""
    args, kw = list(call_args), {**vals, **call_kw}
    for i, p in enumerate(params):
        if p["kind"] == "posOnly" and i == len(args) and p["name"] in vals and p["name"] not in call_kw:
            args.append(kw.pop(p["name"]))
    return target(*args, **kw)


def impl_partial(c):
    import simple_parsing
    from simple_parsing.helpers.partial import config_for

    t = c["target"]
    ign = set(ignore_names(c["ignore"]))
    ov = dict(c["overrides"])
    # the equivalent hand-written dataclass: one field per non-ignored, typed parameter, signature default
    flds = [p for p in t["params"] if p["name"] not in ign and p["vty"] is not None]
    ordered = [p for p in flds if ov.get(p["name"], p["dflt"]) is None] + \
              [p for p in flds if ov.get(p["name"], p["dflt"]) is not None]
    plain_src = "@dataclass\nclass Plain:\n" + "".join(
        f"    {p['name']}: {p['vty']}" + _plain_default_src(ov.get(p["name"], p["dflt"]))
        + "\n" for p in ordered) + ("    pass\n" if not ordered else "")
    argv = _partial_argv(c)
    with temp_module(_cfg_module_source([t]) + "\n" + plain_src) as mod:
        env = dict(vars(mod), config_for=config_for)
        sig = []
        for p in t["params"]:
            d = None
            if p["dflt"] is not None:
                v = eval(p["dflt"], vars(mod))  # noqa: S307
                d = {"k": "value", "v": cs(v), "none": v is None}
            sig.append({"name": p["name"], "kind": p["kind"], "ann": "plain", "dflt": d, "help": ""})
        obs = {"sig": sig, "argv": argv}
        sp.reset_globals()
        pr = sp.run_outcome(lambda: simple_parsing.parse(mod.Plain, dest="cfg", args=list(argv), add_config_path_arg=False))
        plain = _outcome(pr)
        call_args, call_kw = list(c["call_args"]), dict(c["call_kw"])
        target = getattr(mod, t["name"])
        if pr["o"] == "ok":
            inst = pr["value"]
            vals = {p["name"]: getattr(inst, p["name"]) for p in ordered}
            plain["vals"] = [[k, cs(v)] for k, v in vals.items()]
            er = sp.run_outcome(lambda: _direct_call(target, t["params"], call_args, vals, call_kw))
            obs["expected"] = _bound_of(er["value"]) if er["o"] == "ok" else {"raise": er.get("exc")}
        obs["plain"] = plain
        src = _config_for_src(t["name"], c["ignore"], c["overrides"], c["frozen"])
        r = sp.run_outcome(lambda: eval(src, env))  # noqa: S307
        if r["o"] != "ok":
            obs["front"] = {"o": "raise", "exc": r.get("exc"), "stage": "config_for", "msg": r.get("msg", "")}
            return obs
        cls = r["value"]
        sp.reset_globals()
        qr = sp.run_outcome(lambda: simple_parsing.parse(cls, dest="cfg", args=list(argv), add_config_path_arg=False))
        if qr["o"] != "ok":
            obs["front"] = dict(_outcome(qr), stage="parse")
            return obs
        part = qr["value"]
        mod.CALLS.clear()
        cr = sp.run_outcome(lambda: part(*call_args, **call_kw))
        f = dict(_outcome(cr), stage="call", n_calls=len(mod.CALLS))
        if mod.CALLS:
            a, k = mod.CALLS[-1]
            f["args"] = [cs(v) for v in a]
            f["kwargs"] = sorted([n, cs(v)] for n, v in k.items())
        if cr["o"] == "ok":
            f["bound"] = _bound_of(cr["value"])
        obs["front"] = f
        return obs


def impl_cache(c):
    from simple_parsing.helpers.partial import config_for

    with temp_module(_cfg_module_source(c["targets"])) as mod:
        from simple_parsing.helpers.partial import Partial

        env = dict(vars(mod), config_for=config_for, Partial=Partial)
        objs, ids, fields, defaults, expected_defaults = [], [], [], [], []
        for call in c["calls"]:
            t = c["targets"][call["target"]]
            src = _config_for_src(t["name"], call["ignore"], call["overrides"], call["frozen"])
            if call.get("via") == "Partial":
                src = f"Partial[{t['name']}]"
            expected_defaults.append({k: cs(eval(v, vars(mod))) for k, v in call["overrides"]})  # noqa: S307
            r = sp.run_outcome(lambda: eval(src, env))  # noqa: S307
            if r["o"] != "ok":
                # an unhashable default that also is a mutable dataclass default: the call itself fails
                ids.append({"raise": r.get("exc")})
                fields.append(None)
                defaults.append(None)
                continue
            cls = r["value"]
            for i, o in enumerate(objs):
                if o is cls:
                    ids.append(i)
                    break
            else:
                objs.append(cls)
                ids.append(len(objs) - 1)
            fields.append([f.name for f in dataclasses.fields(cls)])
            defaults.append({f.name: cs(f.default) for f in dataclasses.fields(cls) if f.name in dict(call["overrides"])})
        return {"ids": ids, "fields": fields, "defaults": defaults, "expected_defaults": expected_defaults}


def impl_docargs(c):
    return {"out": _doc_entries(c["doc"])}


OTHERS_SRC = '''

def _mk_other(i):
    def other(a: int = 1, b: str = "x"):
        return (i, a, b)
    return other


OTHERS = [_mk_other(i) for i in range(%d)]
'''


def impl_cachemany(c):
    import simple_parsing
    from simple_parsing.helpers.partial import config_for

    t = c["target"]
    argv = _partial_argv(c)
    with temp_module(_cfg_module_source([t]) + OTHERS_SRC % c["k"]) as mod:
        env = dict(vars(mod), config_for=config_for)
        src = _config_for_src(t["name"], c["ignore"], c["overrides"], c["frozen"])

        def request():
            r = sp.run_outcome(lambda: eval(src, env))  # noqa: S307
            if r["o"] != "ok":
                return None, None, {"o": "raise", "exc": r.get("exc"), "msg": r.get("msg", "")}
            sp.reset_globals()
            pr = sp.run_outcome(lambda: simple_parsing.parse(r["value"], dest="cfg", args=list(argv), add_config_path_arg=False))
            return r["value"], (pr["value"] if pr["o"] == "ok" else None), _outcome(pr)

        c1, o1, out1 = request()
        if c1 is None:
            return {"argv": argv, "first": out1, "ids": []}
        seen = {id(c1): 0}
        keep = [c1]
        ids = [0]
        for f in mod.OTHERS:
            r = sp.run_outcome(lambda: config_for(f))
            if r["o"] != "ok":
                ids.append({"raise": r.get("exc")})
                continue
            keep.append(r["value"])
            ids.append(seen.setdefault(id(r["value"]), len(seen)))
        c2, o2, out2 = request()
        if c2 is None:
            return {"argv": argv, "first": out1, "second": out2, "ids": ids}
        keep.append(c2)
        ids.append(seen.setdefault(id(c2), len(seen)))
        obs = {"argv": argv, "first": out1, "second": out2, "ids": ids, "same": c2 is c1}
        if o1 is not None and o2 is not None:
            obs["isinstance"] = isinstance(o1, c2)
            obs["equal"] = bool(o1 == o2)
        return obs


def impl(case):
    op, c = case["op"], case["case"]
    return {"call.keep": impl_keep, "call.infer": impl_infer, "call.bind": impl_bind, "call.fields": impl_fields,
            "call.main": impl_main, "call.config": impl_config, "call.partial": impl_partial,
            "call.cache": impl_cache, "call.docargs": impl_docargs, "call.cachemany": impl_cachemany}[op](c)


# ------------------------------------------------------------------------------------------------
# model side


def _parse_for_model(plain):
    if plain["o"] == "ok":
        return {"o": "ok", "vals": plain["vals"]}
    if plain["o"] == "exit":
        return {"o": "exit", "code": plain["code"]}
    return {"o": "raise", "exc": plain["exc"]}


def _cache_key(call):
    ig = call["ignore"]
    return {"target": call["target"], "ignore": ig, "frozen": call["frozen"],
            "defaults": [[k, v] for k, v in call["overrides"]], "hashable": not call.get("unhashable_default", False)}


def _pyeq(src):
    """the class of a literal under Python `==` / hash (what an untyped lru_cache key distinguishes)"""
    import ast

    try:
        v = ast.literal_eval(src)
    except (ValueError, SyntaxError):
        return src
    if isinstance(v, (bool, int, float)):
        return f"num:{float(v)!r}"
    return src


def model_case(case, obs):
    op, c = case["op"], case["case"]
    if op == "call.keep":
        return {"keys": c["keys"], "action": c["action"]}
    if op == "call.infer":
        return {"shape": obs["shape"]}
    if op == "call.bind":
        return {"sig": obs["sig"], "args": [cs(v) for v in c["args"]], "kw": [[k, cs(v)] for k, v in c["kw"]]}
    if op == "call.fields":
        return {"sig": obs["sig"], "plain": False}
    if op == "call.main":
        return {"sig": obs["sig"], "parse": _parse_for_model(obs["plain"]),
                "other_args": [cs(v) for v in c.get("other_args", [])],
                "other_kw": [[k, cs(v)] for k, v in c.get("other_kw", [])]}
    if op == "call.config":
        t = c["target"]
        return {"sig": obs["sig"], "class_ann": [n for n, _ in t["class_ann"]], "ignore": ignore_names(c["ignore"]),
                "overrides": obs["overrides"], "class_doc": obs["docs"]["class_doc"], "init_doc": obs["docs"]["init_doc"]}
    if op == "call.docargs":
        return {"doc": c["doc"]}
    if op == "call.cachemany":
        main = {"target": 0, "ignore": c["ignore"], "frozen": c["frozen"], "defaults": [[k, v] for k, v in c["overrides"]],
                "hashable": True}
        others = [{"target": i + 1, "ignore": {"form": "absent"}, "frozen": None, "defaults": [], "hashable": True}
                  for i in range(c["k"])]
        return {"calls": [main] + others + [main]}
    if op == "call.partial":
        ign = set(ignore_names(c["ignore"]))
        ov = dict(c["overrides"])
        mutable = any(p["name"] not in ign and p["vty"] is not None and ov.get(p["name"], p["dflt"]) in MUTABLE_DFLTS
                      for p in c["target"]["params"])
        return {"sig": obs["sig"], "parse": _parse_for_model(obs["plain"]), "args": [cs(v) for v in c["call_args"]],
                "kwargs": [[k, cs(v)] for k, v in c["call_kw"]], "mutable_field_default": mutable}
    if op == "call.cache":
        return {"calls": [_cache_key(call) for call in c["calls"]]}
    raise ValueError(op)


def _help_ambiguous(docs, name):
    """`set.pop()` over two or more distinct descriptions: which one is taken depends on the hash seed"""
    def cands(e):
        return {v for k, v in e.get("entries", []) if k.split()[:1] == [name]}

    init = cands(docs["init_entries"])
    return len(init or cands(docs["class_entries"])) > 1


def _front_project(f):
    """raw call made by a front-end + callee's view"""
    if f.get("n_calls", 0) >= 1:
        return {"o": "call", "args": f["args"], "kwargs": f["kwargs"], "bound": f.get("bound")}
    if f["o"] == "exit":
        return {"o": "exit", "code": f["code"]}
    if f["o"] == "raise":
        return {"o": "raise", "exc": f["exc"]}
    return {"o": "no-call"}


def project(case, obs):
    op = case["op"]
    if op == "call.keep":
        return {"kept": obs["kept"]}
    if op == "call.infer":
        return {"ok": obs["ok"]}
    if op == "call.bind":
        return obs["out"]
    if op == "call.fields":
        m = obs["main"]
        if "fields" not in m or "fields" not in obs["plain"]:
            return {"main": m.get("exc", "ok"), "plain": obs["plain"].get("exc", "ok")}
        tag = lambda st: "ok" if st["o"] == "ok" else st["exc"]  # noqa: E731
        return {"fields": m["fields"], "setup": tag(m["setup"]), "plain_fields": obs["plain"]["fields"],
                "plain_setup": tag(obs["plain"]["setup"])}
    if op == "call.main":
        return _front_project(obs["main"])
    if op == "call.config":
        o = obs["out"]
        if o["o"] != "ok":
            return {"o": "raise", "exc": o["exc"]}
        return {"o": "ok", "fields": [dict(f, help=(None if _help_ambiguous(obs["docs"], f["name"]) else f["help"]))
                                      for f in o["fields"]]}
    if op == "call.docargs":
        return obs["out"]
    if op == "call.cachemany":
        return {"ids": obs["ids"]}
    if op == "call.partial":
        return _front_project(obs["front"])
    if op == "call.cache":
        return {"ids": obs["ids"]}
    raise ValueError(op)


# ------------------------------------------------------------------------------------------------
# the property itself, on real observations (independent of the model)


def _has_bool_param(c):
    return any(p["ty"] == "bool" for p in c["params"])


def oracle(case, obs):
    op, c = case["op"], case["case"]
    fails = []
    if op == "call.keep":
        # stock action: nothing the constructor does not take survives; custom action: nothing is filtered
        import argparse

        stock = {"store": argparse._StoreAction, "store_const": argparse._StoreConstAction,
                 "store_true": argparse._StoreTrueAction, "store_false": argparse._StoreFalseAction,
                 "append": argparse._AppendAction, "append_const": argparse._AppendConstAction,
                 "count": argparse._CountAction, "help": argparse._HelpAction, "version": argparse._VersionAction,
                 "parsers": argparse._SubParsersAction}
        if c["action"] in stock:
            accepted = set(inspect.signature(stock[c["action"]].__init__).parameters) | {"action"}
            exp = sorted(k for k in set(c["keys"]) if k in accepted)
        else:
            exp = sorted(set(c["keys"]))
        if obs["kept"] != exp or not obs["values_untouched"]:
            fails.append({"clause": "keep-action-args", "detail": f"{c['action']}: kept {obs['kept']}, expected {exp}"})
    elif op == "call.main":
        m, plain = obs["main"], obs["plain"]
        runtime_args = bool(c.get("other_args") or c.get("other_kw"))
        # clauses that do not look at the hand-written dataclass at all
        if not c.get("malformed") and not runtime_args:
            if m["o"] != "ok" or m.get("n_calls") != 1:
                fails.append({"clause": "must-call", "detail": f"well-formed argv {obs['argv']}: the callable is not called "
                                                               f"exactly once: main -> {m}", "front": m})
            else:
                bound = dict(m["bound"])
                for p in c["params"]:
                    if p.get("given") is None and p["dflt"] is not None and bound.get(p["name"]) != obs["sig_defaults"].get(p["name"]):
                        fails.append({"clause": "signature-default", "front": m,
                                      "detail": f"omitted parameter {p['name']}: received {bound.get(p['name'])}, "
                                                f"signature default {obs['sig_defaults'].get(p['name'])}"})
        if plain["o"] == "ok":
            if runtime_args:
                pass      # the property text says nothing about extra run-time arguments
            elif m["o"] != "ok":
                fails.append({"clause": "all-types" if m["o"] == "raise" else "values",
                              "detail": f"argv {obs['argv']}: equivalent dataclass parses, main -> {m}", "front": m})
            else:
                if m["n_calls"] != 1:
                    fails.append({"clause": "values", "detail": f"callable invoked {m['n_calls']} times"})
                if m["bound"] != obs["expected"]:
                    fails.append({"clause": "values", "detail": f"argv {obs['argv']}: callable received {m['bound']}, "
                                                               f"direct call with the parsed values receives {obs['expected']}"})
                npos = sum(1 for p in c["params"] if p["kind"] == "posOnly")
                if len(m["args"]) != npos:
                    fails.append({"clause": "positional-only", "detail": f"{len(m['args'])} positionals for {npos} positional-only parameters"})
        elif plain["o"] == "exit":
            if not (m["o"] == "exit" and m["code"] == plain["code"]):
                fails.append({"clause": "rejection", "detail": f"argv {obs['argv']}: dataclass parse exits {plain['code']}, main -> {m}",
                              "front": m})
            if m.get("n_calls"):
                fails.append({"clause": "rejection", "detail": "callable invoked although the command line was rejected"})
    elif op == "call.fields":
        m = obs["main"]
        if "fields" in m and m["setup"]["o"] != "ok":
            fails.append({"clause": "must-call", "detail": f"the parser for the synthesised class cannot be built: {m['setup']}",
                          "front": m["setup"]})
        if "fields" not in m and "fields" in obs["plain"]:
            fails.append({"clause": "all-types", "detail": f"the equivalent dataclass can be wrapped, the class synthesised by main "
                                                           f"cannot: {m}", "front": m})
        if "fields" in m and "fields" in obs["plain"]:
            names = [p["name"] for p in c["params"]]
            if sorted(f["name"] for f in m["fields"]) != sorted(names):
                fails.append({"clause": "fields", "detail": f"fields {[f['name'] for f in m['fields']]} for parameters {names}"})
            for f in m["fields"]:
                p = next((p for p in c["params"] if p["name"] == f["name"]), None)
                if p is None:
                    continue
                if f["positional"] != (p["kind"] == "posOnly"):
                    fails.append({"clause": "positional-only", "detail": f"{f['name']}: positional={f['positional']} for kind {p['kind']}"})
                if (f["dflt"] != "missing") != (p["dflt"] is not None):
                    fails.append({"clause": "defaults", "detail": f"{f['name']}: default {f['dflt']} for signature default {p['dflt']}"})
            if obs["plain"]["setup"]["o"] == "ok" and m["setup"]["o"] != "ok":
                fails.append({"clause": "all-types", "detail": f"set-up of the synthesised class raises {m['setup']}",
                              "front": m["setup"]})
    elif op == "call.docargs":
        b, out = c.get("block"), obs["out"]
        if b is not None and not b.get("malformed"):
            if out["o"] != "ok":
                fails.append({"clause": "doc-args", "detail": f"well-formed Args section rejected: {out}"})
            else:
                got = {k: " ".join(v.split()) for k, v in out["entries"]}
                for e in b["entries"]:
                    exp = " ".join((e["desc"] + " " + " ".join(e["cont"])).split())
                    if got.get(e["key"]) != exp:
                        fails.append({"clause": "doc-args", "detail": f"entry {e['key']!r}: read {got.get(e['key'])!r}, documented {exp!r}"})
    elif op == "call.cachemany":
        if not obs["ids"] or "second" not in obs or "same" not in obs:
            fails.append({"clause": "derive", "detail": f"config_for failed: {obs.get('first')} / {obs.get('second')}"})
        else:
            if not obs["same"]:
                fails.append({"clause": "cached", "detail": f"after {c['k']} other callables config_for returns a different class "
                                                            f"for the same callable and arguments"})
            if obs.get("isinstance") is False:
                fails.append({"clause": "cached", "detail": f"after {c['k']} other callables the object parsed earlier is no "
                                                            f"longer an instance of the derived class"})
            if obs.get("equal") is False:
                fails.append({"clause": "cached", "detail": f"after {c['k']} other callables two parses of the same argv compare unequal"})
            if any(isinstance(i, dict) for i in obs["ids"]):
                fails.append({"clause": "derive", "detail": "config_for failed for a plain annotated function"})
    elif op == "call.config":
        o = obs["out"]
        t = c["target"]
        if o["o"] != "ok":
            ign0 = set(ignore_names(c["ignore"]))
            ov0 = dict(c["overrides"])
            cann = {a for a, _ in t["class_ann"]}
            uninferable = any(p["name"] not in ign0 and p["ty"] is None and p["name"] not in cann
                              and ov0.get(p["name"], p["dflt"]) in ("None", 'Path("p")') for p in t["params"])
            explained = (o["exc"] == "NotImplementedError" and uninferable) or \
                        (o["exc"] in ("ValueError", "KeyError") and docs_malformed(t))
            if not explained:
                fails.append({"clause": "derive", "front": o,
                              "detail": f"{obs['call']} raises {o['exc']}: {o.get('msg', '')[:120]} "
                                        f"(docstrings: {obs['docs']['class_doc']!r} / {obs['docs']['init_doc']!r})"})
        if o["o"] == "ok":
            ign = set(ignore_names(c["ignore"]))
            docs = t.get("docs") or {}
            for f in o["fields"]:
                cands = documented_help(docs.get("init"), f["name"]) + documented_help(docs.get("class"), f["name"])
                if not cands and " ".join((f["help"] or "").split()):
                    fails.append({"clause": "help", "param": f["name"],
                                  "detail": f"{f['name']} is not documented but carries the help {f['help']!r}"})
                if cands:
                    if " ".join((f["help"] or "").split()) not in cands:
                        fails.append({"clause": "help", "param": f["name"],
                                      "detail": f"{f['name']}: help {f['help']!r}, documented {cands}"})
                    ah = obs["options"].get("help:" + f["name"]) if isinstance(obs["options"], dict) else None
                    # (an action may decorate the text, e.g. the boolean action appends "(default: …)")
                    if ah is not None and not any(cand in " ".join(ah.split()) for cand in cands):
                        fails.append({"clause": "help", "param": f["name"],
                                      "detail": f"{f['name']}: parser help {ah!r}, documented {cands}"})
            ov = {k: v for k, v in obs["overrides"]}
            sigd = {p["name"]: p for p in obs["sig"]}
            got = {f["name"]: f for f in o["fields"]}
            if len(got) != len(o["fields"]):
                fails.append({"clause": "one-option", "detail": "duplicate field"})
            for p in t["params"]:
                n = p["name"]
                if n in ign:
                    if n in got:
                        fails.append({"clause": "ignored", "detail": f"ignored parameter {n} is a field"})
                    continue
                eff = ov[n]["v"] if n in ov else (sigd[n]["dflt"]["v"] if sigd[n]["dflt"] else None)
                typed = p["ty"] is not None or any(n == a for a, _ in t["class_ann"])
                if typed or eff is not None:
                    if n not in got:
                        fails.append({"clause": "one-option", "detail": f"no field for parameter {n}"})
                    else:
                        if got[n]["default"] != eff or got[n]["required"] != (eff is None):
                            fails.append({"clause": "defaults", "detail": f"{n}: field default {got[n]['default']}, signature/override default {eff}"})
                        if isinstance(obs["options"], dict) and "error" not in obs["options"] and obs["options"].get(n) != 1:
                            fails.append({"clause": "one-option", "detail": f"{n}: {obs['options'].get(n)} parser actions"})
            for n in got:
                if n not in sigd:
                    fails.append({"clause": "one-option", "detail": f"field {n} is not a parameter"})
            if not obs["target_ok"]:
                fails.append({"clause": "target", "detail": "_target_ is not the callable"})
            if obs["again_same"] is False:
                fails.append({"clause": "cached", "detail": f"{obs['call']} evaluated twice gives two classes"})
    elif op == "call.partial":
        f, plain = obs["front"], obs["plain"]
        if f.get("stage") == "config_for":
            if not docs_malformed(c["target"]):
                fails.append({"clause": "derive", "detail": f"config_for raises {f.get('exc')}: {f.get('msg', '')[:120]}", "front": f})
        elif plain["o"] == "ok":
            exp = obs["expected"]
            if isinstance(exp, list):
                if f["o"] != "ok" or f.get("stage") != "call":
                    fails.append({"clause": "partial-call", "detail": f"argv {obs['argv']}: direct call works, front-end -> {f}",
                                  "front": f})
                elif f["bound"] != exp or f["n_calls"] != 1:
                    fails.append({"clause": "partial-call", "detail": f"argv {obs['argv']}: callable received {f['bound']}, expected {exp}"})
            elif f["o"] == "ok":
                fails.append({"clause": "partial-call", "detail": f"direct call raises {exp}, front-end returned"})
        elif plain["o"] == "exit":
            if not (f["o"] == "exit" and f["code"] == plain["code"]):
                fails.append({"clause": "rejection", "detail": f"argv {obs['argv']}: dataclass parse exits, front-end -> {f}"})
    elif op == "call.cache":
        seen = {}
        for i, call in enumerate(c["calls"]):
            if isinstance(obs["ids"][i], dict):
                continue
            t = c["targets"][call["target"]]
            ign = set(ignore_names(call["ignore"]))
            if obs["fields"][i] is not None and any(n in ign for n in obs["fields"][i]):
                fails.append({"clause": "ignored", "detail": f"call {i}: fields {obs['fields'][i]} contain ignored {sorted(ign)}"})
            for p in t["params"]:
                if p["name"] not in ign and p["vty"] is not None and p["name"] not in (obs["fields"][i] or []):
                    fails.append({"clause": "one-option", "detail": f"call {i}: no field for {p['name']}"})
            for n, exp in (obs.get("expected_defaults") or [{}] * len(c["calls"]))[i].items():
                got = (obs["defaults"][i] or {}).get(n)
                if n not in ign and got is not None and got != exp:
                    fails.append({"clause": "cache-typed", "detail": f"call {i}: requested default {n}={exp}, the class returned has {got}"})
            if call["ignore"]["form"] == "list" or call.get("unhashable_default"):
                continue
            key = json.dumps([call["target"], call["ignore"], call["frozen"], call["overrides"]], sort_keys=True)
            if key in seen and obs["ids"][seen[key]] != obs["ids"][i]:
                fails.append({"clause": "cached", "detail": f"calls {seen[key]} and {i} are identical but return different classes"})
            seen.setdefault(key, i)
            # classes for different callables are different objects
            for j in range(i):
                if not isinstance(obs["ids"][j], dict) and c["calls"][j]["target"] != call["target"] and obs["ids"][j] == obs["ids"][i]:
                    fails.append({"clause": "cached", "detail": f"calls {j} and {i} (different callables) return the same class"})
    return fails


# ------------------------------------------------------------------------------------------------


def _front(fail):
    return fail.get("front") or {}


def _main_params(case):
    return case["case"].get("params") or []


def _cls(p):
    return TY[p["ty"]]["cls"] if p.get("ty") in TY else None


def _f_posonly_tuple_default(case, obs, fail):
    """a positional-only fixed-length Tuple parameter with a default: nargs=N makes it required, the default is unusable.
    Two faces: (a) with too few tokens the parse exits 2 (clause must-call); (b) with exactly N tokens that were meant for
    EARLIER positional parameters, argparse gives them all to the tuple (its nargs=N is matched greedily against
    nargs='?' neighbours): the omitted tuple parameter receives them instead of its signature default."""
    if case["op"] != "call.main":
        return False
    omitted = [p for p in _main_params(case)
               if p["kind"] == "posOnly" and _cls(p) == "tuple" and p["dflt"] is not None and p.get("given") is None]
    if not omitted:
        return False
    f = _front(fail)
    if fail.get("clause") == "must-call":
        return f.get("o") == "exit" and f.get("code") == 2
    if fail.get("clause") == "signature-default":
        return any(str(fail.get("detail", "")).startswith(f"omitted parameter {p['name']}:") for p in omitted)
    return False


def _f_mutable_default(case, obs, fail):
    """a default whose class is unhashable (list, dict, non-frozen dataclass instance): make_dataclass raises ValueError"""
    f = _front(fail)
    if not (f.get("o") == "raise" and f.get("exc") == "ValueError" and "mutable default" in (f.get("msg") or "")):
        return False
    c = case["case"]
    if case["op"] in ("call.main", "call.fields"):
        return any(p["dflt"] in MUTABLE_DFLTS for p in c["params"])
    if case["op"] in ("call.config", "call.partial", "call.cachemany"):
        ov = dict(c.get("overrides", []))
        return any(ov.get(p["name"], p["dflt"]) in MUTABLE_DFLTS for p in c["target"]["params"])
    return False


FINDINGS = {
    "C20-posonly-tuple-default": _f_posonly_tuple_default,
    "C20-mutable-default": _f_mutable_default,
}


def nontrivial(case, obs):
    op, c = case["op"], case["case"]
    if op == "call.main":
        return len(c["params"]) >= 2 and len(obs["argv"]) > 0
    if op == "call.fields":
        return len(c["params"]) >= 2
    if op == "call.bind":
        return len(c["params"]) >= 2 and (len(c["args"]) + len(c["kw"])) >= 2
    if op == "call.keep":
        return len(obs["kept"]) < len(set(c["keys"]))
    if op == "call.config":
        return len(c["target"]["params"]) >= 2 and (c["ignore"]["form"] != "absent" or bool(c["overrides"]))
    if op == "call.partial":
        return len(c["target"]["params"]) >= 2 and (len(obs["argv"]) > 0 or bool(c["call_kw"]))
    if op == "call.cache":
        return len(c["calls"]) >= 2
    if op == "call.cachemany":
        return c["k"] >= 2
    if op == "call.docargs":
        return obs["out"]["o"] == "ok" and len(obs["out"]["entries"]) >= 1
    return op == "call.infer"


def tags(case, obs):
    op, c = case["op"], case["case"]
    t = [f"op:{op}"]
    if op in ("call.main", "call.fields"):
        t.append(f"n:{len(c['params'])}")
        for p in c["params"]:
            t.append(f"kind:{p['kind']}")
            t.append(f"ty:{TY[p['ty']]['cls'] if p['ty'] else 'unannotated'}")
            t.append("dflt:" + ("none" if p["dflt"] is None else ("func" if p["dflt"].startswith("@") else ("None" if p["dflt"] == "None" else (
                "partial-object" if p["dflt"].startswith("functools.partial") else (
                    "config-instance" if p["dflt"].startswith("OptCfg") else "value"))))))
            if p["dflt"] in MUTABLE_DFLTS:
                t.append("dflt:mutable")
            if op == "call.main":
                g = p.get("given")
                t.append("arg:" + ("omitted" if g is None else ("positional" if p["kind"] == "posOnly" and p["ty"] not in DC_TYPES
                                                                else ("nested-options" if p["ty"] in DC_TYPES else g.get("form", "long")))))
                if p["kind"] == "posOnly" and p["ty"] in DC_TYPES:
                    t.append("dataclass-positional-only")
        if op == "call.main":
            m = obs["main"]
            t.append("form:" + c.get("form", "direct"))
            t.append("malformed:" + str(c.get("malformed")))
            if c.get("opts_first"):
                t.append("options-before-positionals")
            t.append("main:" + (m["o"] if m["o"] != "raise" else "raise:" + str(m["exc"])))
            t.append("plain:" + obs["plain"]["o"])
            if c.get("future"):
                t.append("postponed-annotations")
            if c.get("other_kw") or c.get("other_args"):
                t.append("runtime-args")
        else:
            t.append("setup:" + str((obs["main"].get("setup") or {}).get("exc", "ok")))
    elif op == "call.bind":
        t.append("bind:" + obs["out"]["o"])
    elif op == "call.config":
        t.append("config:" + obs["out"]["o"] + (":" + str(obs["out"].get("exc")) if obs["out"]["o"] != "ok" else ""))
        t.append("ignore:" + c["ignore"]["form"])
        for where, b in (c["target"].get("docs") or {}).items():
            if b is not None:
                t.append("doc:" + where)
                if any(":" in e["desc"] for e in b["entries"]):
                    t.append("doc:second-colon")
                if any(e["cont"] for e in b["entries"]):
                    t.append("doc:continuation")
                if b.get("malformed"):
                    t.append("doc:malformed")
        t.append("target:" + ("class" if c["target"]["is_class"] else "function"))
        t.append(f"n:{len(c['target']['params'])}")
        for p in c["target"]["params"]:
            t.append("cfg-ty:" + (p["ty"] or ("class-annotation" if p["vty"] else "untyped")))
            t.append("cfg-kind:" + p["kind"])
    elif op == "call.partial":
        f = obs["front"]
        for p in c["target"]["params"]:
            t.append("cfg-ty:" + (p["ty"] or ("inferred" if p["vty"] else "untyped")))
            t.append("cfg-kind:" + p["kind"])
        t.append("partial:" + f.get("stage", "?") + ":" + f["o"])
        t.append("target:" + ("class" if c["target"]["is_class"] else "function"))
        if c["call_kw"]:
            t.append("explicit-kwargs")
    elif op == "call.cachemany":
        t.append(f"others:{c['k']}")
        t.append("same:" + str(obs.get("same")))
    elif op == "call.docargs":
        t.append("docargs:" + obs["out"]["o"] + (":" + obs["out"]["exc"] if obs["out"]["o"] != "ok" else ""))
    elif op == "call.cache":
        t.append(f"calls:{len(c['calls'])}")
        t.append(f"distinct:{len({json.dumps(i) for i in obs['ids']})}")
        if any(call.get("via") == "Partial" for call in c["calls"]):
            t.append("via:Partial[f]")
        if len({_pyeq(v) for call in c["calls"] for _, v in call["overrides"]}) < len({v for call in c["calls"] for _, v in call["overrides"]}):
            t.append("equal-but-differently-typed-defaults")
    return t


def shrink(case):
    op, c = case["op"], case["case"]
    if op in ("call.main", "call.fields"):
        ps = c["params"]
        if len(ps) > 1:
            for i in range(len(ps)):
                rest = [dict(p) for j, p in enumerate(ps) if j != i]
                # keep the signature legal: defaults are a suffix of the positional parameters
                seen_default, ok = False, True
                for p in rest:
                    if p["kind"] != "kwOnly":
                        if p["dflt"] is not None:
                            seen_default = True
                        elif seen_default:
                            ok = False
                if ok:
                    yield {"op": op, "case": dict(c, params=rest)}
        for i, p in enumerate(ps):
            if p.get("given") is not None and p["dflt"] is not None:
                q = [dict(x) for x in ps]
                q[i]["given"] = None
                yield {"op": op, "case": dict(c, params=q)}
        for key, empty in (("extra", []), ("other_kw", []), ("other_args", []), ("doc", False), ("future", False)):
            if c.get(key):
                yield {"op": op, "case": dict(c, **{key: empty})}
    if op in ("call.config", "call.partial", "call.cachemany"):
        t = c["target"]
        docs = t.get("docs") or {}
        for where in ("class", "init"):
            b = docs.get(where)
            if b is None:
                continue
            yield {"op": op, "case": dict(c, target=dict(t, docs=dict(docs, **{where: None})))}
            for i in range(len(b["entries"])):
                nb = dict(b, entries=b["entries"][:i] + b["entries"][i + 1:])
                yield {"op": op, "case": dict(c, target=dict(t, docs=dict(docs, **{where: nb})))}
            for i, e in enumerate(b["entries"]):
                if e["cont"] or e["key"] != e["key"].split(" ")[0]:
                    ne = dict(e, cont=[], key=e["key"].split(" ")[0], pre=" ", trail="")
                    nb = dict(b, entries=b["entries"][:i] + [ne] + b["entries"][i + 1:])
                    yield {"op": op, "case": dict(c, target=dict(t, docs=dict(docs, **{where: nb})))}
            if b["intro"] or b["returns"]:
                yield {"op": op, "case": dict(c, target=dict(t, docs=dict(docs, **{where: dict(b, intro=None, returns=False)})))}
        if op == "call.config":
            for i in range(len(c["overrides"])):
                yield {"op": op, "case": dict(c, overrides=c["overrides"][:i] + c["overrides"][i + 1:])}
    if op == "call.cachemany":
        for k in CACHE_KS + [129, 128, 200]:
            if k < c["k"]:
                yield {"op": op, "case": dict(c, k=k)}
    if op == "call.partial":
        for key in ("given", "call_kw", "extra", "overrides"):
            for i in range(len(c.get(key, []))):
                yield {"op": op, "case": dict(c, **{key: c[key][:i] + c[key][i + 1:]})}
    elif op == "call.cache":
        for i in range(len(c["calls"])):
            if len(c["calls"]) > 2:
                yield {"op": op, "case": dict(c, calls=c["calls"][:i] + c["calls"][i + 1:])}
    elif op == "call.bind":
        for key in ("args", "kw"):
            for i in range(len(c[key])):
                yield {"op": op, "case": dict(c, **{key: c[key][:i] + c[key][i + 1:]})}


MANIFEST = {
    "text": ("Proof, PARTIAL (named gaps below). PROVED for all inputs, in the model: (a) for every legal signature of any "
             "length the call made by `main` binds every parameter to the value looked up for it, positional-only parameters "
             "positionally in signature order (stable-sort lemma), all others by keyword (c20_main_args, c20_main_run); (b) the "
             "fields `main` synthesises agree item by item (name, type class, default/factory, positional) with the "
             "independently written equivalent dataclass and meet the same fate in add_argument (c20_fields_agree, "
             "c20_all_types), and set-up succeeds for EVERY signature — every type class incl. bool and Optional, every kind "
             "incl. positional-only, every default (closed form c20_addArgument_closed, c20_setup_ok); (c) config_for's field list is "
             "exactly the typed, non-ignored parameters with the override/signature default (c20_config_fields/_options, under "
             "the exclusions Inferable and NoMutableCfg, each with a witness); (d) Partial.__call__: explicit kwargs win, "
             "ignored/skipped parameters keep the callee's default, positional-only fields are moved out of the keyword dict and "
             "passed positionally in signature order, and the target binds exactly those values (movePositional_spec, "
             "c20_partial_call, c20_config_then_call); (e) the unbounded cache returns the stored class after any number of "
             "other calls and distinguishes any two different (typed) keys (c20_cached, c20_cache_typed); a help candidate is "
             "always the parameter's own docstring entry (c20_help_exact, c20_help_undocumented); (f) an Args entry splits at its first colon only. "
             "NAMED GAPS, each refuted by a `_witness` theorem: C20-mutable-default and C20-posonly-tuple-default (open "
             "findings with replays), and the residual corner of Partial.__call__ when a positional-only parameter WITHOUT "
             "a value precedes a positional-only field (exclusion PosOnlySupplied, c20_partial_posonly_gap_witness). Repaired "
             "since round 2 and now regression cases + examples: C20-posonly-optional (302ccc9), C20-posonly-bool (5a62da3), "
             "C20-partial-posonly (8ca70f1), C20-help-prefix-match (f3cc715), C20-cache-untyped-key (4d0f313). SAMPLED ONLY (no theorem; the parse is a parameter of the model): "
             "that the synthesised class PARSES like the hand-written one — values, signature defaults for omitted options, "
             "nested groups for dataclass-typed parameters —, one parser option per field, help texts, and the identity of the "
             "real lru_cache; these are checked on every generated case by the oracle (recording stub vs. a direct call with "
             "the values of the equivalent dataclass, plus two clauses that do not use that dataclass at all: a well-formed "
             "command line ends in exactly one call, an omitted parameter receives inspect.signature's default). Reading of "
             "'same object for the same callable': identically written calls (see ASSUMPTIONS). The model is tied to the code "
             "by ten correspondence ops."),
    "note": ("Trusted: Lean kernel + standard axioms; inspect.signature, make_dataclass, CPython argument binding "
             "(modelled, compared by op call.bind), lru_cache keying; the parse of the synthesised class is a parameter of "
             "the model (its agreement with the equivalent dataclass is checked by the oracle on every case, not proved). "
             "Modelled not verified: decorators.py:47-139, partial.py:61-223,300-308, field_wrapper.py:137-166,231-406 "
             "(key sets only), 1037-1091."),
    "technique": "Lean 4 list/sort lemmas + induction over signatures and call histories; differential correspondence "
                 "on generated source modules with a recording stub",
    "design_ref": "DESIGN.md section 5, C20",
}
