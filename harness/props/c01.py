"""C01 — an empty command line reproduces the dataclass defaults at every destination."""
from __future__ import annotations

import copy
import dataclasses

from harness.core import gen_types as G
from harness.core import sp
from harness.core.trees import Universe

PID = "C01"
RULE = ("a case is a parser set-up: 1-3 registrations of dataclass trees (leaf fields over the CLI type grammar with "
        "defaults / default factories incl. falsy values, int defaults of float fields, Literals whose values share a name; "
        "nested members to depth 3, Optional members with None / factory defaults, the empty dataclass, classes split into a "
        "base class and a subclass that may re-declare a field with another default, the same class at several "
        "destinations, twice inside one tree and shared between trees) x one of the 4x3x2x3 parser configurations x "
        "{parse(), ArgumentParser} x {no caller default, full default instance, instance with nested None}; ~4% of the "
        "cases are classes the constructor cannot build and no caller default (property silent; the model's exit-2 branch "
        "is compared). The empty command line is parsed and every destination compared with the constructor's own result "
        "(or the caller's instance); then every mutable container of the result is modified and a fresh parser must still "
        "return the pristine defaults. Non-trivial = a nested member, a caller default or >= 2 registrations; distinct by "
        "canonical JSON. The thorough tier starts with an enumerated, seed-independent slice: 51 small shapes (flat class x "
        "6-annotation alphabet; parent + member x every member-default kind x Optional or not x caller default kinds) under "
        "every one of the 72 (ArgumentParser) + 36 (parse()) configurations. Not generated: dict-valued caller defaults (the property speaks of default instances).")
ASSUMPTIONS = ["dataclasses' constructor semantics (it is the reference)", "default factories are pure (constant functions)"]
TRUSTED = ["stdlib dataclasses / argparse"]
EXHAUSTIVE = {"quick": False, "thorough": False}
MANIFEST = {
    "text": ("Proof (partial): Lean model of the default cascade (caller instance pushed down, wrapper defaults, field "
             "default / factory), argparse's string-default conversion, postprocess and bottom-up instantiation with the "
             "Optional rule (an Optional member is None only when its own default is None, since fix 14a7541, and every leaf "
             "at ANY depth below it is at its wrapper default, since fixes 3f531df / f635f07); theorems by "
             "mutual induction over the class tree, any depth and width. With purely syntactic hypotheses: "
             "c01_no_caller_typed — a class all of whose fields carry typed defaults of their own (default_factory=Cls "
             "members, default_factory=lambda: inst members, Optional members = None, distinct field names) parses the empty "
             "command line to exactly what the constructor builds; c01_caller_default_wellTyped — a caller instance whose "
             "leaf values are well-typed comes back unchanged, Optional members left at None included. 'An Optional member "
             "left None stays None' is proved (quietNone_of_quietF / quietNone_of_syn: any subtree, required fields "
             "included), not assumed. Leaf stability is complete on the grammar: WellTyped + modelled annotation implies "
             "stable (c01_typed_defaults_partial) except two named decidable exclusions, each refuted by a witness theorem "
             "and recorded as open finding: a string held by a Union-typed leaf (Union[float,str]='0' comes back 0.0: "
             "c01_union_default_typed_witness, C01-union-str-default-converted) and a Literal string value whose name "
             "belongs to a later value (Literal['0',0]='0' comes back int 0: c01_literal_collision_witness, "
             "C01-literal-name-collision). The semantic versions (c01_no_caller, c01_member_factory, c01_caller_default "
             "under LeafStable / QuietNone) remain for leaves outside WellTyped. The model is configuration-free (option "
             "spelling cannot matter for an empty argv); that the real parser agrees under all 72 configurations and both "
             "APIs is what the correspondence and the oracle check on every run."),
    "note": ("Trusted: Lean kernel + standard axioms; harness. Modelled not verified: field_wrapper.py:711-821, "
             "dataclass_wrapper.py:94-179,256-315, parsing.py:794-991,1135-1161. ALWAYS_MERGE with a reused class is outside "
             "this model (merged defaults, C11): those cases are run on the real code and judged by the oracle only. "
             "Inheritance is invisible to the model (it sees dataclasses.fields(), the flattened list) and checked by the "
             "differential run only. The Optional rule compares values structurally where parsing.py:1189 uses Python != "
             "(1 == 1.0 == True): on an empty command line the only rewritten values are strings converted to non-strings, "
             "which differ under both. A default_factory=Cls whose Cls() raises is totalised in the model (set-up phase not "
             "modelled) and not generated without a caller default."),
    "technique": "Lean 4 mutual induction over class trees + differential check under all parser configurations",
    "design_ref": "DESIGN.md section 5, C01",
}

LEAF_NAMES = ["a", "b", "lr", "size", "name", "flag", "items", "tup", "mode", "w", "path", "n_items", "q", "x"]
CHILD_NAMES = ["opt", "model", "sub", "inner", "child", "m"]
DESTS = ["cfg", "a1", "b2", "train"]
ALL_CR = ["AUTO", "EXPLICIT", "NONE", "ALWAYS_MERGE"]


NEAR_BOOL = ["on", "off", "y", "n", "t", "f", "yes ", " true", "TRUE", "oui", "0", "1", "2", "enable", "On", "OFF", "no", "False", "nope"]
NEAR_NUM = ["0", "1", "2", "1e3", "1_0", " 7", "0x10", "1.", ".5", "one", "inf", "nan", "-3", "+4", "1,5", "on"]


def gen_leaf_value(rng, t):
    """a value of the annotation; a float-typed position sometimes holds an int (`x: float = 1`: accepted by every type
    checker, and `1 == 1.0` for Python while the two are different values for the model)"""
    v = G.gen_value(rng, t)
    inner = t["inner"] if t["k"] == "opt" else t
    if inner["k"] == "union" and v["t"] != "none" and any(a["k"] == "str" for a in inner["alts"]) and rng.random() < 0.5:
        # words NEAR the vocabularies of the members' parsers: the documented ones are converted on the way through argparse
        # (open finding C01-union-str-default-converted), every other one must come back unchanged
        pool = NEAR_NUM if not any(a["k"] == "bool" for a in inner["alts"]) else NEAR_BOOL
        return {"t": "str", "v": rng.choice(pool)}
    if inner["k"] == "float" and v["t"] == "float" and rng.random() < 0.3:
        return {"t": "int", "v": str(rng.choice([0, 1, -1, 3, 100]))}
    if inner["k"] in ("list", "vtuple") and inner["item"]["k"] == "float" and v["t"] in ("list", "tuple") and rng.random() < 0.3:
        return {"t": v["t"], "v": [{"t": "int", "v": str(rng.choice([0, 1, 2]))} if x["t"] == "float" and i % 2 == 0 else x
                                   for i, x in enumerate(v["v"])]}
    return v


def gen_leaf(rng, nm, allow_required):
    t = G.gen_ty(rng, p_opt=0.2, p_union=0.03)
    if rng.random() < 0.05:
        # the usual auto/on/off switch: a Union whose first member has a word vocabulary of its own
        alts = rng.choice([["bool", "str"], ["bool", "str"], ["bool", "str"], ["int", "str"], ["float", "str"], ["bool", "int", "str"]])
        t = {"k": "union", "alts": [{"k": a} for a in alts]}
        if rng.random() < 0.25:
            t = {"k": "opt", "inner": t}
    if allow_required and rng.random() < 0.2:
        d = {"kind": "missing"}
    elif t["k"] == "opt" and rng.random() < 0.5:
        d = {"kind": "value", "v": {"t": "none"}}
    else:
        d = {"kind": "value", "v": gen_leaf_value(rng, t)}
    return {"kind": "leaf", "f": {"name": nm, "ty": t, "default": d}}


def gen_inst(rng, tree):
    fields = []
    for f in tree["fields"]:
        if f["kind"] == "leaf":
            fields.append([f["f"]["name"], gen_leaf_value(rng, f["f"]["ty"])])
        else:
            if f["optional"] and rng.random() < 0.35:
                fields.append([f["name"], {"t": "none"}])
            else:
                fields.append([f["name"], gen_inst(rng, f["tree"])])
    return {"t": "inst", "cls": tree["cls"], "v": fields}


def gen_tree(rng, depth, counter, allow_required=False, pool=None, bare=False):
    """`pool`: the class trees finished so far in this case — a member may be of a class that already occurs elsewhere
    (twice inside one tree, or in another registration's tree); a finished tree cannot contain the one being built."""
    pool = [] if pool is None else pool
    cls = f"K{counter[0]}"
    counter[0] += 1
    n_leaf = rng.choice([0, 1, 1, 2, 2, 3, 4])
    n_child = rng.choice([0, 1, 1, 2]) if depth > 0 else 0
    if n_leaf + n_child == 0 and rng.random() < 0.6:
        n_leaf = 1                      # else: the empty dataclass
    leaf_names = rng.sample(LEAF_NAMES, n_leaf)
    child_names = rng.sample(CHILD_NAMES, n_child)
    fields = [gen_leaf(rng, nm, allow_required) for nm in leaf_names]
    for nm in child_names:
        cands = [t for t in pool if depth_of(t) <= depth]
        if cands and rng.random() < 0.2:
            sub = copy.deepcopy(rng.choice(cands))      # the same class at a second place
        else:
            sub = gen_tree(rng, depth - 1, counter, allow_required, pool, bare)
        optional = rng.random() < 0.4
        r = rng.random()
        if optional:
            kind = "none" if r < 0.45 else ("factory_cls" if r < 0.75 else "factory_inst")
        else:
            kind = "factory_cls" if r < 0.6 else "factory_inst"
            if allow_required and r > 0.9:
                kind = "missing"
        if bare and kind == "factory_cls" and not constructible(sub):
            # `default_factory=Cls` with a `Cls` that needs arguments: the factory itself raises TypeError while the parser
            # is set up (the model has no set-up phase: Defaults.lean totalises this arm); an explicit instance instead
            kind = "factory_inst"
        d = {"kind": kind}
        if kind == "factory_inst":
            d["v"] = gen_inst(rng, sub)
        fields.append({"kind": "child", "name": nm, "optional": optional, "dflt": d, "tree": sub})
    rng.shuffle(fields)
    # dataclasses: fields without default first
    def has_default(f):
        return (f["f"]["default"]["kind"] != "missing") if f["kind"] == "leaf" else (f["dflt"]["kind"] != "missing")
    fields.sort(key=has_default)
    tree = {"cls": cls, "fields": fields}
    # inheritance: the first k fields are declared by a base class; the subclass may re-declare one of them with another
    # default (the field keeps its position). The flattened field list — what dataclasses.fields() reports — is unchanged.
    if len(fields) >= 1 and rng.random() < 0.2:
        k = rng.randint(1, len(fields))
        base = {"cls": cls + "B", "n": k}
        over = [f for f in fields[:k] if f["kind"] == "leaf" and f["f"]["default"]["kind"] == "value"]
        if over and rng.random() < 0.6:
            f = rng.choice(over)
            base["override"] = f["f"]["name"]
            base["base_default"] = {"kind": "value", "v": gen_leaf_value(rng, f["f"]["ty"])}
        tree["base"] = base
    pool.append(tree)
    return tree


def leaf_names_of(tree):
    out = []
    for f in tree["fields"]:
        if f["kind"] == "leaf":
            out.append(f["f"]["name"])
        else:
            out += leaf_names_of(f["tree"])
    return out


def has_children(tree):
    return any(f["kind"] == "child" for f in tree["fields"])


def constructible(tree):
    for f in tree["fields"]:
        if f["kind"] == "leaf":
            if f["f"]["default"]["kind"] == "missing":
                return False
        else:
            if f["dflt"]["kind"] == "missing":
                return False
            if f["dflt"]["kind"] == "factory_cls" and not constructible(f["tree"]):
                return False
    return True


def _leaf(nm, ty, v):
    return {"kind": "leaf", "f": {"name": nm, "ty": ty, "default": {"kind": "value", "v": v}}}


def enumerated():
    """seed-independent slice of the thorough tier: every small shape below under EVERY parser configuration and both
    APIs (4x3x3x2 for ArgumentParser, 4x3x3 for parse(), which has no nested mode): a flat class with one leaf from a
    6-annotation alphabet; a parent with one leaf and one member, for every kind of member default x Optional or not x a
    3-annotation alphabet for the member's leaf x {no caller default, caller instance, caller instance with the member None}"""
    I, S = (lambda k: {"t": "int", "v": str(k)}), (lambda x: {"t": "str", "v": x})
    alphabet = [
        ({"k": "int"}, I(0), I(7)),
        ({"k": "str"}, S(""), S("a b")),
        ({"k": "opt", "inner": {"k": "float"}}, {"t": "none"}, {"t": "float", "v": "2.5"}),
        ({"k": "list", "item": {"k": "int"}}, {"t": "list", "v": [I(1), I(2)]}, {"t": "list", "v": []}),
        ({"k": "tuple", "items": [{"k": "int"}, {"k": "str"}]}, {"t": "tuple", "v": [I(1), S("x")]}, {"t": "tuple", "v": [I(2), S("")]}),
        ({"k": "literal", "vals": [I(0), S("zero"), I(1)]}, S("zero"), I(1)),
    ]
    shapes = []
    for ty, d, other in alphabet:
        tree = {"cls": "K0", "fields": [_leaf("x", ty, d)]}
        shapes.append((tree, None))
        shapes.append((tree, {"t": "inst", "cls": "K0", "v": [["x", other]]}))
    for ty, d, other in (alphabet[0], alphabet[3], alphabet[4]):
        sub = {"cls": "K1", "fields": [_leaf("x", ty, d)]}
        sub_inst = {"t": "inst", "cls": "K1", "v": [["x", other]]}
        for optional, kind in [(True, "none"), (False, "factory_cls"), (True, "factory_cls"), (False, "factory_inst"), (True, "factory_inst")]:
            dflt = {"kind": kind}
            if kind == "factory_inst":
                dflt["v"] = sub_inst
            tree = {"cls": "K0", "fields": [_leaf("a", {"k": "int"}, I(1)),
                                            {"kind": "child", "name": "m", "optional": optional, "dflt": dflt, "tree": sub}]}
            shapes.append((tree, None))
            shapes.append((tree, {"t": "inst", "cls": "K0", "v": [["a", I(3)], ["m", {"t": "inst", "cls": "K1", "v": [["x", d]]}]]}))
            if optional:
                shapes.append((tree, {"t": "inst", "cls": "K0", "v": [["a", I(3)], ["m", {"t": "none"}]]}))
    for tree, caller in shapes:
        for cr in ALL_CR:
            for dash in sp.ALL_DASH:
                for g in sp.ALL_GEN:
                    for api, nests in (("parser", sp.ALL_NEST), ("parse", ["DEFAULT"])):
                        for nest in nests:
                            yield {"op": "defaults.empty", "case": {"cfg": {"cr": cr, "dash": dash, "gen": g, "nest": nest}, "api": api,
                                                                    "regs": [{"tree": copy.deepcopy(tree), "dest": "cfg", "caller": copy.deepcopy(caller)}]}}


def gen(rng, tier):
    n = 500 if tier == "quick" else 13500
    if tier == "thorough":
        yield from enumerated()
    for _ in range(n):
        counter = [0]
        pool = []
        with_caller = rng.random() < 0.45
        # ~5%: classes the constructor cannot build by itself and NO caller default: the property is silent (oracle skips),
        # the model's exit-2 / raise branches are compared with the real parser
        bare = (not with_caller) and rng.random() < 0.18
        api = rng.choice(["parser", "parser", "parse"])
        cfg = {"cr": rng.choice(ALL_CR), "dash": rng.choice(sp.ALL_DASH), "gen": rng.choice(sp.ALL_GEN), "nest": rng.choice(sp.ALL_NEST)}
        # (a single registration then: one failing destination makes the whole parse fail, which the per-destination model
        # does not express)
        nreg = 1 if (api == "parse" or bare) else rng.choice([1, 1, 2, 3])
        regs = []
        trees = []
        for i in range(nreg):
            if trees and rng.random() < 0.5:
                tree = copy.deepcopy(rng.choice(trees))  # the same class at several destinations
            else:
                tree = gen_tree(rng, rng.choice([0, 1, 1, 2, 3]), counter, allow_required=bare or (with_caller and rng.random() < 0.5),
                                pool=pool, bare=bare)
                trees.append(tree)
            caller = gen_inst(rng, tree) if (with_caller or (not bare and not constructible(tree))) else None
            regs.append({"tree": tree, "dest": DESTS[i], "caller": caller})
        reuse = len({r["tree"]["cls"] for r in regs}) < len(regs)
        # configurations in which set-up legitimately fails (C03's subject, not C01's): NONE raises on any name clash;
        # WITHOUT_ROOT drops the only component that tells several destinations apart
        names = []
        for r in regs:
            names += leaf_names_of(r["tree"])
        if cfg["cr"] == "NONE" and len(names) != len(set(names)):
            cfg["cr"] = "AUTO"
        # ALWAYS_MERGE merges ANY two wrappers that share a field name (also of different classes, also a nested with a
        # top-level one): that is C11's subject. Here: either no clash at all, or the designed usage — one class with
        # clash-free field names registered at several top-level destinations (then judged by the oracle only).
        if cfg["cr"] == "ALWAYS_MERGE" and len(names) != len(set(names)):
            single = len({r["tree"]["cls"] for r in regs}) == 1
            one = leaf_names_of(regs[0]["tree"])
            if not (single and len(one) == len(set(one)) and not has_children(regs[0]["tree"])):
                cfg["cr"] = "AUTO"
        if nreg > 1 and cfg["nest"] == "WITHOUT_ROOT":
            cfg["nest"] = "DEFAULT"
        case = {"op": "defaults.empty", "case": {"cfg": cfg, "api": api, "regs": regs}}
        if cfg["cr"] == "ALWAYS_MERGE" and reuse:
            case["model"] = False
        yield case


# -----------------------------------------------------------------------------------------------


def class_specs(tree, out, seen):
    """Universe specs (dependency order) for a tree"""
    if tree["cls"] in seen:
        return
    seen.add(tree["cls"])
    fields = []
    for f in tree["fields"]:
        if f["kind"] == "leaf":
            fields.append(dict(f["f"]))
        else:
            class_specs(f["tree"], out, seen)
            ty = {"k": "dc", "cls": f["tree"]["cls"]}
            if f["optional"]:
                ty = {"k": "opt", "inner": ty}
            k = f["dflt"]["kind"]
            if k == "missing":
                d = {"kind": "missing"}
            elif k == "none":
                d = {"kind": "value", "v": {"t": "none"}}
            elif k == "factory_cls":
                d = {"kind": "factory", "v": None}
                ty_for_factory = f["tree"]["cls"]
                fields.append({"name": f["name"], "ty": ty, "default": d, "_factory_cls": ty_for_factory})
                continue
            else:
                d = {"kind": "factory", "v": f["dflt"]["v"]}
            fields.append({"name": f["name"], "ty": ty, "default": d})
    b = tree.get("base")
    if b:
        # `class KB: <first n fields>` / `class K(KB): <the others> [+ one re-declared field with its real default]`
        own = fields[b["n"]:]
        inherited = []
        for f in fields[:b["n"]]:
            if f["name"] == b.get("override"):
                own = own + [f]
                f = dict(f, default=b["base_default"])
            inherited.append(f)
        out.append({"name": b["cls"], "fields": inherited})
        out.append({"name": tree["cls"], "fields": own, "bases": [b["cls"]]})
    else:
        out.append({"name": tree["cls"], "fields": fields})


def enums_of_tree(tree, out):
    from harness.props.c02 import enums_of

    leaves = [f["f"] for f in tree["fields"] if f["kind"] == "leaf"]
    out.update(enums_of(leaves))
    for f in tree["fields"]:
        if f["kind"] == "child":
            enums_of_tree(f["tree"], out)


def build_universe(regs):
    u = Universe()
    enums = {}
    for r in regs:
        enums_of_tree(r["tree"], enums)
    for cls, (members, values) in enums.items():
        u.enum(cls, members, values)
    specs, seen = [], set()
    for r in regs:
        class_specs(r["tree"], specs, seen)
    for s in specs:
        # Optional[dc] with default_factory=cls: trees.Universe only knows the plain-dc case
        for f in s["fields"]:
            if "_factory_cls" in f:
                f["default"] = {"kind": "factory_cls_named", "cls": f.pop("_factory_cls")}
        add_class(u, s)
    return u


def add_class(u, spec):
    """like Universe.add_class but with the `factory_cls_named` default kind"""
    fixed = []
    patch = {}
    for f in spec["fields"]:
        if f["default"]["kind"] == "factory_cls_named":
            patch[f["name"]] = u.classes[f["default"]["cls"]]
            f = dict(f, default={"kind": "missing"})
        fixed.append(f)
    fields = []
    for f in fixed:
        if f["name"] in patch:
            fields.append((f["name"], u.ty(f["ty"]), dataclasses.field(default_factory=patch[f["name"]])))
        else:
            tmp = Universe()
            tmp.classes, tmp.enums = u.classes, u.enums
            d = f.get("default", {"kind": "missing"})
            kw = {}
            if d["kind"] == "value":
                v = u.val(d["v"])
                if isinstance(v, (list, dict, set)):
                    kw["default_factory"] = (lambda vv: (lambda: type(vv)(vv)))(v)
                else:
                    kw["default"] = v
            elif d["kind"] == "factory":
                kw["default_factory"] = (lambda dv: (lambda: u.val(dv)))(d["v"])
            fields.append((f["name"], u.ty(f["ty"]), dataclasses.field(**kw)))
    cls = dataclasses.make_dataclass(spec["name"], fields, bases=tuple(u.classes[b] for b in spec.get("bases", [])))
    u.classes[spec["name"]] = cls
    return cls


def impl(case):
    import simple_parsing

    c = case["case"]
    try:
        u = build_universe(c["regs"])
    except TypeError as e:  # e.g. non-default argument follows default argument: generator artefact
        return {"build_error": str(e)}
    sp.reset_globals()
    first = _parse_once(c, u)
    if all(o.get("o") == "ok" for o in first["outs"]) and first.get("values"):
        # "equal to what the constructor produces" on EVERY parse: scribble on every mutable container of the first
        # result, then parse the empty command line again with a fresh parser over the same classes (fresh caller
        # instances): what comes back must still be the pristine defaults (nothing handed out may be shared with the
        # next parse)
        n_mut = sum(_scribble(v) for v in first["values"])
        if n_mut:
            second = _parse_once(c, u)
            first["outs_again"] = second["outs"]
            first["n_scribbled"] = n_mut
    first.pop("values", None)
    return first


def _scribble(x, seen=None):
    """append / insert into every list, dict and set reachable from a dataclass instance; returns how many were touched"""
    seen = set() if seen is None else seen
    if id(x) in seen:
        return 0
    seen.add(id(x))
    n = 0
    if dataclasses.is_dataclass(x) and not isinstance(x, type):
        for f in dataclasses.fields(x):
            n += _scribble(getattr(x, f.name), seen)
    elif isinstance(x, list):
        for it in list(x):
            n += _scribble(it, seen)
        x.append(x[0] if x else 0)
        n += 1
    elif isinstance(x, dict):
        x["__scribbled__"] = 1
        n += 1
    elif isinstance(x, set):
        x.add("__scribbled__")
        n += 1
    return n


def _parse_once(c, u):
    import simple_parsing

    outs = []
    refs = []
    values = []
    for r in c["regs"]:
        cls = u.classes[r["tree"]["cls"]]
        caller = u.val(r["caller"]) if r["caller"] is not None else None
        if caller is not None:
            refs.append(sp.cv(caller))
        else:
            ref = sp.run_outcome(lambda: cls())
            refs.append(sp.cv(ref["value"]) if ref["o"] == "ok" else {"ctor": ref["o"], "exc": ref.get("exc")})
    if c["api"] == "parse":
        r = c["regs"][0]
        cls = u.classes[r["tree"]["cls"]]
        caller = u.val(r["caller"]) if r["caller"] is not None else None
        res = sp.run_outcome(lambda: simple_parsing.parse(
            cls, args=[], default=caller, dest=r["dest"], conflict_resolution=sp.CR[c["cfg"]["cr"]],
            add_option_string_dash_variants=sp.DASH[c["cfg"]["dash"]], argument_generation_mode=sp.GEN[c["cfg"]["gen"]]))
        if res["o"] == "ok":
            outs.append({"o": "ok", "v": sp.cv(res["value"])})
            values.append(res["value"])
        else:
            outs.append({k: v for k, v in res.items() if k != "value"})
    else:
        def run():
            p = sp.make_parser(c["cfg"])
            for r in c["regs"]:
                cls = u.classes[r["tree"]["cls"]]
                caller = u.val(r["caller"]) if r["caller"] is not None else None
                p.add_arguments(cls, dest=r["dest"], default=caller)
            sp.decoy(c["cfg"])   # a parser constructed later with other settings must not matter
            return p.parse_args([])

        res = sp.run_outcome(run)
        if res["o"] == "ok":
            for r in c["regs"]:
                outs.append({"o": "ok", "v": sp.cv(getattr(res["value"], r["dest"]))})
                values.append(getattr(res["value"], r["dest"]))
        else:
            outs = [{k: v for k, v in res.items() if k != "value"}] * len(c["regs"])
    return {"outs": outs, "refs": refs, "values": values}


def inst_for_model(inst, tree):
    if inst is None or inst.get("t") == "none":
        return None
    vals = dict((k, v) for k, v in inst["v"])
    fields = []
    for f in tree["fields"]:
        if f["kind"] == "leaf":
            fields.append({"k": "leaf", "name": f["f"]["name"], "v": vals[f["f"]["name"]]})
        else:
            fields.append({"k": "sub", "name": f["name"], "v": inst_for_model(vals[f["name"]], f["tree"])})
    return {"cls": inst["cls"], "fields": fields}


def tree_for_model(tree):
    fields = []
    for f in tree["fields"]:
        if f["kind"] == "leaf":
            fields.append(f)
        else:
            d = dict(f["dflt"])
            if d["kind"] == "factory_inst":
                d["v"] = inst_for_model(d["v"], f["tree"])
            fields.append({"kind": "child", "name": f["name"], "optional": f["optional"], "dflt": d, "tree": tree_for_model(f["tree"])})
    return {"cls": tree["cls"], "fields": fields}


def strings_in(x, out):
    if isinstance(x, dict):
        if x.get("t") == "str":
            out.append(x["v"])
        for v in x.values():
            strings_in(v, out)
    elif isinstance(x, list):
        for v in x:
            strings_in(v, out)


def model_case(case, obs):
    c = case["case"]
    toks = []
    strings_in(c, toks)
    return {"regs": [{"tree": tree_for_model(r["tree"]), "caller": inst_for_model(r["caller"], r["tree"])} for r in c["regs"]],
            "floats": G.floats_table(toks)}


def project(case, obs):
    if "build_error" in obs:
        return obs
    outs = []
    for o in obs["outs"]:
        if o["o"] == "ok":
            outs.append({"o": "ok", "v": o["v"]})
        elif o["o"] == "exit":
            outs.append({"o": "exit", "code": o["code"]})
        else:
            outs.append({"o": "raise", "exc": o["exc"]})
    return {"outs": outs}


def model_unmodelled(mo):
    return any(o.get("o") == "unmodelled" for o in mo.get("outs", []))


def oracle(case, obs):
    c = case["case"]
    fails = []
    if "build_error" in obs:
        return fails
    names = []
    for r in c["regs"]:
        names += leaf_names_of(r["tree"])
    clash = len(names) != len(set(names))
    unbuildable = any("ctor" in ref for ref in obs["refs"])
    for r, o, ref in zip(c["regs"], obs["outs"], obs["refs"]):
        if "ctor" in ref:
            continue  # the class is not constructible by itself and no default was supplied: outside the property
        if unbuildable and o["o"] != "ok":
            continue  # one parser: another destination's missing required value fails the whole parse
        if o["o"] == "raise" and o.get("exc") == "ConflictResolutionError" and clash:
            continue  # set-up may give up on a forest with real name clashes (allowed by C03); not C01's subject
        if o["o"] != "ok":
            fails.append({"clause": "accepts-empty", "dest": r["dest"], "out": o.get("o"), "exc": o.get("exc"),
                          "detail": f"dest {r['dest']}: empty command line was not accepted: {o} (cfg {c['cfg']}, api {c['api']})"})
            continue
        if o["v"] != ref:
            fails.append({"clause": "equals-default", "dest": r["dest"], "got": o["v"], "ref": ref,
                          "detail": f"dest {r['dest']}: got {o['v']} but {'the caller instance' if r['caller'] else 'cls()'} is {ref} (cfg {c['cfg']}, api {c['api']})"})
    for r, o, o1, ref in zip(c["regs"], obs.get("outs_again", []), obs["outs"], obs["refs"]):
        if "ctor" in ref:
            continue
        # judged against the first (pristine) result as well, so that a leaf already reported by `equals-default`
        # is not reported a second time under this clause
        if (o.get("o") != "ok" or o["v"] != ref) and o != o1:
            fails.append({"clause": "equals-default-again", "dest": r["dest"], "got": o.get("v", o), "ref": ref,
                          "detail": f"dest {r['dest']}: after the containers of a first result were modified, a FRESH parser's empty parse gives "
                                    f"{o.get('v', o)} but {'the caller instance' if r['caller'] else 'cls()'} is {ref} (cfg {c['cfg']}, api {c['api']})"})
    return fails


def depth_of(tree):
    return 1 + max([depth_of(f["tree"]) for f in tree["fields"] if f["kind"] == "child"], default=0)


def nontrivial(case, obs):
    c = case["case"]
    return len(c["regs"]) >= 2 or any(r["caller"] is not None or depth_of(r["tree"]) >= 2 for r in c["regs"])


def _walk(tree):
    yield tree
    for f in tree["fields"]:
        if f["kind"] == "child":
            yield from _walk(f["tree"])


def _falsy(v):
    return (v["t"] in ("int", "float") and float(v["v"]) == 0) or (v["t"] in ("str", "list", "tuple") and len(v["v"]) == 0) \
        or (v["t"] == "bool" and not v["v"]) or (v["t"] == "enum" and (v.get("cls"), v["v"]) in (("Level", "NONE"), ("Prio", "P0")))


def _caller_nested_none(inst, tree):
    """does the caller instance leave an Optional dataclass MEMBER (any depth) at None?"""
    if inst is None:
        return False
    vals = {k: v for k, v in inst["v"]}
    for f in tree["fields"]:
        if f["kind"] == "child":
            v = vals.get(f["name"])
            if v is None or v.get("t") == "none":
                return True
            if _caller_nested_none(v, f["tree"]):
                return True
    return False


def tags(case, obs):
    c = case["case"]
    t = [f"cr:{c['cfg']['cr']}", f"api:{c['api']}", f"regs:{len(c['regs'])}", f"depth:{max(depth_of(r['tree']) for r in c['regs'])}",
         f"caller:{any(r['caller'] is not None for r in c['regs'])}", f"gen:{c['cfg']['gen']}", f"dash:{c['cfg']['dash']}", f"nest:{c['cfg']['nest']}"]
    extra = set()
    classes_seen = []
    for r in c["regs"]:
        if r["caller"] is not None and _caller_nested_none(r["caller"], r["tree"]):
            extra.add("caller-nested-none")
        if r["caller"] is None and not constructible(r["tree"]):
            extra.add("no-ctor-no-caller")
        inside = [n["cls"] for n in _walk(r["tree"])]
        if len(inside) != len(set(inside)):
            extra.add("class-twice-in-tree")
        if set(inside) & set(classes_seen):
            extra.add("class-shared-across-regs")
        classes_seen += inside
        for node in _walk(r["tree"]):
            if not node["fields"]:
                extra.add("empty-class")
            if node.get("base"):
                extra.add("inherit:override" if node["base"].get("override") else "inherit")
            for f in node["fields"]:
                if f["kind"] == "child":
                    extra.add("member:" + f["dflt"]["kind"] + (":opt" if f["optional"] else ""))
                    continue
                ty = f["f"]["ty"]
                inner = ty
                if ty["k"] == "opt":
                    extra.add("leaf:opt")
                    inner = ty["inner"]
                k = inner["k"]
                if k == "enum" and inner["cls"] in ("Level", "Prio"):
                    k = "enum-mixin"
                extra.add("leaf:" + k)
                d = f["f"]["default"]
                if d["kind"] == "missing":
                    extra.add("leaf-default:missing")
                elif d["v"]["t"] == "none":
                    extra.add("leaf-default:none")
                else:
                    if _falsy(d["v"]):
                        extra.add("leaf-default:falsy")
                    if k == "float" and d["v"]["t"] == "int":
                        extra.add("leaf-default:int-for-float")
    t += sorted(extra)
    if "outs" in obs:
        t += ["out:" + o["o"] + (":" + str(o.get("exc") or o.get("code")) if o["o"] != "ok" else "") for o in obs["outs"]]
        t.append("reparse-probe:" + ("0" if not obs.get("n_scribbled") else "1+"))
    else:
        t.append("build_error")
    return t


def differing_leaves(got, ref, path=""):
    """paths where two canonical value trees differ"""
    if got == ref:
        return []
    if isinstance(got, dict) and isinstance(ref, dict) and got.get("t") == "inst" and ref.get("t") == "inst" and got.get("cls") == ref.get("cls"):
        out = []
        g, r = dict(map(tuple, got["v"])) if False else {k: v for k, v in got["v"]}, {k: v for k, v in ref["v"]}
        for k in r:
            out += differing_leaves(g.get(k), r[k], path + "." + k)
        return out
    return [(path, got, ref)]


def find_field(tree, path):
    parts = [p for p in path.split(".") if p]
    cur = tree
    f = None
    for p in parts:
        f = next((x for x in cur["fields"] if (x["f"]["name"] if x["kind"] == "leaf" else x["name"]) == p), None)
        if f is None:
            return None
        if f["kind"] == "child":
            cur = f["tree"]
    return f


def _optional_factory(case, obs, fail):
    """D11: every differing leaf is an Optional[dataclass] member for which the constructor (through its own
    default_factory or through the default_factory instance of an enclosing member) yields an instance, no caller default
    instance was supplied for this destination, and the parse returned None there (parsing.py:1145 only looks at the
    default handed down from a caller instance)."""
    if fail.get("clause") != "equals-default":
        return False
    r = next(x for x in case["case"]["regs"] if x["dest"] == fail["dest"])
    if r["caller"] is not None:
        return False
    diffs = differing_leaves(fail["got"], fail["ref"])
    if not diffs:
        return False
    for path, got, ref in diffs:
        f = find_field(r["tree"], path)
        if not (f and f["kind"] == "child" and f["optional"]
                and isinstance(got, dict) and got.get("t") == "none" and isinstance(ref, dict) and ref.get("t") == "inst"):
            return False
    return True


def _merge_list_default(case, obs, fail):
    """D12 (shared with C11): ALWAYS_MERGE, one class at n destinations, a list/tuple field whose default has exactly n
    items: the default is split element-wise over the destinations."""
    c = case["case"]
    if fail.get("clause") != "equals-default" or c["cfg"]["cr"] != "ALWAYS_MERGE":
        return False
    n = len(c["regs"])
    if n < 2 or len({r["tree"]["cls"] for r in c["regs"]}) != 1:
        return False
    r = next(x for x in c["regs"] if x["dest"] == fail["dest"])
    diffs = differing_leaves(fail["got"], fail["ref"])
    if not diffs:
        return False
    for path, got, ref in diffs:
        f = find_field(r["tree"], path)
        if not (f and f["kind"] == "leaf" and isinstance(ref, dict) and ref.get("t") in ("list", "tuple") and len(ref["v"]) == n):
            return False
    return True


def _leaf_default_value(f):
    d = f["f"]["default"]
    return d["v"] if d["kind"] == "value" else None


BOOL_WORDS = {"true": True, "yes": True, "y": True, "t": True, "1": True, "false": False, "no": False, "n": False, "f": False, "0": False}


def clean_union_conversion(alts, s):
    """What the DOCUMENTED rule makes of a str default of a Union-typed field (argparse runs str defaults through type=,
    the members' parsers are tried in declaration order, the first that accepts wins): an independent transcription —
    bool: true/false/yes/no/y/n/t/f/1/0, case-insensitive, surrounding blanks ignored; int / float: Python's int() /
    float() syntax; str: the string itself. Returns the canonical converted value, None when the string stays a string,
    and "unknown" for a member kind this transcription does not cover (then nothing is attributed)."""
    for a in alts:
        k = a["k"]
        if k == "str":
            return None
        if k == "bool":
            w = s.strip().lower()
            if w in BOOL_WORDS:
                return {"t": "bool", "v": BOOL_WORDS[w]}
        elif k == "int":
            try:
                return {"t": "int", "v": str(int(s))}
            except ValueError:
                pass
        elif k == "float":
            try:
                return {"t": "float", "v": repr(float(s))}
            except (ValueError, OverflowError):
                pass
        else:
            return "unknown"
    return None


def _clean_converted(inner, v):
    """is `v` a str default of the Union annotation `inner` that the documented rule converts? -> the converted value"""
    if inner["k"] != "union" or not isinstance(v, dict) or v.get("t") != "str":
        return None
    exp = clean_union_conversion(inner["alts"], v["v"])
    return exp if isinstance(exp, dict) else None


def _has_converted_default_leaf(tree, kinds):
    """does the tree (any depth) hold a leaf whose OWN default is rewritten on the way through argparse/postprocess BY THE
    DOCUMENTED RULES: 'union' = a str default of a Union-typed leaf that an earlier member's documented vocabulary accepts;
    'literal' = a Literal default shadowed by a later value with the same str()"""
    for f in tree["fields"]:
        if f["kind"] == "leaf":
            t = f["f"]["ty"]
            inner = t["inner"] if t["k"] == "opt" else t
            v = _leaf_default_value(f)
            if v is None:
                continue
            if "union" in kinds and _clean_converted(inner, v) is not None:
                return True
            if "literal" in kinds and inner["k"] == "literal" and G.literal_expressible(inner, v) != v:
                return True
        elif _has_converted_default_leaf(f["tree"], kinds):
            return True
    return False


def _explained(r, path, got, ref):
    """why may this leaf / member differ for a KNOWN reason? 'union' | 'literal' | None. Exact: only what the documented
    conversion rules do to this very default — a default those rules keep but the code converts is NOT explained."""
    f = find_field(r["tree"], path)
    if not f:
        return None
    if f["kind"] == "child":
        # an Optional member holding such a leaf — directly or, since fixes 3f531df / f635f07 (`_is_at_default` looks
        # through the nested members), at ANY depth below it — looks 'touched' and is built instead of staying None
        if (f["optional"] and isinstance(got, dict) and got.get("t") == "inst" and isinstance(ref, dict) and ref.get("t") == "none"):
            if _has_converted_default_leaf(f["tree"], {"union"}):
                return "union"
            if _has_converted_default_leaf(f["tree"], {"literal"}):
                return "literal"
        return None
    t = f["f"]["ty"]
    inner = t["inner"] if t["k"] == "opt" else t
    exp = _clean_converted(inner, ref)
    if exp is not None and got == exp:
        return "union"
    if inner["k"] == "literal" and isinstance(ref, dict) and G.literal_expressible(inner, ref) != ref and got == G.literal_expressible(inner, ref):
        return "literal"
    return None


def _converted_default(kind):
    def pred(case, obs, fail):
        if fail.get("clause") != "equals-default":
            return False
        r = next(x for x in case["case"]["regs"] if x["dest"] == fail["dest"])
        diffs = differing_leaves(fail["got"], fail["ref"])
        if not diffs:
            return False
        why = [_explained(r, path, got, ref) for path, got, ref in diffs]
        return all(w is not None for w in why) and kind in why
    return pred


# a Union-typed leaf whose default is a str that an earlier Union member's parser accepts ('0' for Union[float,str]):
# argparse converts string defaults through type=, so the default comes back converted
_union_str_default = _converted_default("union")
# a Literal leaf whose default has the same str() as a LATER value of the Literal (`Literal["0", 0] = "0"`): the default is
# looked up by name in {str(v): v} (field_wrapper.py:891), which keeps the last value: "0" comes back as the int 0
_literal_collision = _converted_default("literal")


def _merge_optional_list_default(case, obs, fail):
    """ALWAYS_MERGE, one class at n destinations, an Optional[List[T]] field whose default is a list of length != n:
    the default is neither wrapped per destination nor recognised as per-destination list -> AssertionError
    'Not the same number of default values and destinations' at set-up (field_wrapper.py:780-788)."""
    c = case["case"]
    if fail.get("clause") != "accepts-empty" or fail.get("exc") != "AssertionError" or c["cfg"]["cr"] != "ALWAYS_MERGE":
        return False
    if len(c["regs"]) < 2 or len({r["tree"]["cls"] for r in c["regs"]}) != 1:
        return False
    for f in c["regs"][0]["tree"]["fields"]:
        if f["kind"] == "leaf":
            t, d = f["f"]["ty"], f["f"]["default"]
            if t["k"] == "opt" and t["inner"]["k"] == "list" and d["kind"] == "value" and d["v"]["t"] == "list" and len(d["v"]["v"]) != len(c["regs"]):
                return True
    return False


def skip_model(case, obs):
    """a ConflictResolutionError at set-up (allowed by C03 for forests with real clashes) is outside this model"""
    return any(o.get("o") == "raise" and o.get("exc") == "ConflictResolutionError" for o in obs.get("outs", []))


FINDINGS = {"C01-union-str-default-converted": _union_str_default,
            "C01-literal-name-collision": _literal_collision}
