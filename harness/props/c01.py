"""C01 — an empty command line reproduces the dataclass defaults at every destination."""
from __future__ import annotations

import copy
import dataclasses

from harness.core import gen_types as G
from harness.core import sp
from harness.core.trees import Universe

PID = "C01"
RULE = ("a case is a parser set-up: 1-3 registrations of dataclass trees (leaf fields over the CLI type grammar with "
        "defaults / default factories incl. falsy values, nested members to depth 3, Optional members with None / factory "
        "defaults, inheritance, the same class at several destinations) x one of the 4x3x2x3 parser configurations x "
        "{parse(), ArgumentParser} x {no caller default, full default instance, instance with nested None}; the empty "
        "command line is parsed and every destination compared with the constructor's own result (or the caller's "
        "instance). Non-trivial = a nested member, a caller default or >= 2 registrations; distinct by canonical JSON.")
ASSUMPTIONS = ["dataclasses' constructor semantics (it is the reference)", "default factories are pure (constant functions)"]
TRUSTED = ["stdlib dataclasses / argparse"]
EXHAUSTIVE = {"quick": False, "thorough": False}
MANIFEST = {
    "text": ("Proof (partial): Lean model of the default cascade (caller instance pushed down, wrapper defaults, field "
             "default / factory), argparse's string-default conversion, postprocess and bottom-up instantiation with the "
             "Optional rule (an Optional member is None only when its own default is None, since fix 14a7541); theorems by "
             "mutual induction over the class tree, any depth and width: for trees whose leaves are stable under "
             "conversion+postprocess the empty parse equals the constructor's own result (c01_no_caller, "
             "c01_member_factory), and with a caller instance it equals that instance (c01_caller_default). The one named "
             "gap: leaf stability fails for a string held by a Union-typed leaf — Union[float,str] default '0' is converted "
             "to 0.0 by argparse (witness theorem c01_union_default_witness, open finding C01-union-str-default-converted). "
             "Everywhere else on the grammar stability is proved, not assumed (leafStable_of_stableDefault: list, tuple, "
             "variadic tuple, str, bool, Path, Enum, Optional[...] holding None or a value, int/float/Any, Union holding a "
             "non-string), so c01_caller_default_typed needs no stability hypothesis: any instance whose leaves are typed "
             "values comes back unchanged. The model is configuration-free (option spelling cannot matter "
             "for an empty argv); that the real parser agrees under all 72 configurations and both APIs is what the "
             "correspondence and the oracle check on every run."),
    "note": ("Trusted: Lean kernel + standard axioms; harness. Modelled not verified: field_wrapper.py:711-821, "
             "dataclass_wrapper.py:94-179,256-315, parsing.py:794-991,1135-1161. ALWAYS_MERGE with a reused class is outside "
             "this model (merged defaults, C11): those cases are run on the real code and judged by the oracle only."),
    "technique": "Lean 4 mutual induction over class trees + differential check under all parser configurations",
    "design_ref": "DESIGN.md section 5, C01",
}

LEAF_NAMES = ["a", "b", "lr", "size", "name", "flag", "items", "tup", "mode", "w", "path", "n_items", "q", "x"]
CHILD_NAMES = ["opt", "model", "sub", "inner", "child", "m"]
DESTS = ["cfg", "a1", "b2", "train"]
ALL_CR = ["AUTO", "EXPLICIT", "NONE", "ALWAYS_MERGE"]


def gen_leaf(rng, nm, allow_required):
    t = G.gen_ty(rng, p_opt=0.2, p_union=0.03)
    if allow_required and rng.random() < 0.2:
        d = {"kind": "missing"}
    elif t["k"] == "opt" and rng.random() < 0.5:
        d = {"kind": "value", "v": {"t": "none"}}
    else:
        d = {"kind": "value", "v": G.gen_value(rng, t)}
    return {"kind": "leaf", "f": {"name": nm, "ty": t, "default": d}}


def gen_inst(rng, tree):
    fields = []
    for f in tree["fields"]:
        if f["kind"] == "leaf":
            fields.append([f["f"]["name"], G.gen_value(rng, f["f"]["ty"])])
        else:
            if f["optional"] and rng.random() < 0.35:
                fields.append([f["name"], {"t": "none"}])
            else:
                fields.append([f["name"], gen_inst(rng, f["tree"])])
    return {"t": "inst", "cls": tree["cls"], "v": fields}


def gen_tree(rng, depth, counter, allow_required=False, names=None):
    cls = f"K{counter[0]}"
    counter[0] += 1
    n_leaf = rng.choice([0, 1, 1, 2, 2, 3, 4])
    n_child = rng.choice([0, 1, 1, 2]) if depth > 0 else 0
    if n_leaf + n_child == 0:
        n_leaf = 1
    leaf_names = rng.sample(LEAF_NAMES, n_leaf)
    child_names = rng.sample(CHILD_NAMES, n_child)
    fields = [gen_leaf(rng, nm, allow_required) for nm in leaf_names]
    for nm in child_names:
        sub = gen_tree(rng, depth - 1, counter, allow_required)
        optional = rng.random() < 0.4
        r = rng.random()
        if optional:
            kind = "none" if r < 0.45 else ("factory_cls" if r < 0.75 else "factory_inst")
        else:
            kind = "factory_cls" if r < 0.6 else "factory_inst"
            if allow_required and r > 0.9:
                kind = "missing"
        d = {"kind": kind}
        if kind == "factory_inst":
            d["v"] = gen_inst(rng, sub)
        fields.append({"kind": "child", "name": nm, "optional": optional, "dflt": d, "tree": sub})
    rng.shuffle(fields)
    # dataclasses: fields without default first
    def has_default(f):
        return (f["f"]["default"]["kind"] != "missing") if f["kind"] == "leaf" else (f["dflt"]["kind"] != "missing")
    fields.sort(key=has_default)
    return {"cls": cls, "fields": fields}


def leaf_names_of(tree):
    out = []
    for f in tree["fields"]:
        if f["kind"] == "leaf":
            out.append(f["f"]["name"])
        else:
            out += leaf_names_of(f["tree"])
    return out


def has_children(tree):
    return any(f["kind"] == "child" for f in tree["fields"])


def constructible(tree):
    for f in tree["fields"]:
        if f["kind"] == "leaf":
            if f["f"]["default"]["kind"] == "missing":
                return False
        else:
            if f["dflt"]["kind"] == "missing":
                return False
            if f["dflt"]["kind"] == "factory_cls" and not constructible(f["tree"]):
                return False
    return True


def gen(rng, tier):
    n = 500 if tier == "quick" else 18000
    for _ in range(n):
        counter = [0]
        with_caller = rng.random() < 0.45
        api = rng.choice(["parser", "parser", "parse"])
        cfg = {"cr": rng.choice(ALL_CR), "dash": rng.choice(sp.ALL_DASH), "gen": rng.choice(sp.ALL_GEN), "nest": rng.choice(sp.ALL_NEST)}
        nreg = 1 if api == "parse" else rng.choice([1, 1, 2, 3])
        regs = []
        trees = []
        for i in range(nreg):
            if trees and rng.random() < 0.5:
                tree = copy.deepcopy(rng.choice(trees))  # the same class at several destinations
            else:
                tree = gen_tree(rng, rng.choice([0, 1, 1, 2, 3]), counter, allow_required=with_caller and rng.random() < 0.5)
                trees.append(tree)
            caller = gen_inst(rng, tree) if (with_caller or not constructible(tree)) else None
            regs.append({"tree": tree, "dest": DESTS[i], "caller": caller})
        reuse = len({r["tree"]["cls"] for r in regs}) < len(regs)
        # configurations in which set-up legitimately fails (C03's subject, not C01's): NONE raises on any name clash;
        # WITHOUT_ROOT drops the only component that tells several destinations apart
        names = []
        for r in regs:
            names += leaf_names_of(r["tree"])
        if cfg["cr"] == "NONE" and len(names) != len(set(names)):
            cfg["cr"] = "AUTO"
        # ALWAYS_MERGE merges ANY two wrappers that share a field name (also of different classes, also a nested with a
        # top-level one): that is C11's subject. Here: either no clash at all, or the designed usage — one class with
        # clash-free field names registered at several top-level destinations (then judged by the oracle only).
        if cfg["cr"] == "ALWAYS_MERGE" and len(names) != len(set(names)):
            single = len({r["tree"]["cls"] for r in regs}) == 1
            one = leaf_names_of(regs[0]["tree"])
            if not (single and len(one) == len(set(one)) and not has_children(regs[0]["tree"])):
                cfg["cr"] = "AUTO"
        if nreg > 1 and cfg["nest"] == "WITHOUT_ROOT":
            cfg["nest"] = "DEFAULT"
        case = {"op": "defaults.empty", "case": {"cfg": cfg, "api": api, "regs": regs}}
        if cfg["cr"] == "ALWAYS_MERGE" and reuse:
            case["model"] = False
        yield case


# -----------------------------------------------------------------------------------------------


def class_specs(tree, out, seen):
    """Universe specs (dependency order) for a tree"""
    if tree["cls"] in seen:
        return
    seen.add(tree["cls"])
    fields = []
    for f in tree["fields"]:
        if f["kind"] == "leaf":
            fields.append(dict(f["f"]))
        else:
            class_specs(f["tree"], out, seen)
            ty = {"k": "dc", "cls": f["tree"]["cls"]}
            if f["optional"]:
                ty = {"k": "opt", "inner": ty}
            k = f["dflt"]["kind"]
            if k == "missing":
                d = {"kind": "missing"}
            elif k == "none":
                d = {"kind": "value", "v": {"t": "none"}}
            elif k == "factory_cls":
                d = {"kind": "factory", "v": None}
                ty_for_factory = f["tree"]["cls"]
                fields.append({"name": f["name"], "ty": ty, "default": d, "_factory_cls": ty_for_factory})
                continue
            else:
                d = {"kind": "factory", "v": f["dflt"]["v"]}
            fields.append({"name": f["name"], "ty": ty, "default": d})
    out.append({"name": tree["cls"], "fields": fields})


def enums_of_tree(tree, out):
    from harness.props.c02 import enums_of

    leaves = [f["f"] for f in tree["fields"] if f["kind"] == "leaf"]
    out.update(enums_of(leaves))
    for f in tree["fields"]:
        if f["kind"] == "child":
            enums_of_tree(f["tree"], out)


def build_universe(regs):
    u = Universe()
    enums = {}
    for r in regs:
        enums_of_tree(r["tree"], enums)
    for cls, (members, values) in enums.items():
        u.enum(cls, members, values)
    specs, seen = [], set()
    for r in regs:
        class_specs(r["tree"], specs, seen)
    for s in specs:
        # Optional[dc] with default_factory=cls: trees.Universe only knows the plain-dc case
        for f in s["fields"]:
            if "_factory_cls" in f:
                f["default"] = {"kind": "factory_cls_named", "cls": f.pop("_factory_cls")}
        add_class(u, s)
    return u


def add_class(u, spec):
    """like Universe.add_class but with the `factory_cls_named` default kind"""
    fixed = []
    patch = {}
    for f in spec["fields"]:
        if f["default"]["kind"] == "factory_cls_named":
            patch[f["name"]] = u.classes[f["default"]["cls"]]
            f = dict(f, default={"kind": "missing"})
        fixed.append(f)
    fields = []
    for f in fixed:
        if f["name"] in patch:
            fields.append((f["name"], u.ty(f["ty"]), dataclasses.field(default_factory=patch[f["name"]])))
        else:
            tmp = Universe()
            tmp.classes, tmp.enums = u.classes, u.enums
            d = f.get("default", {"kind": "missing"})
            kw = {}
            if d["kind"] == "value":
                v = u.val(d["v"])
                if isinstance(v, (list, dict, set)):
                    kw["default_factory"] = (lambda vv: (lambda: type(vv)(vv)))(v)
                else:
                    kw["default"] = v
            elif d["kind"] == "factory":
                kw["default_factory"] = (lambda dv: (lambda: u.val(dv)))(d["v"])
            fields.append((f["name"], u.ty(f["ty"]), dataclasses.field(**kw)))
    cls = dataclasses.make_dataclass(spec["name"], fields)
    u.classes[spec["name"]] = cls
    return cls


def impl(case):
    import simple_parsing

    c = case["case"]
    try:
        u = build_universe(c["regs"])
    except TypeError as e:  # e.g. non-default argument follows default argument: generator artefact
        return {"build_error": str(e)}
    sp.reset_globals()
    first = _parse_once(c, u)
    if all(o.get("o") == "ok" for o in first["outs"]) and first.get("values"):
        # "equal to what the constructor produces" on EVERY parse: scribble on every mutable container of the first
        # result, then parse the empty command line again with a fresh parser over the same classes (fresh caller
        # instances): what comes back must still be the pristine defaults (nothing handed out may be shared with the
        # next parse)
        n_mut = sum(_scribble(v) for v in first["values"])
        if n_mut:
            second = _parse_once(c, u)
            first["outs_again"] = second["outs"]
            first["n_scribbled"] = n_mut
    first.pop("values", None)
    return first


def _scribble(x, seen=None):
    """append / insert into every list, dict and set reachable from a dataclass instance; returns how many were touched"""
    seen = set() if seen is None else seen
    if id(x) in seen:
        return 0
    seen.add(id(x))
    n = 0
    if dataclasses.is_dataclass(x) and not isinstance(x, type):
        for f in dataclasses.fields(x):
            n += _scribble(getattr(x, f.name), seen)
    elif isinstance(x, list):
        for it in list(x):
            n += _scribble(it, seen)
        x.append(x[0] if x else 0)
        n += 1
    elif isinstance(x, dict):
        x["__scribbled__"] = 1
        n += 1
    elif isinstance(x, set):
        x.add("__scribbled__")
        n += 1
    return n


def _parse_once(c, u):
    import simple_parsing

    outs = []
    refs = []
    values = []
    for r in c["regs"]:
        cls = u.classes[r["tree"]["cls"]]
        caller = u.val(r["caller"]) if r["caller"] is not None else None
        if caller is not None:
            refs.append(sp.cv(caller))
        else:
            ref = sp.run_outcome(lambda: cls())
            refs.append(sp.cv(ref["value"]) if ref["o"] == "ok" else {"ctor": ref["o"], "exc": ref.get("exc")})
    if c["api"] == "parse":
        r = c["regs"][0]
        cls = u.classes[r["tree"]["cls"]]
        caller = u.val(r["caller"]) if r["caller"] is not None else None
        res = sp.run_outcome(lambda: simple_parsing.parse(
            cls, args=[], default=caller, dest=r["dest"], conflict_resolution=sp.CR[c["cfg"]["cr"]],
            add_option_string_dash_variants=sp.DASH[c["cfg"]["dash"]], argument_generation_mode=sp.GEN[c["cfg"]["gen"]]))
        if res["o"] == "ok":
            outs.append({"o": "ok", "v": sp.cv(res["value"])})
            values.append(res["value"])
        else:
            outs.append({k: v for k, v in res.items() if k != "value"})
    else:
        def run():
            p = sp.make_parser(c["cfg"])
            for r in c["regs"]:
                cls = u.classes[r["tree"]["cls"]]
                caller = u.val(r["caller"]) if r["caller"] is not None else None
                p.add_arguments(cls, dest=r["dest"], default=caller)
            sp.decoy(c["cfg"])   # a parser constructed later with other settings must not matter
            return p.parse_args([])

        res = sp.run_outcome(run)
        if res["o"] == "ok":
            for r in c["regs"]:
                outs.append({"o": "ok", "v": sp.cv(getattr(res["value"], r["dest"]))})
                values.append(getattr(res["value"], r["dest"]))
        else:
            outs = [{k: v for k, v in res.items() if k != "value"}] * len(c["regs"])
    return {"outs": outs, "refs": refs, "values": values}


def inst_for_model(inst, tree):
    if inst is None or inst.get("t") == "none":
        return None
    vals = dict((k, v) for k, v in inst["v"])
    fields = []
    for f in tree["fields"]:
        if f["kind"] == "leaf":
            fields.append({"k": "leaf", "name": f["f"]["name"], "v": vals[f["f"]["name"]]})
        else:
            fields.append({"k": "sub", "name": f["name"], "v": inst_for_model(vals[f["name"]], f["tree"])})
    return {"cls": inst["cls"], "fields": fields}


def tree_for_model(tree):
    fields = []
    for f in tree["fields"]:
        if f["kind"] == "leaf":
            fields.append(f)
        else:
            d = dict(f["dflt"])
            if d["kind"] == "factory_inst":
                d["v"] = inst_for_model(d["v"], f["tree"])
            fields.append({"kind": "child", "name": f["name"], "optional": f["optional"], "dflt": d, "tree": tree_for_model(f["tree"])})
    return {"cls": tree["cls"], "fields": fields}


def strings_in(x, out):
    if isinstance(x, dict):
        if x.get("t") == "str":
            out.append(x["v"])
        for v in x.values():
            strings_in(v, out)
    elif isinstance(x, list):
        for v in x:
            strings_in(v, out)


def model_case(case, obs):
    c = case["case"]
    toks = []
    strings_in(c, toks)
    return {"regs": [{"tree": tree_for_model(r["tree"]), "caller": inst_for_model(r["caller"], r["tree"])} for r in c["regs"]],
            "floats": G.floats_table(toks)}


def project(case, obs):
    if "build_error" in obs:
        return obs
    outs = []
    for o in obs["outs"]:
        if o["o"] == "ok":
            outs.append({"o": "ok", "v": o["v"]})
        elif o["o"] == "exit":
            outs.append({"o": "exit", "code": o["code"]})
        else:
            outs.append({"o": "raise", "exc": o["exc"]})
    return {"outs": outs}


def model_unmodelled(mo):
    return any(o.get("o") == "unmodelled" for o in mo.get("outs", []))


def oracle(case, obs):
    c = case["case"]
    fails = []
    if "build_error" in obs:
        return fails
    names = []
    for r in c["regs"]:
        names += leaf_names_of(r["tree"])
    clash = len(names) != len(set(names))
    for r, o, ref in zip(c["regs"], obs["outs"], obs["refs"]):
        if "ctor" in ref:
            continue  # the class is not constructible by itself and no default was supplied: outside the property
        if o["o"] == "raise" and o.get("exc") == "ConflictResolutionError" and clash:
            continue  # set-up may give up on a forest with real name clashes (allowed by C03); not C01's subject
        if o["o"] != "ok":
            fails.append({"clause": "accepts-empty", "dest": r["dest"], "out": o.get("o"), "exc": o.get("exc"),
                          "detail": f"dest {r['dest']}: empty command line was not accepted: {o} (cfg {c['cfg']}, api {c['api']})"})
            continue
        if o["v"] != ref:
            fails.append({"clause": "equals-default", "dest": r["dest"], "got": o["v"], "ref": ref,
                          "detail": f"dest {r['dest']}: got {o['v']} but {'the caller instance' if r['caller'] else 'cls()'} is {ref} (cfg {c['cfg']}, api {c['api']})"})
    for r, o, o1, ref in zip(c["regs"], obs.get("outs_again", []), obs["outs"], obs["refs"]):
        if "ctor" in ref:
            continue
        # judged against the first (pristine) result as well, so that a leaf already reported by `equals-default`
        # is not reported a second time under this clause
        if (o.get("o") != "ok" or o["v"] != ref) and o != o1:
            fails.append({"clause": "equals-default-again", "dest": r["dest"], "got": o.get("v", o), "ref": ref,
                          "detail": f"dest {r['dest']}: after the containers of a first result were modified, a FRESH parser's empty parse gives "
                                    f"{o.get('v', o)} but {'the caller instance' if r['caller'] else 'cls()'} is {ref} (cfg {c['cfg']}, api {c['api']})"})
    return fails


def depth_of(tree):
    return 1 + max([depth_of(f["tree"]) for f in tree["fields"] if f["kind"] == "child"], default=0)


def nontrivial(case, obs):
    c = case["case"]
    return len(c["regs"]) >= 2 or any(r["caller"] is not None or depth_of(r["tree"]) >= 2 for r in c["regs"])


def tags(case, obs):
    c = case["case"]
    t = [f"cr:{c['cfg']['cr']}", f"api:{c['api']}", f"regs:{len(c['regs'])}", f"depth:{max(depth_of(r['tree']) for r in c['regs'])}",
         f"caller:{any(r['caller'] is not None for r in c['regs'])}", f"gen:{c['cfg']['gen']}", f"dash:{c['cfg']['dash']}", f"nest:{c['cfg']['nest']}"]
    if "outs" in obs:
        t += ["out:" + o["o"] for o in obs["outs"]]
    else:
        t.append("build_error")
    return t


def differing_leaves(got, ref, path=""):
    """paths where two canonical value trees differ"""
    if got == ref:
        return []
    if isinstance(got, dict) and isinstance(ref, dict) and got.get("t") == "inst" and ref.get("t") == "inst" and got.get("cls") == ref.get("cls"):
        out = []
        g, r = dict(map(tuple, got["v"])) if False else {k: v for k, v in got["v"]}, {k: v for k, v in ref["v"]}
        for k in r:
            out += differing_leaves(g.get(k), r[k], path + "." + k)
        return out
    return [(path, got, ref)]


def find_field(tree, path):
    parts = [p for p in path.split(".") if p]
    cur = tree
    f = None
    for p in parts:
        f = next((x for x in cur["fields"] if (x["f"]["name"] if x["kind"] == "leaf" else x["name"]) == p), None)
        if f is None:
            return None
        if f["kind"] == "child":
            cur = f["tree"]
    return f


def _optional_factory(case, obs, fail):
    """D11: every differing leaf is an Optional[dataclass] member for which the constructor (through its own
    default_factory or through the default_factory instance of an enclosing member) yields an instance, no caller default
    instance was supplied for this destination, and the parse returned None there (parsing.py:1145 only looks at the
    default handed down from a caller instance)."""
    if fail.get("clause") != "equals-default":
        return False
    r = next(x for x in case["case"]["regs"] if x["dest"] == fail["dest"])
    if r["caller"] is not None:
        return False
    diffs = differing_leaves(fail["got"], fail["ref"])
    if not diffs:
        return False
    for path, got, ref in diffs:
        f = find_field(r["tree"], path)
        if not (f and f["kind"] == "child" and f["optional"]
                and isinstance(got, dict) and got.get("t") == "none" and isinstance(ref, dict) and ref.get("t") == "inst"):
            return False
    return True


def _merge_list_default(case, obs, fail):
    """D12 (shared with C11): ALWAYS_MERGE, one class at n destinations, a list/tuple field whose default has exactly n
    items: the default is split element-wise over the destinations."""
    c = case["case"]
    if fail.get("clause") != "equals-default" or c["cfg"]["cr"] != "ALWAYS_MERGE":
        return False
    n = len(c["regs"])
    if n < 2 or len({r["tree"]["cls"] for r in c["regs"]}) != 1:
        return False
    r = next(x for x in c["regs"] if x["dest"] == fail["dest"])
    diffs = differing_leaves(fail["got"], fail["ref"])
    if not diffs:
        return False
    for path, got, ref in diffs:
        f = find_field(r["tree"], path)
        if not (f and f["kind"] == "leaf" and isinstance(ref, dict) and ref.get("t") in ("list", "tuple") and len(ref["v"]) == n):
            return False
    return True


def _leaf_default_value(f):
    d = f["f"]["default"]
    return d["v"] if d["kind"] == "value" else None


def _has_converted_default_leaf(tree, kinds):
    """does the tree (any depth) hold a leaf whose OWN default is rewritten on the way through argparse/postprocess:
    'union' = a str default of a Union-typed leaf; 'literal' = a Literal default shadowed by a later value with the same str()"""
    for f in tree["fields"]:
        if f["kind"] == "leaf":
            t = f["f"]["ty"]
            inner = t["inner"] if t["k"] == "opt" else t
            v = _leaf_default_value(f)
            if v is None:
                continue
            if "union" in kinds and inner["k"] == "union" and v["t"] == "str":
                return True
            if "literal" in kinds and inner["k"] == "literal" and G.literal_expressible(inner, v) != v:
                return True
        elif _has_converted_default_leaf(f["tree"], kinds):
            return True
    return False


def _explained(r, path, got, ref):
    """why may this leaf / member legitimately-known differ? 'union' | 'literal' | None"""
    f = find_field(r["tree"], path)
    if not f:
        return None
    if f["kind"] == "child":
        # an Optional member holding such a leaf looks 'touched' and is built instead of staying None
        if (f["optional"] and isinstance(got, dict) and got.get("t") == "inst" and isinstance(ref, dict) and ref.get("t") == "none"):
            if _has_converted_default_leaf(f["tree"], {"union"}):
                return "union"
            if _has_converted_default_leaf(f["tree"], {"literal"}):
                return "literal"
        return None
    t = f["f"]["ty"]
    inner = t["inner"] if t["k"] == "opt" else t
    if (inner["k"] == "union" and isinstance(ref, dict) and ref.get("t") == "str" and isinstance(got, dict)
            and got.get("t") in ("int", "float", "bool")):
        return "union"
    if inner["k"] == "literal" and isinstance(ref, dict) and G.literal_expressible(inner, ref) != ref and got == G.literal_expressible(inner, ref):
        return "literal"
    return None


def _converted_default(kind):
    def pred(case, obs, fail):
        if fail.get("clause") != "equals-default":
            return False
        r = next(x for x in case["case"]["regs"] if x["dest"] == fail["dest"])
        diffs = differing_leaves(fail["got"], fail["ref"])
        if not diffs:
            return False
        why = [_explained(r, path, got, ref) for path, got, ref in diffs]
        return all(w is not None for w in why) and kind in why
    return pred


# a Union-typed leaf whose default is a str that an earlier Union member's parser accepts ('0' for Union[float,str]):
# argparse converts string defaults through type=, so the default comes back converted
_union_str_default = _converted_default("union")
# a Literal leaf whose default has the same str() as a LATER value of the Literal (`Literal["0", 0] = "0"`): the default is
# looked up by name in {str(v): v} (field_wrapper.py:891), which keeps the last value: "0" comes back as the int 0
_literal_collision = _converted_default("literal")


def _merge_optional_list_default(case, obs, fail):
    """ALWAYS_MERGE, one class at n destinations, an Optional[List[T]] field whose default is a list of length != n:
    the default is neither wrapped per destination nor recognised as per-destination list -> AssertionError
    'Not the same number of default values and destinations' at set-up (field_wrapper.py:780-788)."""
    c = case["case"]
    if fail.get("clause") != "accepts-empty" or fail.get("exc") != "AssertionError" or c["cfg"]["cr"] != "ALWAYS_MERGE":
        return False
    if len(c["regs"]) < 2 or len({r["tree"]["cls"] for r in c["regs"]}) != 1:
        return False
    for f in c["regs"][0]["tree"]["fields"]:
        if f["kind"] == "leaf":
            t, d = f["f"]["ty"], f["f"]["default"]
            if t["k"] == "opt" and t["inner"]["k"] == "list" and d["kind"] == "value" and d["v"]["t"] == "list" and len(d["v"]["v"]) != len(c["regs"]):
                return True
    return False


def skip_model(case, obs):
    """a ConflictResolutionError at set-up (allowed by C03 for forests with real clashes) is outside this model"""
    return any(o.get("o") == "raise" and o.get("exc") == "ConflictResolutionError" for o in obs.get("outs", []))


FINDINGS = {"C01-union-str-default-converted": _union_str_default,
            "C01-literal-name-collision": _literal_collision}
