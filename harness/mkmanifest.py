#!/venv/bin/python
"""Regenerates /verif/MANIFEST.json from the plugins' MANIFEST dicts (keeps it schema-valid)."""
import importlib
import json
import sys
from pathlib import Path

VERIF = Path(__file__).resolve().parents[1]
sys.path.insert(0, str(VERIF))
sys.path.insert(0, "/repo")

ALL = [f"C{i:02d}" for i in range(1, 21)]
UNCLAIMED_REASON = {}
f = VERIF / "harness" / "unclaimed.json"
if f.exists():
    UNCLAIMED_REASON = json.loads(f.read_text())

checks, na = [], []
for pid in ALL:
    p = VERIF / "harness" / "props" / f"{pid.lower()}.py"
    if not p.exists() or not (VERIF / "lean" / "SpVerif" / "Props" / f"{pid}.lean").exists():
        na.append({"property_id": pid, "reason": UNCLAIMED_REASON.get(
            pid, "no Lean model/theorem and correspondence check has been built for this property yet; it is planned in DESIGN.md section 5 and is not claimed until its model, central theorem and correspondence all pass on the clean tree")})
        continue
    m = importlib.import_module(f"harness.props.{pid.lower()}")
    mf = m.MANIFEST
    checks.append({
        "property_id": pid,
        "quick_cmd": f"./check {pid} quick",
        "thorough_cmd": f"./check {pid} thorough",
        "evidence_file": f"evidence/{pid}.json",
        "replay_cmd_template": f"./check {pid} --replay {{path}}",
        "engine": "lean-model+correspondence",
        "level_claimed": {"category": "proof", "text": mf["text"], "design_ref": mf.get("design_ref", f"DESIGN.md section 5 {pid}")},
        "level_note": mf["note"],
        "technique": mf.get("technique", "Lean 4 theorems about a hand-written executable model + differential correspondence check against the real code"),
    })

manifest = {
    "version": 1,
    "setup_cmd": "cd lean && lake build",
    "hooks": {
        "guard": "SIMPLE_PARSING_VERIF",
        "enable": "no instrumentation is compiled into /repo: every observation is taken through the public API or by reading parser attributes from the harness, so checks run the working tree as it is (guard unused)",
        "baseline_off_cmd": "cd /repo && /venv/bin/python -m pytest -ra -q -p no:cacheprovider --timeout=900 --continue-on-collection-errors",
        "source_commits": [],
        "add_only": True,
    },
    "engines": [{
        "name": "lean-model+correspondence",
        "path": "lean/ + harness/",
        "serves_properties": [c["property_id"] for c in checks],
        "kind_free_text": "Lean 4 library (executable model, property theorems, native line-protocol driver) plus a Python harness that runs the real simple_parsing code on generated cases, compares with the model, evaluates the property directly, and searches for a failing input when a proof obligation or the correspondence breaks",
    }],
    "checks": checks,
    "notes": "See DESIGN.md. known_findings.txt lists open findings and fixed defects; seeded/ holds validated breaking changes used to test the checks.",
    "not_applicable": na,
}
(VERIF / "MANIFEST.json").write_text(json.dumps(manifest, indent=1) + "\n")
print(f"{len(checks)} checks claimed, {len(na)} unclaimed")
