#!/bin/bash
# usage: seedtest.sh <worktree> <patch.diff> <PID> [tier]   — apply a seeded change in a scratch worktree, run the check
# against that tree (VERIF_REPO), undo the change. Prints the check's last lines and its exit status.
wt="$1"; patch="$2"; pid="$3"; tier="${4:-quick}"
git -C "$wt" reset -q --hard && git -C "$wt" apply "$patch" 2>/dev/null || git -C "$wt" apply --3way "$patch" || { echo "patch does not apply"; exit 3; }
out=$(cd /verif && VERIF_REPO="$wt" ./check "$pid" "$tier" 2>&1); st=$?; echo "$out" | tail -4
git -C "$wt" reset -q --hard
echo "check-exit=$st"
