#!/venv/bin/python
"""Per-property check orchestration (see DESIGN.md §2.2).

usage:  vcheck.py <PID> [quick|thorough]
        vcheck.py <PID> --replay <file>

exit 0: property held on everything explored (KNOWN-FINDING lines allowed)
exit 1: VIOLATION property=<id> replay=<path> [no-failing-input-found]
exit 2: harness failure / timeout
"""
from __future__ import annotations

import hashlib
import importlib
import json
import multiprocessing as mp
import os
import random
import subprocess
import sys
import time
import traceback
from pathlib import Path

VERIF = Path(__file__).resolve().parents[1]
sys.path.insert(0, str(VERIF))
REPO = Path(os.environ.get("VERIF_REPO", "/repo"))
sys.path.insert(0, str(REPO))
os.environ.setdefault("COLUMNS", "100")

from harness.core import leanproj  # noqa: E402

_PLUGIN = None


def canon(x) -> str:
    return json.dumps(x, sort_keys=True, ensure_ascii=False, separators=(",", ":"))


def load_plugin(pid: str):
    global _PLUGIN
    _PLUGIN = importlib.import_module(f"harness.props.{pid.lower()}")
    return _PLUGIN


def _worker(case: dict) -> dict:
    """Runs the REAL code on one case, then the property's own statement on the observation."""
    plugin = _PLUGIN
    try:
        obs = plugin.impl(case)
    except BaseException as e:  # adapter bug (real-code exceptions are mapped inside impl)
        return {"harness_error": f"{type(e).__name__}: {e}\n{traceback.format_exc()[-1500:]}"}
    try:
        fails = plugin.oracle(case, obs) or []
        nt = bool(plugin.nontrivial(case, obs))
        tags = list(plugin.tags(case, obs)) if hasattr(plugin, "tags") else []
    except BaseException as e:
        return {"harness_error": f"oracle {type(e).__name__}: {e}\n{traceback.format_exc()[-1500:]}"}
    return {"obs": obs, "fails": fails, "nontrivial": nt, "tags": tags}


def run_impl(cases: list[dict], jobs: int) -> list[dict]:
    if jobs <= 1 or len(cases) < 16 or getattr(_PLUGIN, "SERIAL", False):
        return [_worker(c) for c in cases]
    ctx = mp.get_context("fork")
    with ctx.Pool(jobs) as pool:
        return pool.map(_worker, cases, chunksize=max(1, len(cases) // (jobs * 8)))


# ---------------------------------------------------------------------------------------------
# known findings


def load_findings(pid: str) -> tuple[list[dict], list[dict]]:
    open_, fixed = [], []
    f = VERIF / "known_findings.txt"
    if not f.exists():
        return open_, fixed
    for line in f.read_text().splitlines():
        line = line.strip()
        if not line or line.startswith("#"):
            continue
        kind, _, rest = line.partition(":")
        rest = rest.strip()
        head, _, text = rest.partition("::")
        fields = dict(tok.split("=", 1) for tok in head.split() if "=" in tok)
        if fields.get("property") != pid:
            continue
        fields["text"] = text.strip() or rest
        (open_ if kind.strip() == "open" else fixed).append(fields)
    return open_, fixed


def repo_state() -> dict:
    def git(*a):
        try:
            return subprocess.run(["git", "-C", str(REPO), *a], capture_output=True, text=True, timeout=30).stdout
        except Exception:
            return ""

    diff = git("diff", "HEAD")
    return {
        "repo_head": git("rev-parse", "HEAD").strip(),
        "repo_diff_sha": hashlib.sha256(diff.encode()).hexdigest()[:16] if diff else "clean",
    }


# ---------------------------------------------------------------------------------------------


def attribute(plugin, findings_open: list[dict], case: dict, obs, fail: dict) -> str | None:
    """Return the id of the open finding whose narrow signature matches this failure, if any."""
    preds = getattr(plugin, "FINDINGS", {})
    for f in findings_open:
        pred = preds.get(f.get("id", ""))
        if pred is not None:
            try:
                if pred(case, obs, fail):
                    return f["id"]
            except Exception:
                pass
    return None


def shrink_case(plugin, case: dict, clause: str, budget: int = 200) -> tuple[dict, dict]:
    """Greedy shrink: accept any candidate that still fails the same oracle clause."""
    best = case
    best_res = _worker(case)
    if not hasattr(plugin, "shrink"):
        return best, best_res
    steps = 0
    improved = True
    while improved and steps < budget:
        improved = False
        for cand in plugin.shrink(best):
            steps += 1
            if steps > budget:
                break
            r = _worker(cand)
            if "harness_error" in r:
                continue
            if any(f.get("clause") == clause for f in r["fails"]):
                best, best_res, improved = cand, r, True
                break
    return best, best_res


def write_replay(pid: str, name: str, payload: dict) -> Path:
    d = VERIF / "replays" / pid
    d.mkdir(parents=True, exist_ok=True)
    p = d / f"{name}.json"
    p.write_text(json.dumps(payload, indent=1, ensure_ascii=False, sort_keys=True))
    return p


def strip_case(c: dict) -> dict:
    return {k: v for k, v in c.items() if k in ("op", "case", "model")}


def main(argv: list[str]) -> int:
    if len(argv) < 2:
        print(__doc__)
        return 2
    pid = argv[1]
    if len(argv) >= 4 and argv[2] == "--replay":
        return replay(pid, Path(argv[3]))
    tier = argv[2] if len(argv) >= 3 else os.environ.get("VERIF_TIER", "quick")
    if tier not in ("quick", "thorough"):
        print(f"bad tier {tier}")
        return 2
    seed = int(os.environ.get("VERIF_SEED", "0"))
    jobs = int(os.environ.get("VERIF_JOBS", str(os.cpu_count() or 4)))
    t0 = time.time()
    plugin = load_plugin(pid)
    import simple_parsing

    assert str(Path(simple_parsing.__file__).resolve()).startswith(str(REPO.resolve())), simple_parsing.__file__

    # 1. proof obligations --------------------------------------------------------------------
    build = leanproj.build()
    audit = leanproj.audit(pid) if build["ok"] else {"ok": False, "theorems": {}, "problems": ["build failed"]}
    all_thms = leanproj.theorems_of(pid) if leanproj.props_file(pid).exists() else []
    proof_ok = build["ok"] and audit["ok"]
    if tier == "thorough" and proof_ok and os.environ.get("VERIF_LEANCHECKER", "1") == "1":
        try:
            p = subprocess.run(
                ["lake", "env", "leanchecker", f"SpVerif.Props.{pid}"],
                cwd=leanproj.LEAN, capture_output=True, text=True, timeout=1500,
            )
            leanchecker = {"ran": True, "ok": p.returncode == 0, "tail": (p.stdout + p.stderr)[-500:]}
            if p.returncode != 0:
                proof_ok = False
                audit.setdefault("problems", []).append("leanchecker rejected the compiled module: " + leanchecker["tail"])
        except Exception as e:  # tool unavailable / timeout: recorded, not a proof failure
            leanchecker = {"ran": False, "ok": None, "tail": str(e)}
    else:
        leanchecker = {"ran": False}

    # 2./3. cases: corpus first, then generated ---------------------------------------------------
    rng = random.Random(seed)
    cases: list[dict] = []
    corpus_dir = VERIF / "harness" / "corpus" / pid
    if corpus_dir.is_dir():
        for f in sorted(corpus_dir.glob("*.json")):
            j = json.loads(f.read_text())
            for c in j if isinstance(j, list) else [j]:
                c = strip_case(c)
                c["src"] = f"corpus:{f.name}"
                cases.append(c)
    # thorough tier: a plug-in whose single pass is cheap asks for several passes with derived PRNG states
    # (THOROUGH_ROUNDS); cases identical to one already generated (the seed-independent enumerated slices) are dropped
    rounds = int(os.environ.get("VERIF_ROUNDS") or (getattr(plugin, "THOROUGH_ROUNDS", 1) if tier == "thorough" else 1))
    seen_cases: set[str] = set()
    for k in range(max(1, rounds)):
        r_k = rng if k == 0 else random.Random(f"{seed}:{k}")
        for c in plugin.gen(r_k, tier):
            c.setdefault("src", "gen" if k == 0 else f"gen:{k}")
            if rounds > 1:
                key = hashlib.sha1(canon({"op": c.get("op"), "case": c.get("case")}).encode()).hexdigest()
                if key in seen_cases:
                    continue
                seen_cases.add(key)
            cases.append(c)
    del seen_cases
    for i, c in enumerate(cases):
        c["id"] = i

    try:
        results = run_impl(cases, jobs)
    except Exception:
        traceback.print_exc()
        return 2
    herr = [(c, r) for c, r in zip(cases, results) if "harness_error" in r]
    if herr:
        print(f"HARNESS ERROR on {len(herr)} cases; first:\n{canon(strip_case(herr[0][0]))[:2000]}\n{herr[0][1]['harness_error']}")
        return 2

    # model side --------------------------------------------------------------------------------
    mismatches: list[dict] = []
    model_ops: dict[str, dict] = {}
    n_model = 0
    if build["ok"]:
        reqs = []
        if hasattr(plugin, "skip_model"):
            for c, r in zip(cases, results):
                if c.get("model", True) and plugin.skip_model(c, r["obs"]):
                    c["model"] = False
        for c, r in zip(cases, results):
            if c.get("model", True):
                mcase = plugin.model_case(c, r["obs"]) if hasattr(plugin, "model_case") else c["case"]
                reqs.append({"id": c["id"], "op": c["op"], "case": mcase})
        try:
            mout = leanproj.run_driver(reqs) if reqs else {}
        except Exception as e:
            mout = {-1: {"err": f"driver failed: {e}"}}
        n_model = len(reqs)
        for c, r in zip(cases, results):
            if not c.get("model", True):
                continue
            st = model_ops.setdefault(c["op"], {"cases": 0, "agree": 0})
            st["cases"] += 1
            resp = mout.get(c["id"])
            proj = plugin.project(c, r["obs"]) if hasattr(plugin, "project") else r["obs"]
            if resp is None or "out" not in resp:
                mismatches.append({"case": strip_case(c), "impl": proj, "model": resp, "why": "model gave no answer"})
                continue
            mo = resp["out"]
            if hasattr(plugin, "project_model"):
                mo = plugin.project_model(c, mo)
            if hasattr(plugin, "model_unmodelled") and plugin.model_unmodelled(mo):
                st.setdefault("unmodelled", 0)
                st["unmodelled"] += 1
                continue
            if canon(proj) != canon(mo):
                mismatches.append({"case": strip_case(c), "impl": proj, "model": mo, "why": "observations differ"})
            else:
                st["agree"] += 1

    if mismatches and os.environ.get("VERIF_DEBUG"):
        write_replay(pid, f"mismatches_{tier}_{seed}", {"mismatches": sorted(mismatches, key=lambda m: len(canon(m["case"])))[:25]})

    # 4./5. classify ---------------------------------------------------------------------------
    findings_open, findings_fixed = load_findings(pid)
    known_hits: dict[str, int] = {f["id"]: 0 for f in findings_open if "id" in f}
    new_fail: list[tuple[dict, dict, dict]] = []
    for c, r in zip(cases, results):
        for fail in r["fails"]:
            fid = attribute(plugin, findings_open, c, r["obs"], fail)
            if fid is not None:
                known_hits[fid] += 1
            else:
                new_fail.append((c, r, fail))

    out_lines: list[str] = []
    for f in findings_open:
        if known_hits.get(f.get("id", ""), 0) > 0:
            out_lines.append(f"KNOWN-FINDING: property={pid} {f.get('id')} {f['text']}")
        else:
            out_lines.append(f"note: open finding {f.get('id')} was not reproduced on this run")

    violation = None
    searched = 0
    if new_fail:
        c, r, fail = new_fail[0]
        sc, sr = shrink_case(plugin, strip_case(c), fail.get("clause", ""))
        path = write_replay(pid, f"violation_{tier}_{seed}", {
            "property": pid, "kind": "oracle", "failed_clause": fail, "case": strip_case(sc),
            "observation": sr.get("obs"), "failures": sr.get("fails"), "original_case": strip_case(c),
            "n_failing_cases": len({x[0]["id"] for x in new_fail}),
        })
        violation = f"VIOLATION property={pid} replay={path.relative_to(VERIF)}"
    elif not proof_ok or mismatches:
        # a broken proof obligation or correspondence: search for a concrete failing input
        found = None
        budget = 10 * max(200, len(cases))
        srng = random.Random(seed + 7919)
        pool_cases: list[dict] = []
        if hasattr(plugin, "neighbours"):
            for m in mismatches[:20]:
                for nb in plugin.neighbours(m["case"], srng):
                    pool_cases.append(nb)
        for extra_seed in range(1, 6):
            g = plugin.gen(random.Random(seed + 1000 * extra_seed), "thorough" if tier == "thorough" else "quick")
            for c in g:
                pool_cases.append(c)
                if len(pool_cases) >= budget:
                    break
            if len(pool_cases) >= budget:
                break
        for i, c in enumerate(pool_cases):
            c["id"] = 10_000_000 + i
        sres = run_impl(pool_cases, jobs)
        searched = len(pool_cases)
        for c, r in zip(pool_cases, sres):
            if "harness_error" in r:
                continue
            for fail in r["fails"]:
                if attribute(plugin, findings_open, c, r["obs"], fail) is None:
                    found = (c, r, fail)
                    break
            if found:
                break
        if found:
            c, r, fail = found
            sc, sr = shrink_case(plugin, strip_case(c), fail.get("clause", ""))
            path = write_replay(pid, f"violation_{tier}_{seed}", {
                "property": pid, "kind": "oracle-after-broken-" + ("proof" if not proof_ok else "correspondence"),
                "failed_clause": fail, "case": strip_case(sc), "observation": sr.get("obs"), "failures": sr.get("fails"),
            })
            violation = f"VIOLATION property={pid} replay={path.relative_to(VERIF)}"
        else:
            payload = {"property": pid, "searched_cases": searched}
            if not proof_ok:
                payload["kind"] = "proof"
                payload["broken"] = {"build_ok": build["ok"], "build_log_tail": build["log"][-3000:],
                                     "audit_problems": audit.get("problems", []), "theorems": all_thms}
            else:
                payload["kind"] = "correspondence"
                ops = sorted({m["case"]["op"] for m in mismatches})
                payload["broken"] = {"ops": ops, "n_mismatches": len(mismatches)}
                small = min(mismatches, key=lambda m: len(canon(m["case"])))
                payload["smallest_disagreement"] = small
            path = write_replay(pid, f"violation_{tier}_{seed}", payload)
            violation = f"VIOLATION property={pid} replay={path.relative_to(VERIF)} no-failing-input-found"

    # 6. evidence ------------------------------------------------------------------------------
    nontrivial = {canon(strip_case(c)) for c, r in zip(cases, results) if r["nontrivial"]}
    tagcount: dict[str, int] = {}
    for r in results:
        for t in r["tags"]:
            tagcount[t] = tagcount.get(t, 0) + 1
    n_thm = len(all_thms)
    n_ops = len(model_ops)
    discharged = (len(audit.get("theorems", {})) if proof_ok else 0) + sum(
        1 for op, st in model_ops.items() if st["agree"] + st.get("unmodelled", 0) == st["cases"]
    )
    samples = [strip_case(c) for c in cases if c["src"] == "gen"][:3] or [strip_case(c) for c in cases[:3]]
    axioms = sorted({a for axs in audit.get("theorems", {}).values() for a in axs})
    ev = {
        "property_id": pid,
        "tier": tier,
        "seed": seed,
        "level": "proof",
        "coverage": {
            "obligations": n_thm + n_ops,
            "discharged": discharged,
            "checker_cmd": "cd lean && lake build && lake env lean <generated #print axioms file for SpVerif/Props/%s.lean>" % pid
            + (" && lake env leanchecker SpVerif.Props.%s" % pid if leanchecker.get("ran") else ""),
            "trusted_base": list(getattr(plugin, "TRUSTED", [])) + [
                "Lean 4 kernel; axioms used by the property theorems: " + (", ".join(axioms) or "none"),
                "hand-written model tied to /repo by the correspondence ops listed under model_ops (differential, generated inputs)",
                "harness/vcheck.py, harness/props/%s.py (generator, adapter, oracle, canonicalisation)" % pid.lower(),
            ],
            "theorems": audit.get("theorems", {}),
            "theorems_declared": all_thms,
            "model_ops": model_ops,
            "evaluations": len(cases),
            "generator_rounds": rounds,
            "model_evaluations": n_model,
            "distinct_nontrivial": len(nontrivial),
            "rule": getattr(plugin, "RULE", ""),
            "samples": samples,
            "exhaustive": bool(getattr(plugin, "EXHAUSTIVE", {}).get(tier, False)),
            "distribution": dict(sorted(tagcount.items())),
            "mismatches": len(mismatches),
            "oracle_failures_new": len(new_fail),
            "known_findings_replayed": known_hits,
            "failing_input_search_cases": searched,
            "leanchecker": leanchecker,
            "lean_build": {"ok": build["ok"], "wall_s": round(build["wall_s"], 2)},
            "audit": {"ok": audit.get("ok"), "cached": audit.get("cached"), "problems": audit.get("problems", [])},
            **repo_state(),
        },
        "assumptions": list(getattr(plugin, "ASSUMPTIONS", [])),
        "wall_s": round(time.time() - t0, 2),
        "violations": 1 if violation else 0,
    }
    # a run against an alternate tree (VERIF_REPO: seeded-change tests) must not overwrite the evidence of /repo
    evdir = VERIF / "replays" / "alt_repo_evidence" if os.environ.get("VERIF_REPO") else VERIF / "evidence"
    evdir.mkdir(parents=True, exist_ok=True)
    (evdir / f"{pid}.json").write_text(json.dumps(ev, indent=1, ensure_ascii=False))

    for line in out_lines:
        print(line)
    print(
        f"{pid} {tier} seed={seed}: {len(cases)} cases ({len(nontrivial)} distinct non-trivial), "
        f"{n_model} model evaluations, {len(mismatches)} mismatches, theorems {len(audit.get('theorems', {}))}/{n_thm} "
        f"audited, build_ok={build['ok']}, {ev['wall_s']}s"
    )
    if violation:
        print(violation)
        return 1
    return 0


def replay(pid: str, path: Path) -> int:
    plugin = load_plugin(pid)
    if not path.is_absolute() and not path.exists():
        path = VERIF / path
    j = json.loads(path.read_text())
    if isinstance(j, list):   # a corpus file holding several cases: replay each, fail if any fails
        rc = 0
        for k, item in enumerate(j):
            print(f"--- case {k + 1}/{len(j)} of {path.name}")
            rc = max(rc, _replay_one(pid, plugin, path, item))
        return rc
    return _replay_one(pid, plugin, path, j)


def _replay_one(pid: str, plugin, path: Path, j: dict) -> int:
    if "op" in j and "case" in j:  # corpus format
        case = j
    else:
        case = j.get("case") or (j.get("smallest_disagreement") or {}).get("case")
    if case is None:
        print(f"replay {path}: no concrete input ({j.get('kind')}): {canon(j.get('broken'))[:1500]}")
        b = leanproj.build()
        a = leanproj.audit(pid) if b["ok"] else {"ok": False}
        print(f"build_ok={b['ok']} audit_ok={a.get('ok')}")
        return 0 if (b["ok"] and a.get("ok")) else 1
    r = _worker(strip_case(case))
    print("case:", canon(strip_case(case))[:3000])
    if "harness_error" in r:
        print(r["harness_error"])
        return 2
    print("observation:", canon(r["obs"])[:3000])
    if case.get("model", True) and leanproj.build()["ok"]:
        mcase = plugin.model_case(case, r["obs"]) if hasattr(plugin, "model_case") else case["case"]
        mo = leanproj.run_driver([{"id": 0, "op": case["op"], "case": mcase}]).get(0)
        print("model:", canon(mo)[:3000])
    if r["fails"]:
        for f in r["fails"]:
            print("FAILS:", canon(f)[:1500])
        print(f"VIOLATION property={pid} replay={path}")
        return 1
    print("property holds on this input")
    return 0


if __name__ == "__main__":
    try:
        sys.exit(main(sys.argv))
    except SystemExit:
        raise
    except BaseException:
        traceback.print_exc()
        sys.exit(2)
